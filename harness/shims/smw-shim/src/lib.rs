//! Shim that compiles the repository's own (private) base64-VLQ encoder and mapping writer
//! as public modules, unmodified, so the monitor can drive them directly.
#[path = "/repo/crates/sourcemap-writer/src/base64_vlq/mod.rs"]
pub mod base64_vlq;
#[path = "/repo/crates/sourcemap-writer/src/source_writer/mapping_writer.rs"]
pub mod mapping_writer;
