//! libFuzzer front end of the C08 monitor: coverage-guided inputs for the same pipeline the generated workloads drive
//! (both parsers, config reader, extension/import resolution, checkers, printers, diagnostics rendering, introspection
//! reader). Panics are caught by the monitor's own guard and written as findings; the fuzzer keeps going.
#![no_main]
use libfuzzer_sys::fuzz_target;
use std::sync::Once;

static INIT: Once = Once::new();

fuzz_target!(|data: &[u8]| {
    INIT.call_once(|| {
        nqv::panicguard::install_hook();
    });
    if let Ok(text) = std::str::from_utf8(data) {
        nqv::props::c08::fuzz_one(text);
    }
});
