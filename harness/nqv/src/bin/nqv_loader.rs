//! C19 engine binary: the loader ABI driver with the shadow-heap monitor installed as the
//! global allocator. The same binary is built with AddressSanitizer, run under valgrind and
//! interpreted by Miri (heap tracking off in those modes).

use std::time::Instant;

use nqv::ctx::Ctx;
use nqv::heapmon;
use nqv::report::Report;
use serde_json::{Value, json};

#[global_allocator]
static GLOBAL: heapmon::Monitor = heapmon::Monitor;

fn arg_val(args: &[String], key: &str) -> Option<String> {
    args.iter().position(|a| a == key).and_then(|i| args.get(i + 1).cloned())
}

fn main() {
    let args: Vec<String> = std::env::args().collect();
    let mode = arg_val(&args, "--mode").unwrap_or_else(|| "native".into());
    if mode != "native" {
        // an address-remembering monitor would hide double frees / leaks from the sanitizer
        heapmon::disable();
    }
    nqv::panicguard::install_hook();
    let out = arg_val(&args, "--out").unwrap_or_else(|| "/verif/target/out/C19".into());
    // the sub-command is the first argument that is not an option or an option value
    let sub = args.iter().skip(1).find(|a| matches!(a.as_str(), "run" | "replay" | "help")).cloned();
    match sub.as_deref() {
        Some("run") => {
            let thorough = arg_val(&args, "--tier").as_deref() == Some("thorough");
            let seed = arg_val(&args, "--seed").and_then(|s| s.parse().ok()).unwrap_or(1u64);
            let shard_s = arg_val(&args, "--shard").unwrap_or_else(|| "0/1".into());
            let (i, n) = shard_s.split_once('/').unwrap_or(("0", "1"));
            let ctx = Ctx { property: "C19".into(), thorough, seed, shard: i.parse().unwrap_or(0), nshards: n.parse().unwrap_or(1), out: out.clone(), cli: String::new() };
            std::fs::create_dir_all(&out).ok();
            let mut rep = Report::new("C19");
            if let Some(t) = arg_val(&args, "--trace") {
                rep.trace_path = Some(t);
            }
            let t0 = Instant::now();
            nqv::props::c19::run_mode(&ctx, &mut rep, &mode);
            let mut j = rep.to_json();
            j["wall_s"] = json!(t0.elapsed().as_secs_f64());
            j["shard"] = json!(ctx.shard);
            j["mode"] = json!(mode);
            let name = arg_val(&args, "--result").unwrap_or_else(|| format!("result-{}.json", ctx.shard));
            std::fs::write(format!("{out}/{name}"), serde_json::to_string(&j).unwrap()).expect("write result");
        }
        Some("replay") => {
            let file = args.iter().position(|a| a == "replay").and_then(|i| args.get(i + 1)).expect("replay FILE");
            let text = std::fs::read_to_string(file).expect("read replay file");
            let v: Value = serde_json::from_str(&text).expect("json");
            let case = if v.get("replay").is_some() { v["replay"].clone() } else { v.clone() };
            let vs = nqv::props::c19::replay(&case);
            let j = json!({"violations": vs.iter().map(|v| json!({"sig": v.sig, "detail": v.detail})).collect::<Vec<_>>()});
            println!("{}", serde_json::to_string(&j).unwrap());
        }
        _ => {
            eprintln!("usage: nqv-loader run --mode native|asan|valgrind|miri --tier T --seed N --shard i/n --out DIR | replay FILE");
            std::process::exit(2);
        }
    }
}
