//! Reference semantics for the type-level monitors (DESIGN.md appendix A):
//!   * CollectFields / CompleteValue producing possible responses (global sigma) — C01
//!   * Ref_local membership (per selection set: some object type, some local sigma) — C02
//!   * variable coercion on an abstract input domain — C09

use std::collections::{BTreeMap, BTreeSet};

use crate::model::*;
use crate::refts::{ScalarMap, Target};
use crate::rng::Rng;
use crate::schema_ix::SchemaIx;
use crate::ts::{self, V};

pub struct ExecCx<'a> {
    pub ix: &'a SchemaIx,
    pub doc: &'a ExecDoc,
    pub scalars: &'a ScalarMap,
}

pub type Sigma = BTreeMap<String, bool>;

/// value of a directive's `if` argument under sigma: None when it is not decidable (non-boolean variable etc.)
fn if_value(d: &Dir, sigma: &Sigma, defaults: &BTreeMap<String, bool>) -> Option<bool> {
    match d.arg("if")? {
        Val::Bool(b, _) => Some(*b),
        Val::Var(n) => sigma.get(&n.s).copied().or_else(|| defaults.get(&n.s).copied()),
        _ => None,
    }
}

fn included(dirs: &[Dir], sigma: &Sigma, defaults: &BTreeMap<String, bool>) -> bool {
    for d in dirs {
        if d.name.s == "skip" && if_value(d, sigma, defaults) == Some(true) {
            return false;
        }
        if d.name.s == "include" && if_value(d, sigma, defaults) == Some(false) {
            return false;
        }
    }
    true
}

/// boolean variables that steer @skip/@include directly inside this selection set (through fragments, not through sub-selections)
pub fn local_bool_vars(cx: &ExecCx, ss: &SelSet, out: &mut BTreeSet<String>, seen: &mut Vec<String>) {
    for s in &ss.items {
        for d in s.dirs() {
            if matches!(d.name.s.as_str(), "skip" | "include") {
                if let Some(Val::Var(n)) = d.arg("if") {
                    out.insert(n.s.clone());
                }
            }
        }
        match s {
            Sel::Field(_) => {}
            Sel::Inline { sels, .. } => local_bool_vars(cx, sels, out, seen),
            Sel::Spread { name, .. } => {
                if !seen.contains(&name.s) {
                    seen.push(name.s.clone());
                    if let Some(f) = cx.doc.frag(&name.s) {
                        local_bool_vars(cx, &f.sels, out, seen);
                    }
                }
            }
        }
    }
}

/// every boolean variable used by @skip/@include anywhere below (for the global sigma)
pub fn all_bool_vars(cx: &ExecCx, ss: &SelSet, out: &mut BTreeSet<String>, seen: &mut Vec<String>) {
    local_bool_vars(cx, ss, out, seen);
    for s in &ss.items {
        match s {
            Sel::Field(f) => {
                if let Some(sub) = &f.sels {
                    all_bool_vars(cx, sub, out, seen);
                }
            }
            Sel::Inline { sels, .. } => all_bool_vars(cx, sels, out, seen),
            Sel::Spread { name, .. } => {
                if let Some(f) = cx.doc.frag(&name.s) {
                    // local_bool_vars already marked it as seen for the directive scan; descend for nested fields once
                    let key = format!("#{}", name.s);
                    if !seen.contains(&key) {
                        seen.push(key);
                        all_bool_vars(cx, &f.sels, out, seen);
                    }
                }
            }
        }
    }
}

/// spec CollectFields for runtime object type `obj`: response key -> field nodes (in order of first appearance)
pub fn collect<'a>(cx: &'a ExecCx, obj: &str, ss: &'a SelSet, sigma: &Sigma, defaults: &BTreeMap<String, bool>, out: &mut Vec<(String, Vec<&'a Field>)>, visited: &mut Vec<String>) {
    for s in &ss.items {
        if !included(s.dirs(), sigma, defaults) {
            continue;
        }
        match s {
            Sel::Field(f) => {
                let key = f.key().to_string();
                match out.iter_mut().find(|(k, _)| *k == key) {
                    Some((_, v)) => v.push(f),
                    None => out.push((key, vec![f])),
                }
            }
            Sel::Inline { cond, sels, .. } => {
                let applies = match cond {
                    None => true,
                    Some(c) => cx.ix.possible(&c.s).iter().any(|p| p == obj),
                };
                if applies {
                    collect(cx, obj, sels, sigma, defaults, out, visited);
                }
            }
            Sel::Spread { name, .. } => {
                if visited.contains(&name.s) {
                    continue;
                }
                visited.push(name.s.clone());
                if let Some(f) = cx.doc.frag(&name.s) {
                    if cx.ix.possible(&f.cond.s).iter().any(|p| p == obj) {
                        collect(cx, obj, &f.sels, sigma, defaults, out, visited);
                    }
                }
            }
        }
    }
}

/// inhabitants of a scalar's configured *operation output* TypeScript type, as abstract values
pub fn scalar_inhabitants(text: &str) -> Vec<V> {
    let Ok(ty) = ts::parse_type(text) else { return vec![] };
    let prog = ts::Program { scopes: vec![ts::Scope::default()], modules: vec![0], imports: vec![vec![]] };
    let ev = ts::Eval::new(&prog);
    let nf = ev.eval(0, &ty, &std::rc::Rc::new(BTreeMap::new()));
    let universe = [V::OtherStr, V::Num, V::Bool, V::Opaque("Date".into()), V::Obj(BTreeMap::new()), V::Null];
    universe.into_iter().filter(|v| ts::member(&ev, v, &nf, 0)).collect()
}

/// does `v` inhabit the scalar's configured type `text`?
pub fn scalar_admits(text: &str, v: &V) -> bool {
    let Ok(ty) = ts::parse_type(text) else { return false };
    let prog = ts::Program { scopes: vec![ts::Scope::default()], modules: vec![0], imports: vec![vec![]] };
    let ev = ts::Eval::new(&prog);
    let nf = ev.eval(0, &ty, &std::rc::Rc::new(BTreeMap::new()));
    ts::member(&ev, v, &nf, 0)
}

// ------------------------------------------------------------------------------------ responses (C01)

pub struct Chooser<'r> {
    pub rng: &'r mut Rng,
    /// bias towards null at nullable positions (0..=3 out of 4)
    pub null_bias: u32,
}

/// one possible response object for selection set `ss` on runtime object type `obj` under global sigma
pub fn respond(cx: &ExecCx, obj: &str, ss: &SelSet, sigma: &Sigma, defaults: &BTreeMap<String, bool>, ch: &mut Chooser, depth: usize) -> V {
    let mut fields = vec![];
    collect(cx, obj, ss, sigma, defaults, &mut fields, &mut vec![]);
    let mut m = BTreeMap::new();
    for (key, nodes) in fields {
        let f0 = nodes[0];
        let v = if f0.name.s == "__typename" {
            V::Str(obj.to_string())
        } else {
            match cx.ix.field(obj, &f0.name.s) {
                Some(fd) => complete(cx, &fd.ty, &nodes, sigma, defaults, ch, depth),
                None => V::Null,
            }
        };
        m.insert(key, v);
    }
    V::Obj(m)
}

fn complete(cx: &ExecCx, ty: &Ty, nodes: &[&Field], sigma: &Sigma, defaults: &BTreeMap<String, bool>, ch: &mut Chooser, depth: usize) -> V {
    match ty {
        Ty::NonNull(inner) => complete_nn(cx, inner, nodes, sigma, defaults, ch, depth),
        other => {
            if ch.rng.below(4) < ch.null_bias as usize || depth > 6 {
                V::Null
            } else {
                complete_nn(cx, other, nodes, sigma, defaults, ch, depth)
            }
        }
    }
}

fn complete_nn(cx: &ExecCx, ty: &Ty, nodes: &[&Field], sigma: &Sigma, defaults: &BTreeMap<String, bool>, ch: &mut Chooser, depth: usize) -> V {
    match ty {
        Ty::NonNull(inner) => complete_nn(cx, inner, nodes, sigma, defaults, ch, depth),
        Ty::List(inner, _) => {
            let n = if depth > 6 { 0 } else { ch.rng.below(3) };
            V::List((0..n).map(|_| complete(cx, inner, nodes, sigma, defaults, ch, depth + 1)).collect())
        }
        Ty::Named(n) => match cx.ix.kind(&n.s) {
            Some(TKind::Scalar) => {
                let text = cx.scalars.text(&n.s, Target::OperationOutput).unwrap_or("unknown");
                let mut inh = scalar_inhabitants(text);
                inh.retain(|v| *v != V::Null);
                if inh.is_empty() { V::OtherStr } else { inh[ch.rng.below(inh.len())].clone() }
            }
            Some(TKind::Enum) => {
                let vs = cx.ix.enum_values(&n.s);
                V::Str(vs[ch.rng.below(vs.len())].clone())
            }
            Some(TKind::Object | TKind::Interface | TKind::Union) => {
                let poss = cx.ix.possible(&n.s);
                if poss.is_empty() {
                    // an abstract type nobody implements can only be null; at a non-null position no response exists:
                    // the marker makes the caller discard this response
                    return V::Opaque("<impossible>".into());
                }
                let o = poss[ch.rng.below(poss.len())].clone();
                // merged sub-selections of all nodes
                let merged = SelSet { p: P::none(), items: nodes.iter().filter_map(|f| f.sels.as_ref()).flat_map(|s| s.items.clone()).collect() };
                respond(cx, &o, &merged, sigma, defaults, ch, depth + 1)
            }
            _ => V::Null,
        },
    }
}

// ------------------------------------------------------------------------------------ Ref_local (C02)

/// is `v` a value some execution could produce for selection set `ss` on a parent of (static) type `parent`,
/// when this selection set may pick its own object type and its own values of the boolean variables it uses?
pub fn ref_local_member(cx: &ExecCx, v: &V, parent: &str, ss: &SelSet, defaults: &BTreeMap<String, bool>, depth: usize) -> bool {
    let V::Obj(m) = v else { return false };
    if depth > 16 {
        return true;
    }
    let mut vars = BTreeSet::new();
    local_bool_vars(cx, ss, &mut vars, &mut vec![]);
    let vars: Vec<String> = vars.into_iter().collect();
    let k = vars.len().min(10);
    for obj in cx.ix.possible(parent) {
        for mask in 0..(1u32 << k) {
            let sigma: Sigma = vars.iter().take(k).enumerate().map(|(i, n)| (n.clone(), mask & (1 << i) != 0)).collect();
            let mut fields = vec![];
            collect(cx, &obj, ss, &sigma, defaults, &mut fields, &mut vec![]);
            let keys: BTreeSet<&String> = fields.iter().map(|(k, _)| k).collect();
            let vkeys: BTreeSet<&String> = m.keys().collect();
            if keys != vkeys {
                continue;
            }
            let mut all = true;
            for (key, nodes) in &fields {
                let val = &m[key];
                let f0 = nodes[0];
                let ok = if f0.name.s == "__typename" {
                    *val == V::Str(obj.clone())
                } else {
                    match cx.ix.field(&obj, &f0.name.s) {
                        Some(fd) => complete_member(cx, val, &fd.ty, nodes, defaults, depth),
                        None => false,
                    }
                };
                if !ok {
                    all = false;
                    break;
                }
            }
            if all {
                return true;
            }
        }
    }
    false
}

fn complete_member(cx: &ExecCx, v: &V, ty: &Ty, nodes: &[&Field], defaults: &BTreeMap<String, bool>, depth: usize) -> bool {
    match ty {
        Ty::NonNull(inner) => *v != V::Null && complete_member_nn(cx, v, inner, nodes, defaults, depth),
        other => *v == V::Null || complete_member_nn(cx, v, other, nodes, defaults, depth),
    }
}

fn complete_member_nn(cx: &ExecCx, v: &V, ty: &Ty, nodes: &[&Field], defaults: &BTreeMap<String, bool>, depth: usize) -> bool {
    match ty {
        Ty::NonNull(inner) => complete_member_nn(cx, v, inner, nodes, defaults, depth),
        Ty::List(inner, _) => match v {
            V::List(items) => items.iter().all(|i| complete_member(cx, i, inner, nodes, defaults, depth + 1)),
            _ => false,
        },
        Ty::Named(n) => match cx.ix.kind(&n.s) {
            Some(TKind::Scalar) => {
                let text = cx.scalars.text(&n.s, Target::OperationOutput).unwrap_or("unknown");
                *v != V::Null && scalar_admits(text, v)
            }
            Some(TKind::Enum) => matches!(v, V::Str(s) if cx.ix.enum_values(&n.s).contains(s)),
            Some(TKind::Object | TKind::Interface | TKind::Union) => {
                let merged = SelSet { p: P::none(), items: nodes.iter().filter_map(|f| f.sels.as_ref()).flat_map(|s| s.items.clone()).collect() };
                ref_local_member(cx, v, &n.s, &merged, defaults, depth + 1)
            }
            _ => false,
        },
    }
}

// ------------------------------------------------------------------------------------ inhabitants of an emitted type (C02)

/// type-directed inhabitants of a normal form, bounded
pub fn inhabitants(ev: &ts::Eval, t: &ts::NF, literals: &[String], depth: usize, cap: usize) -> Vec<V> {
    use ts::NF;
    if depth > 8 {
        return vec![];
    }
    let mut out = match t {
        NF::Never | NF::Undefined | NF::Func => vec![],
        NF::Unknown => vec![V::Null, V::OtherStr, V::Num, V::Obj(BTreeMap::new())],
        NF::Null => vec![V::Null],
        NF::Lit(s) => vec![V::Str(s.clone())],
        NF::Atom(a) => match a.as_str() {
            "string" => {
                let mut v = vec![V::OtherStr];
                if let Some(l) = literals.first() {
                    v.push(V::Str(l.clone()));
                }
                v
            }
            "number" | "bigint" => vec![V::Num],
            "boolean" => vec![V::Bool],
            other => vec![V::Opaque(other.to_string())],
        },
        NF::Array(inner, _) => {
            let mut v = vec![V::List(vec![])];
            for x in inhabitants(ev, inner, literals, depth + 1, 3) {
                v.push(V::List(vec![x]));
            }
            v
        }
        NF::Union(items) => items.iter().flat_map(|i| inhabitants(ev, i, literals, depth, cap)).collect(),
        NF::Named(..) => inhabitants(ev, &ev.deref(t), literals, depth, cap),
        NF::Obj(props) => {
            // per property: candidate values (absent = None)
            let mut per: Vec<(String, Vec<Option<V>>)> = vec![];
            for (k, p) in props {
                let mut c: Vec<Option<V>> = inhabitants(ev, &p.ty, literals, depth + 1, 3).into_iter().map(Some).collect();
                let undefined_ok = p.optional || admits_undefined(&p.ty);
                if undefined_ok {
                    c.push(None);
                }
                if c.is_empty() {
                    return vec![]; // a required property without inhabitants: the object type is empty
                }
                c.truncate(4);
                per.push((k.clone(), c));
            }
            // first choice everywhere, then vary one property at a time (linear, not exponential)
            let mut res = vec![];
            let base: Vec<Option<V>> = per.iter().map(|(_, c)| c[0].clone()).collect();
            let build = |choice: &Vec<Option<V>>| -> V {
                let mut m = BTreeMap::new();
                for ((k, _), v) in per.iter().zip(choice.iter()) {
                    if let Some(v) = v {
                        m.insert(k.clone(), v.clone());
                    }
                }
                V::Obj(m)
            };
            res.push(build(&base));
            for (i, (_, c)) in per.iter().enumerate() {
                for alt in c.iter().skip(1) {
                    let mut ch = base.clone();
                    ch[i] = alt.clone();
                    res.push(build(&ch));
                }
            }
            res
        }
    };
    out.sort();
    out.dedup();
    out.truncate(cap);
    out
}

fn admits_undefined(t: &ts::NF) -> bool {
    match t {
        ts::NF::Undefined | ts::NF::Unknown => true,
        ts::NF::Union(items) => items.iter().any(admits_undefined),
        _ => false,
    }
}

/// perturbations of a real response: values that should mostly be rejected by a tight type
pub fn perturb(v: &V, rng: &mut Rng) -> Vec<V> {
    let mut out = vec![];
    if let V::Obj(m) = v {
        // drop a key
        for k in m.keys().take(3) {
            let mut c = m.clone();
            c.remove(k);
            out.push(V::Obj(c));
        }
        // change a value
        for (k, val) in m.iter().take(4) {
            let alts: Vec<V> = match val {
                V::Null => vec![V::OtherStr],
                V::Str(_) => vec![V::Str("__NOT_A_LITERAL__".into()), V::Null, V::Num],
                V::OtherStr => vec![V::Num, V::Null],
                V::Num => vec![V::OtherStr, V::Null],
                V::Bool => vec![V::OtherStr, V::Null],
                V::Opaque(_) => vec![V::Num, V::Null],
                V::List(items) => {
                    let mut a = vec![V::Null, V::Obj(BTreeMap::new())];
                    if let Some(first) = items.first() {
                        a.push(first.clone());
                        a.extend(perturb(first, rng).into_iter().take(2).map(|x| V::List(vec![x])));
                    }
                    a.push(V::List(vec![V::Null]));
                    a
                }
                V::Obj(_) => {
                    let mut a = vec![V::Null, V::OtherStr, V::List(vec![val.clone()])];
                    a.extend(perturb(val, rng).into_iter().take(3));
                    a
                }
            };
            for a in alts {
                let mut c = m.clone();
                c.insert(k.clone(), a);
                out.push(V::Obj(c));
            }
        }
        // an extra key
        let mut c = m.clone();
        c.insert("__extraKey".into(), V::Null);
        out.push(V::Obj(c));
    }
    out
}

// ------------------------------------------------------------------------------------ variables (C09)

#[derive(Clone, Debug)]
pub struct Cand {
    pub v: Option<V>,
    /// the server's variable coercion accepts it
    pub coercible: bool,
    /// canonical explicit form: everything given, coercible, lists as lists
    pub explicit: bool,
    /// differs from an explicit value only by omitting nullable variables / fields
    pub omission_only: bool,
}

/// candidate values for an input position of GraphQL type `ty` (never absent)
pub fn input_candidates(ix: &SchemaIx, scalars: &ScalarMap, ty: &Ty, depth: usize) -> Vec<Cand> {
    let mk = |v: V, coercible: bool, explicit: bool| Cand { v: Some(v), coercible, explicit: explicit && coercible, omission_only: false };
    match ty {
        Ty::NonNull(inner) => {
            let mut c = input_candidates_nn(ix, scalars, inner, depth);
            c.push(mk(V::Null, false, false));
            c
        }
        other => {
            let mut c = input_candidates_nn(ix, scalars, other, depth);
            c.push(mk(V::Null, true, true));
            c
        }
    }
}

fn input_candidates_nn(ix: &SchemaIx, scalars: &ScalarMap, ty: &Ty, depth: usize) -> Vec<Cand> {
    let mk = |v: V, coercible: bool, explicit: bool| Cand { v: Some(v), coercible, explicit: explicit && coercible, omission_only: false };
    match ty {
        Ty::NonNull(inner) => input_candidates_nn(ix, scalars, inner, depth),
        Ty::List(inner, _) => {
            let mut out = vec![mk(V::List(vec![]), true, true)];
            let items = input_candidates(ix, scalars, inner, depth + 1);
            for it in items.iter().take(4) {
                let Some(v) = &it.v else { continue };
                out.push(Cand { v: Some(V::List(vec![v.clone()])), coercible: it.coercible, explicit: it.explicit, omission_only: it.omission_only });
                // single value where a list is expected: coercible by the spec, but not the canonical explicit form
                if !matches!(v, V::List(_)) && *v != V::Null && !matches!(**inner, Ty::List(..)) {
                    out.push(Cand { v: Some(v.clone()), coercible: it.coercible, explicit: false, omission_only: false });
                }
            }
            out
        }
        Ty::Named(n) => match ix.kind(&n.s) {
            Some(TKind::Scalar) => {
                let text = scalars.text(&n.s, Target::OperationInput).unwrap_or("unknown");
                [V::OtherStr, V::Num, V::Bool, V::Opaque("Date".into()), V::Obj(BTreeMap::new())]
                    .into_iter()
                    .map(|v| {
                        let ok = scalar_admits(text, &v);
                        mk(v, ok, true)
                    })
                    .collect()
            }
            Some(TKind::Enum) => {
                let mut out: Vec<Cand> = ix.enum_values(&n.s).into_iter().take(2).map(|s| mk(V::Str(s), true, true)).collect();
                out.push(mk(V::OtherStr, false, false));
                out.push(mk(V::Num, false, false));
                out
            }
            Some(TKind::Input) => {
                if depth > 3 {
                    return vec![];
                }
                let def = ix.ty(&n.s).unwrap();
                // per field candidates, including absence
                let mut per: Vec<(String, Vec<Cand>)> = vec![];
                for f in &def.input_fields {
                    let mut c = input_candidates(ix, scalars, &f.ty, depth + 1);
                    c.truncate(5);
                    let required = f.ty.is_non_null() && f.default.is_none();
                    let nullable = !f.ty.is_non_null();
                    // absent: coercible unless required; an omission of a nullable field
                    c.push(Cand { v: None, coercible: !required, explicit: false, omission_only: nullable });
                    per.push((f.name.s.clone(), c));
                }
                // base: first explicit candidate of every field
                let mut out = vec![];
                let base: Vec<Option<Cand>> = per.iter().map(|(_, c)| c.iter().find(|x| x.explicit).cloned()).collect();
                if base.iter().all(|b| b.is_some()) {
                    let base: Vec<Cand> = base.into_iter().map(|b| b.unwrap()).collect();
                    let build = |choice: &Vec<Cand>| -> Cand {
                        let mut m = BTreeMap::new();
                        let mut coercible = true;
                        let mut explicit = true;
                        let mut omission_only = true;
                        let mut any_omission = false;
                        for ((k, _), c) in per.iter().zip(choice.iter()) {
                            coercible &= c.coercible;
                            match &c.v {
                                Some(v) => {
                                    m.insert(k.clone(), v.clone());
                                    explicit &= c.explicit;
                                    omission_only &= c.explicit || c.omission_only;
                                    any_omission |= c.omission_only && !c.explicit;
                                }
                                None => {
                                    explicit = false;
                                    omission_only &= c.omission_only;
                                    any_omission = true;
                                }
                            }
                        }
                        Cand { v: Some(V::Obj(m)), coercible, explicit, omission_only: omission_only && any_omission && coercible }
                    };
                    out.push(build(&base));
                    for (i, (_, c)) in per.iter().enumerate() {
                        for alt in c.iter() {
                            let mut ch = base.clone();
                            ch[i] = alt.clone();
                            out.push(build(&ch));
                        }
                    }
                    // an unknown key is never coercible
                    if let Some(V::Obj(m)) = &out[0].v {
                        let mut m2 = m.clone();
                        m2.insert("__unknownField".into(), V::Num);
                        out.push(mk(V::Obj(m2), false, false));
                    }
                }
                out.push(mk(V::OtherStr, false, false));
                out.truncate(40);
                out
            }
            _ => vec![],
        },
    }
}
