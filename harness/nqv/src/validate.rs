//! Reference validators written from the GraphQL specification, restricted to (a superset of)
//! the rules named in C03 (operations) and C05 (type system). They label each violation with
//! the rule it breaks.

use std::collections::{BTreeMap, BTreeSet};

use crate::model::*;
use crate::schema_ix::{BUILTIN_SCALARS, SchemaIx};

#[derive(Clone, Debug, PartialEq, Eq)]
pub struct Issue {
    pub rule: &'static str,
    pub detail: String,
}

fn issue(rule: &'static str, detail: String) -> Issue {
    Issue { rule, detail }
}

// ====================================================================== values

/// does constant-or-variable value `v` fit input type `ty`? pushes issues under `rule_prefix` rules
pub struct ValueCtx<'a> {
    pub ix: &'a SchemaIx,
    /// variable definitions in scope (None = constant context: variables are illegal)
    pub vars: Option<&'a [VarDef]>,
}

pub fn check_value(cx: &ValueCtx, v: &Val, ty: &Ty, has_default_at_location: bool, out: &mut Vec<Issue>) {
    match v {
        Val::Var(name) => {
            let Some(vars) = cx.vars else {
                out.push(issue("variable-in-const", format!("${} in a constant context", name.s)));
                return;
            };
            let Some(def) = vars.iter().find(|d| d.name.s == name.s) else {
                out.push(issue("R11-variable-undefined", format!("${} is not defined", name.s)));
                return;
            };
            if !variable_usage_allowed(&def.ty, def.default.as_ref(), ty, has_default_at_location) {
                out.push(issue("R12-variable-type-incompatible", format!("${}: {} used where {} is expected", name.s, def.ty.show(), ty.show())));
            }
        }
        Val::Null(_) => {
            if ty.is_non_null() {
                out.push(issue("R8-value-type", format!("null for non-null type {}", ty.show())));
            }
        }
        _ => {
            let t = ty.nullable();
            match t {
                Ty::List(inner, _) => match v {
                    Val::List(items, _) => {
                        for it in items {
                            check_value(cx, it, inner, false, out);
                        }
                    }
                    // input coercion: a single value is a list of one
                    single => check_value(cx, single, inner, false, out),
                },
                Ty::Named(n) => check_named(cx, v, &n.s, out),
                Ty::NonNull(_) => unreachable!(),
            }
        }
    }
}

fn check_named(cx: &ValueCtx, v: &Val, name: &str, out: &mut Vec<Issue>) {
    let mismatch = |out: &mut Vec<Issue>| out.push(issue("R8-value-type", format!("{} literal for type {}", v.kind(), name)));
    match cx.ix.kind(name) {
        None => {} // unknown type: reported elsewhere
        Some(TKind::Scalar) => match name {
            "Int" => {
                if !matches!(v, Val::Int(..)) {
                    mismatch(out)
                }
            }
            "Float" => {
                if !matches!(v, Val::Int(..) | Val::Float(..)) {
                    mismatch(out)
                }
            }
            "String" => {
                if !matches!(v, Val::Str(_)) {
                    mismatch(out)
                }
            }
            "Boolean" => {
                if !matches!(v, Val::Bool(..)) {
                    mismatch(out)
                }
            }
            "ID" => {
                if !matches!(v, Val::Str(_) | Val::Int(..)) {
                    mismatch(out)
                }
            }
            _ => {
                // custom scalar: any literal; variables inside are still checked for existence
                if let Some(vars) = cx.vars {
                    let mut used = vec![];
                    v.vars(&mut used);
                    for u in used {
                        if !vars.iter().any(|d| d.name.s == u) {
                            out.push(issue("R11-variable-undefined", format!("${u} is not defined")));
                        }
                    }
                }
            }
        },
        Some(TKind::Enum) => match v {
            Val::Enum(e, _) => {
                if !cx.ix.enum_values(name).iter().any(|x| x == e) {
                    out.push(issue("R8-enum-member", format!("{e} is not a member of {name}")));
                }
            }
            _ => mismatch(out),
        },
        Some(TKind::Input) => match v {
            Val::Obj(fields, _) => {
                let def = cx.ix.ty(name).unwrap();
                let mut seen = BTreeSet::new();
                for (k, fv) in fields {
                    if !seen.insert(k.s.clone()) {
                        out.push(issue("input-field-duplicated", format!("field {} given twice", k.s)));
                    }
                    match def.input_fields.iter().find(|f| f.name.s == k.s) {
                        None => out.push(issue("R8-input-unknown-field", format!("{} is not a field of {name}", k.s))),
                        Some(fd) => check_value(cx, fv, &fd.ty, fd.default.is_some(), out),
                    }
                }
                for fd in &def.input_fields {
                    if fd.ty.is_non_null() && fd.default.is_none() && !fields.iter().any(|(k, _)| k.s == fd.name.s) {
                        out.push(issue("R8-input-missing-field", format!("required field {} of {name} is missing", fd.name.s)));
                    }
                }
            }
            _ => mismatch(out),
        },
        Some(_) => out.push(issue("R8-value-type", format!("{name} is not an input type"))),
    }
}

/// spec IsVariableUsageAllowed
fn variable_usage_allowed(var_ty: &Ty, var_default: Option<&Val>, loc_ty: &Ty, loc_has_default: bool) -> bool {
    if loc_ty.is_non_null() && !var_ty.is_non_null() {
        let has_non_null_var_default = var_default.is_some_and(|d| !matches!(d, Val::Null(_)));
        if !has_non_null_var_default && !loc_has_default {
            return false;
        }
        return types_compatible(var_ty, loc_ty.nullable());
    }
    types_compatible(var_ty, loc_ty)
}

fn types_compatible(var: &Ty, loc: &Ty) -> bool {
    match (var, loc) {
        (Ty::NonNull(v), Ty::NonNull(l)) => types_compatible(v, l),
        (_, Ty::NonNull(_)) => false,
        (Ty::NonNull(v), l) => types_compatible(v, l),
        (Ty::List(v, _), Ty::List(l, _)) => types_compatible(v, l),
        (Ty::List(..), _) | (_, Ty::List(..)) => false,
        (Ty::Named(a), Ty::Named(b)) => a.s == b.s,
    }
}

fn check_args(cx: &ValueCtx, what: &str, given: &[(Name, Val)], defs: &[InputValueDef], out: &mut Vec<Issue>) {
    let mut seen = BTreeSet::new();
    for (k, v) in given {
        if !seen.insert(k.s.clone()) {
            out.push(issue("argument-duplicated", format!("{what}: argument {} given twice", k.s)));
        }
        match defs.iter().find(|d| d.name.s == k.s) {
            None => out.push(issue("R6-argument-unknown", format!("{what}: unknown argument {}", k.s))),
            Some(d) => check_value(cx, v, &d.ty, d.default.is_some(), out),
        }
    }
    for d in defs {
        if d.ty.is_non_null() && d.default.is_none() && !given.iter().any(|(k, _)| k.s == d.name.s) {
            out.push(issue("R7-argument-required", format!("{what}: required argument {} missing", d.name.s)));
        }
    }
}

fn check_directives(cx: &ValueCtx, dirs: &[Dir], location: &str, out: &mut Vec<Issue>) {
    let mut seen: BTreeSet<String> = BTreeSet::new();
    for d in dirs {
        match cx.ix.directives.get(&d.name.s) {
            None => out.push(issue("R18-directive-unknown", format!("@{} is not defined", d.name.s))),
            Some(def) => {
                if !def.locations.iter().any(|l| l.s == location) {
                    out.push(issue("R19-directive-location", format!("@{} not allowed on {location}", d.name.s)));
                }
                if !seen.insert(d.name.s.clone()) && !def.repeatable {
                    out.push(issue("R20-directive-repeated", format!("@{} repeated", d.name.s)));
                }
                check_args(cx, &format!("@{}", d.name.s), &d.args, &def.args, out);
            }
        }
    }
}

// ====================================================================== operations

struct OpCx<'a> {
    ix: &'a SchemaIx,
    doc: &'a ExecDoc,
    out: Vec<Issue>,
}

/// Validate an executable document (imports already resolved: `doc` holds operations and fragments only).
pub fn validate_operations(ix: &SchemaIx, doc: &ExecDoc) -> Vec<Issue> {
    let mut cx = OpCx { ix, doc, out: vec![] };
    // R1 / R2
    let ops: Vec<&OpDef> = doc.ops().collect();
    let mut names = BTreeSet::new();
    for o in &ops {
        match &o.name {
            None => {
                if ops.len() > 1 {
                    cx.out.push(issue("R2-lone-anonymous", "anonymous operation is not alone".into()));
                }
            }
            Some(n) => {
                if !names.insert(n.s.clone()) {
                    cx.out.push(issue("R1-operation-name-unique", format!("operation {} defined twice", n.s)));
                }
            }
        }
    }
    // R13
    let mut fnames = BTreeSet::new();
    for f in doc.frags() {
        if !fnames.insert(f.name.s.clone()) {
            cx.out.push(issue("R13-fragment-name-unique", format!("fragment {} defined twice", f.name.s)));
        }
    }
    // fragments: target exists and is composite (R14), cycles (R16), body (validated against its own type condition, variables per operation below)
    for f in doc.frags() {
        match ix.kind(&f.cond.s) {
            None => cx.out.push(issue("R14-fragment-target", format!("fragment {} on unknown type {}", f.name.s, f.cond.s))),
            Some(k) if !matches!(k, TKind::Object | TKind::Interface | TKind::Union) => cx.out.push(issue("R14-fragment-target", format!("fragment {} on non-composite {}", f.name.s, f.cond.s))),
            _ => {}
        }
        let mut stack = vec![f.name.s.clone()];
        if fragment_cycle(doc, &f.sels, &mut stack) {
            cx.out.push(issue("R16-fragment-cycle", format!("fragment {} spreads itself", f.name.s)));
        }
    }
    // fragment bodies (fields, args, directives) are validated once against their own type condition without variable
    // scoping; variable rules are applied per operation below
    for f in doc.frags() {
        if ix.is_composite(&f.cond.s) {
            let all_vars: Vec<VarDef> = vec![];
            let vcx = ValueCtx { ix, vars: None };
            let mut tmp = vec![];
            check_directives(&vcx, &f.dirs, "FRAGMENT_DEFINITION", &mut tmp);
            // variables inside fragment-definition directives are legal (scoped per operation): drop that pseudo issue
            tmp.retain(|i| i.rule != "variable-in-const");
            cx.out.extend(tmp);
            let _ = all_vars;
            validate_selset(&mut cx, &f.sels, &f.cond.s, VarScope::Skip, &mut vec![f.name.s.clone()], false);
        }
    }
    for o in &ops {
        let Some(root) = ix.root(o.kind) else {
            cx.out.push(issue("root-type-missing", format!("no root type for {}", o.kind.as_str())));
            continue;
        };
        // variables: R9 unique, R10 input types, defaults typed
        let mut vnames = BTreeSet::new();
        for v in &o.vars {
            if !vnames.insert(v.name.s.clone()) {
                cx.out.push(issue("R9-variable-unique", format!("${} defined twice", v.name.s)));
            }
            match ix.kind(v.ty.base()) {
                None => cx.out.push(issue("R10-variable-input-type", format!("${}: unknown type {}", v.name.s, v.ty.base()))),
                Some(_) if !ix.is_input_type(v.ty.base()) => cx.out.push(issue("R10-variable-input-type", format!("${}: {} is not an input type", v.name.s, v.ty.base()))),
                _ => {
                    if let Some(d) = &v.default {
                        let vcx = ValueCtx { ix, vars: None };
                        let mut tmp = vec![];
                        check_value(&vcx, d, &v.ty, false, &mut tmp);
                        for mut t in tmp {
                            if t.rule.starts_with("R8") {
                                t.rule = "R8-variable-default-type";
                            }
                            cx.out.push(t);
                        }
                    }
                }
            }
            let vcx = ValueCtx { ix, vars: None };
            let mut tmp = vec![];
            check_directives(&vcx, &v.dirs, "VARIABLE_DEFINITION", &mut tmp);
            cx.out.extend(tmp);
        }
        let loc = match o.kind {
            OpKind::Query => "QUERY",
            OpKind::Mutation => "MUTATION",
            OpKind::Subscription => "SUBSCRIPTION",
        };
        {
            let vcx = ValueCtx { ix, vars: Some(&o.vars) };
            let mut tmp = vec![];
            check_directives(&vcx, &o.dirs, loc, &mut tmp);
            cx.out.extend(tmp);
        }
        // R3
        if o.kind == OpKind::Subscription {
            let mut keys = BTreeSet::new();
            collect_root_keys(doc, &o.sels, &mut keys, &mut vec![]);
            if keys.len() != 1 {
                cx.out.push(issue("R3-subscription-single-root", format!("subscription has {} root fields", keys.len())));
            }
        }
        validate_selset(&mut cx, &o.sels, root, VarScope::Vars(&o.vars), &mut vec![], true);
    }
    cx.out
}

#[derive(Clone, Copy)]
enum VarScope<'a> {
    /// validating a fragment body on its own: variable rules are skipped
    Skip,
    Vars(&'a [VarDef]),
}

fn fragment_cycle(doc: &ExecDoc, ss: &SelSet, stack: &mut Vec<String>) -> bool {
    for s in &ss.items {
        match s {
            Sel::Field(f) => {
                if let Some(ss) = &f.sels {
                    if fragment_cycle(doc, ss, stack) {
                        return true;
                    }
                }
            }
            Sel::Inline { sels, .. } => {
                if fragment_cycle(doc, sels, stack) {
                    return true;
                }
            }
            Sel::Spread { name, .. } => {
                if stack[0] == name.s {
                    return true;
                }
                if stack.contains(&name.s) {
                    continue; // a cycle not through the fragment under test; reported for its own members
                }
                if let Some(f) = doc.frag(&name.s) {
                    stack.push(name.s.clone());
                    let r = fragment_cycle(doc, &f.sels, stack);
                    stack.pop();
                    if r {
                        return true;
                    }
                }
            }
        }
    }
    false
}

fn collect_root_keys(doc: &ExecDoc, ss: &SelSet, keys: &mut BTreeSet<String>, seen: &mut Vec<String>) {
    for s in &ss.items {
        match s {
            Sel::Field(f) => {
                keys.insert(f.key().to_string());
            }
            Sel::Inline { sels, .. } => collect_root_keys(doc, sels, keys, seen),
            Sel::Spread { name, .. } => {
                if !seen.contains(&name.s) {
                    seen.push(name.s.clone());
                    if let Some(f) = doc.frag(&name.s) {
                        collect_root_keys(doc, &f.sels, keys, seen);
                    }
                }
            }
        }
    }
}

/// `through_spreads`: descend into named fragments (operation pass) — then only *variable* rules are re-checked inside
/// fragments (their other rules are reported by the per-fragment pass), plus spread applicability at the spread site.
fn validate_selset(cx: &mut OpCx, ss: &SelSet, parent: &str, scope: VarScope, frag_stack: &mut Vec<String>, through_spreads: bool) {
    let ix = cx.ix;
    let in_fragment_body_from_op = through_spreads && !frag_stack.is_empty();
    for s in &ss.items {
        match s {
            Sel::Field(f) => {
                let Some(fd) = ix.field(parent, &f.name.s) else {
                    if !in_fragment_body_from_op {
                        cx.out.push(issue("R4-field-exists", format!("field {} does not exist on {parent}", f.name.s)));
                    }
                    continue;
                };
                let mut tmp = vec![];
                {
                    let vars = match scope {
                        VarScope::Skip => None,
                        VarScope::Vars(v) => Some(v),
                    };
                    let vcx = ValueCtx { ix, vars };
                    check_directives(&vcx, &f.dirs, "FIELD", &mut tmp);
                    check_args(&vcx, &format!("field {}", f.name.s), &f.args, &fd.args, &mut tmp);
                }
                push_scoped(cx, tmp, scope, in_fragment_body_from_op);
                let base = fd.ty.base().to_string();
                match &f.sels {
                    None => {
                        if ix.is_composite(&base) && !in_fragment_body_from_op {
                            cx.out.push(issue("R5-composite-needs-selection", format!("field {} of composite type {base} has no selection", f.name.s)));
                        }
                    }
                    Some(sub) => {
                        if ix.is_leaf(&base) {
                            if !in_fragment_body_from_op {
                                cx.out.push(issue("R5-leaf-no-selection", format!("leaf field {} has a selection", f.name.s)));
                            }
                        } else if ix.is_composite(&base) {
                            validate_selset(cx, sub, &base, scope, frag_stack, through_spreads);
                        }
                    }
                }
            }
            Sel::Inline { cond, dirs, sels, .. } => {
                let mut tmp = vec![];
                {
                    let vars = match scope {
                        VarScope::Skip => None,
                        VarScope::Vars(v) => Some(v),
                    };
                    check_directives(&ValueCtx { ix, vars }, dirs, "INLINE_FRAGMENT", &mut tmp);
                }
                push_scoped(cx, tmp, scope, in_fragment_body_from_op);
                let target = match cond {
                    None => parent.to_string(),
                    Some(c) => {
                        match ix.kind(&c.s) {
                            None => {
                                if !in_fragment_body_from_op {
                                    cx.out.push(issue("R14-fragment-target", format!("inline fragment on unknown type {}", c.s)));
                                }
                                continue;
                            }
                            Some(k) if !matches!(k, TKind::Object | TKind::Interface | TKind::Union) => {
                                if !in_fragment_body_from_op {
                                    cx.out.push(issue("R14-fragment-target", format!("inline fragment on non-composite {}", c.s)));
                                }
                                continue;
                            }
                            _ => {}
                        }
                        if !ix.spread_possible(parent, &c.s) && !in_fragment_body_from_op {
                            cx.out.push(issue("R17-spread-possible", format!("inline fragment on {} can never apply inside {parent}", c.s)));
                        }
                        c.s.clone()
                    }
                };
                validate_selset(cx, sels, &target, scope, frag_stack, through_spreads);
            }
            Sel::Spread { name, dirs, .. } => {
                let mut tmp = vec![];
                {
                    let vars = match scope {
                        VarScope::Skip => None,
                        VarScope::Vars(v) => Some(v),
                    };
                    check_directives(&ValueCtx { ix, vars }, dirs, "FRAGMENT_SPREAD", &mut tmp);
                }
                push_scoped(cx, tmp, scope, in_fragment_body_from_op);
                let Some(fr) = cx.doc.frag(&name.s) else {
                    if !in_fragment_body_from_op {
                        cx.out.push(issue("R15-fragment-defined", format!("fragment {} is not defined", name.s)));
                    }
                    continue;
                };
                if ix.is_composite(&fr.cond.s) && !ix.spread_possible(parent, &fr.cond.s) && !in_fragment_body_from_op {
                    cx.out.push(issue("R17-spread-possible", format!("fragment {} on {} can never apply inside {parent}", name.s, fr.cond.s)));
                }
                if through_spreads && !frag_stack.contains(&name.s) && ix.is_composite(&fr.cond.s) {
                    frag_stack.push(name.s.clone());
                    let cond = fr.cond.s.clone();
                    let sels = fr.sels.clone();
                    let fdirs = fr.dirs.clone();
                    // variables used in fragment-definition directives are scoped by the operation too
                    let mut tmp = vec![];
                    if let VarScope::Vars(v) = scope {
                        check_directives(&ValueCtx { ix, vars: Some(v) }, &fdirs, "FRAGMENT_DEFINITION", &mut tmp);
                    }
                    let only_vars: Vec<Issue> = tmp.into_iter().filter(|i| i.rule.starts_with("R11") || i.rule.starts_with("R12")).collect();
                    cx.out.extend(only_vars);
                    validate_selset(cx, &sels, &cond, scope, frag_stack, true);
                    frag_stack.pop();
                }
            }
        }
    }
}

/// keep issues according to the pass: the fragment-body pass (scope Skip) drops variable rules; the operation pass
/// inside a fragment body keeps only variable rules
fn push_scoped(cx: &mut OpCx, tmp: Vec<Issue>, scope: VarScope, in_fragment_body_from_op: bool) {
    for i in tmp {
        let is_var_rule = i.rule.starts_with("R11") || i.rule.starts_with("R12") || i.rule == "variable-in-const";
        match scope {
            VarScope::Skip => {
                if !is_var_rule {
                    cx.out.push(i);
                }
            }
            VarScope::Vars(_) => {
                if !in_fragment_body_from_op || is_var_rule {
                    cx.out.push(i);
                }
            }
        }
    }
}

// ====================================================================== type system

pub fn validate_type_system(doc: &TsDoc) -> Vec<Issue> {
    // duplicates / orphans at the definition level (what the extension resolver is about)
    let mut out = vec![];
    let mut seen: BTreeMap<(TKind, String), usize> = BTreeMap::new();
    let mut any_kind: BTreeMap<String, BTreeSet<TKind>> = BTreeMap::new();
    let mut schema_defs = 0;
    for d in &doc.defs {
        match d {
            TsDef::Type(t) if !t.ext => {
                *seen.entry((t.kind, t.name.s.clone())).or_insert(0) += 1;
                any_kind.entry(t.name.s.clone()).or_default().insert(t.kind);
            }
            TsDef::Schema(s) if !s.ext => schema_defs += 1,
            _ => {}
        }
    }
    for ((_, n), c) in &seen {
        if *c > 1 {
            out.push(issue("TS2-duplicate-type", format!("type {n} defined {c} times")));
        }
    }
    for (n, kinds) in &any_kind {
        if kinds.len() > 1 {
            out.push(issue("TS2-duplicate-type-cross-kind", format!("type {n} defined with several kinds")));
        }
    }
    if schema_defs > 1 {
        out.push(issue("TS2-duplicate-schema", "schema defined twice".into()));
    }
    for d in &doc.defs {
        match d {
            // the built-in scalars are declared by nitrogql itself ("must be omitted" in SDL, spec 3.5): a declaration in
            // the schema text is a second one (extensions of them are fine)
            TsDef::Type(t) if !t.ext && t.kind == TKind::Scalar && BUILTIN_SCALARS.contains(&t.name.s.as_str()) => out.push(issue("TS2-duplicate-type", format!("built-in scalar {} declared again", t.name.s))),
            TsDef::Type(t) if t.ext && !seen.contains_key(&(t.kind, t.name.s.clone())) && !(t.kind == TKind::Scalar && crate::schema_ix::BUILTIN_SCALARS.contains(&t.name.s.as_str())) => out.push(issue("TS-orphan-extension", format!("extension of undefined {} {}", t.kind.keyword(), t.name.s))),
            TsDef::Schema(s) if s.ext && schema_defs == 0 => out.push(issue("TS-orphan-extension", "extension of undefined schema".into())),
            _ => {}
        }
    }
    if !out.is_empty() {
        return out;
    }
    let merged = crate::schema_ix::merge_extensions(doc);
    let ix = SchemaIx::new(&merged);
    let mut dnames = BTreeSet::new();
    for d in merged.directives() {
        if !dnames.insert(d.name.s.clone()) {
            out.push(issue("TS2-duplicate-directive", format!("directive @{} defined twice", d.name.s)));
        }
    }
    let vcx = ValueCtx { ix: &ix, vars: None };
    let reserved = |n: &str| n.starts_with("__");
    let ts_dirs = |dirs: &[Dir], loc: &str, out: &mut Vec<Issue>| {
        let mut tmp = vec![];
        check_directives(&vcx, dirs, loc, &mut tmp);
        for mut i in tmp {
            i.rule = match i.rule {
                "R18-directive-unknown" => "TS9-directive-unknown",
                "R19-directive-location" => "TS9-directive-location",
                "R20-directive-repeated" => "TS9-directive-repeated",
                "R6-argument-unknown" | "R7-argument-required" | "R8-value-type" | "R8-enum-member" | "R8-input-unknown-field" | "R8-input-missing-field" | "variable-in-const" | "argument-duplicated" | "input-field-duplicated" => "TS9-directive-args",
                r => r,
            };
            out.push(i);
        }
    };
    let check_ivds = |what: &str, ivds: &[InputValueDef], loc: &str, out: &mut Vec<Issue>| {
        let mut names = BTreeSet::new();
        for a in ivds {
            if reserved(&a.name.s) {
                out.push(issue("TS1-reserved-name", format!("{what}: {} starts with __", a.name.s)));
            }
            if !names.insert(a.name.s.clone()) {
                out.push(issue(if loc == "ARGUMENT_DEFINITION" { "TS2-duplicate-argument" } else { "TS2-duplicate-input-field" }, format!("{what}: {} defined twice", a.name.s)));
            }
            match ix.kind(a.ty.base()) {
                None => out.push(issue("TS3-unknown-type", format!("{what}.{}: unknown type {}", a.name.s, a.ty.base()))),
                Some(_) if !ix.is_input_type(a.ty.base()) => out.push(issue("TS4-output-type-in-input-position", format!("{what}.{}: {} is not an input type", a.name.s, a.ty.base()))),
                Some(_) => {
                    if let Some(d) = &a.default {
                        let mut tmp = vec![];
                        check_value(&vcx, d, &a.ty, false, &mut tmp);
                        for i in tmp {
                            out.push(issue("TS-default-value-type", i.detail));
                        }
                    }
                }
            }
            ts_dirs(&a.dirs, loc, out);
        }
    };
    for d in &merged.defs {
        match d {
            TsDef::Schema(s) => {
                ts_dirs(&s.dirs, "SCHEMA", &mut out);
                let mut kinds = BTreeSet::new();
                for (k, n) in &s.roots {
                    if !kinds.insert(*k) {
                        out.push(issue("TS-root-duplicated", format!("root {} given twice", k.as_str())));
                    }
                    match ix.kind(&n.s) {
                        None => out.push(issue("TS3-unknown-type", format!("root type {} unknown", n.s))),
                        Some(TKind::Object) => {}
                        Some(_) => out.push(issue("TS-root-not-object", format!("root type {} is not an object type", n.s))),
                    }
                }
            }
            TsDef::Directive(dd) => {
                if reserved(&dd.name.s) {
                    out.push(issue("TS1-reserved-name", format!("directive @{}", dd.name.s)));
                }
                check_ivds(&format!("@{}", dd.name.s), &dd.args, "ARGUMENT_DEFINITION", &mut out);
                if directive_recursive(&ix, &dd.name.s) {
                    out.push(issue("TS10-directive-recursive", format!("@{} references itself", dd.name.s)));
                }
            }
            TsDef::Type(t) => {
                if reserved(&t.name.s) {
                    out.push(issue("TS1-reserved-name", format!("type {}", t.name.s)));
                }
                if BUILTIN_SCALARS.contains(&t.name.s.as_str()) && t.kind != TKind::Scalar {
                    out.push(issue("TS2-duplicate-type-cross-kind", format!("{} redefines a built-in scalar", t.name.s)));
                }
                match t.kind {
                    TKind::Scalar => ts_dirs(&t.dirs, "SCALAR", &mut out),
                    TKind::Enum => {
                        ts_dirs(&t.dirs, "ENUM", &mut out);
                        let mut names = BTreeSet::new();
                        for v in &t.values {
                            if !names.insert(v.name.s.clone()) {
                                out.push(issue("TS2-duplicate-enum-value", format!("{}.{} defined twice", t.name.s, v.name.s)));
                            }
                            ts_dirs(&v.dirs, "ENUM_VALUE", &mut out);
                        }
                    }
                    TKind::Input => {
                        ts_dirs(&t.dirs, "INPUT_OBJECT", &mut out);
                        check_ivds(&t.name.s, &t.input_fields, "INPUT_FIELD_DEFINITION", &mut out);
                    }
                    TKind::Union => {
                        ts_dirs(&t.dirs, "UNION", &mut out);
                        let mut names = BTreeSet::new();
                        for m in &t.members {
                            if !names.insert(m.s.clone()) {
                                out.push(issue("TS2-duplicate-union-member", format!("{} lists {} twice", t.name.s, m.s)));
                            }
                            match ix.kind(&m.s) {
                                None => out.push(issue("TS3-unknown-type", format!("union member {} unknown", m.s))),
                                Some(TKind::Object) => {}
                                Some(_) => out.push(issue("TS8-union-member-not-object", format!("union member {} is not an object type", m.s))),
                            }
                        }
                    }
                    TKind::Object | TKind::Interface => {
                        ts_dirs(&t.dirs, if t.kind == TKind::Object { "OBJECT" } else { "INTERFACE" }, &mut out);
                        let mut names = BTreeSet::new();
                        for f in &t.fields {
                            if reserved(&f.name.s) {
                                out.push(issue("TS1-reserved-name", format!("field {}.{}", t.name.s, f.name.s)));
                            }
                            if !names.insert(f.name.s.clone()) {
                                out.push(issue("TS2-duplicate-field", format!("{}.{} defined twice", t.name.s, f.name.s)));
                            }
                            match ix.kind(f.ty.base()) {
                                None => out.push(issue("TS3-unknown-type", format!("{}.{}: unknown type {}", t.name.s, f.name.s, f.ty.base()))),
                                Some(_) if !ix.is_output_type(f.ty.base()) => out.push(issue("TS4-input-type-in-output-position", format!("{}.{}: {} is not an output type", t.name.s, f.name.s, f.ty.base()))),
                                _ => {}
                            }
                            check_ivds(&format!("{}.{}", t.name.s, f.name.s), &f.args, "ARGUMENT_DEFINITION", &mut out);
                            ts_dirs(&f.dirs, "FIELD_DEFINITION", &mut out);
                        }
                        let mut inames = BTreeSet::new();
                        for i in &t.implements {
                            if !inames.insert(i.s.clone()) {
                                out.push(issue("TS-implements-duplicated", format!("{} implements {} twice", t.name.s, i.s)));
                            }
                            if i.s == t.name.s {
                                out.push(issue("TS5-implements-self", format!("{} implements itself", t.name.s)));
                                continue;
                            }
                            match ix.kind(&i.s) {
                                None => out.push(issue("TS3-unknown-type", format!("{} implements unknown {}", t.name.s, i.s))),
                                Some(TKind::Interface) => {
                                    let idef = ix.ty(&i.s).unwrap();
                                    for ti in &idef.implements {
                                        if ti.s != t.name.s && !t.implements.iter().any(|x| x.s == ti.s) {
                                            out.push(issue("TS6-transitive-interface-missing", format!("{} implements {} but not its interface {}", t.name.s, i.s, ti.s)));
                                        }
                                    }
                                    for ifield in &idef.fields {
                                        match t.fields.iter().find(|f| f.name.s == ifield.name.s) {
                                            None => out.push(issue("TS7-interface-field-missing", format!("{} lacks field {} of {}", t.name.s, ifield.name.s, i.s))),
                                            Some(f) => {
                                                if ix.kind(f.ty.base()).is_some() && ix.kind(ifield.ty.base()).is_some() && !ix.is_subtype(&f.ty, &ifield.ty) {
                                                    out.push(issue("TS7-interface-field-type", format!("{}.{}: {} is not a subtype of {} ({})", t.name.s, f.name.s, f.ty.show(), ifield.ty.show(), i.s)));
                                                }
                                                for ia in &ifield.args {
                                                    match f.args.iter().find(|a| a.name.s == ia.name.s) {
                                                        None => out.push(issue("TS7-interface-argument", format!("{}.{} lacks argument {} of {}", t.name.s, f.name.s, ia.name.s, i.s))),
                                                        Some(a) => {
                                                            if !a.ty.same(&ia.ty) {
                                                                out.push(issue("TS7-interface-argument", format!("{}.{}({}): {} differs from {}", t.name.s, f.name.s, a.name.s, a.ty.show(), ia.ty.show())));
                                                            }
                                                        }
                                                    }
                                                }
                                                for a in &f.args {
                                                    if !ifield.args.iter().any(|ia| ia.name.s == a.name.s) && a.ty.is_non_null() && a.default.is_none() {
                                                        out.push(issue("TS7-interface-argument", format!("{}.{}({}) is an extra required argument", t.name.s, f.name.s, a.name.s)));
                                                    }
                                                }
                                            }
                                        }
                                    }
                                }
                                Some(_) => out.push(issue("TS5-implements-non-interface", format!("{} implements non-interface {}", t.name.s, i.s))),
                            }
                        }
                    }
                }
            }
        }
    }
    out
}

fn dirs_of_ivds(ivds: &[InputValueDef], out: &mut Vec<String>, types: &mut Vec<String>) {
    for a in ivds {
        for d in &a.dirs {
            out.push(d.name.s.clone());
        }
        types.push(a.ty.base().to_string());
    }
}

/// does directive `name` reference itself through its argument definitions (directives applied on them, or on the
/// input types / enums they use, transitively)?
fn directive_recursive(ix: &SchemaIx, name: &str) -> bool {
    let mut seen_dirs: BTreeSet<String> = BTreeSet::new();
    let mut seen_types: BTreeSet<String> = BTreeSet::new();
    let mut work_d = vec![name.to_string()];
    let mut first = true;
    while let Some(d) = work_d.pop() {
        if !first && d == name {
            return true;
        }
        if !first && !seen_dirs.insert(d.clone()) {
            continue;
        }
        first = false;
        let Some(def) = ix.directives.get(&d) else { continue };
        let mut dirs = vec![];
        let mut types = vec![];
        dirs_of_ivds(&def.args, &mut dirs, &mut types);
        while let Some(t) = types.pop() {
            if !seen_types.insert(t.clone()) {
                continue;
            }
            if let Some(td) = ix.ty(&t) {
                for x in &td.dirs {
                    dirs.push(x.name.s.clone());
                }
                for v in &td.values {
                    for x in &v.dirs {
                        dirs.push(x.name.s.clone());
                    }
                }
                dirs_of_ivds(&td.input_fields, &mut dirs, &mut types);
            }
        }
        for x in dirs {
            if x == name {
                return true;
            }
            work_d.push(x);
        }
    }
    false
}

// ====================================================================== field merging (spec 5.3.2)

#[derive(Clone)]
struct FieldAt<'a> {
    parent: String,
    field: &'a Field,
    def_ty: Option<Ty>,
}

fn collect_fields_for_merge<'a>(ix: &SchemaIx, doc: &'a ExecDoc, ss: &'a SelSet, parent: &str, out: &mut Vec<FieldAt<'a>>, seen: &mut Vec<String>) {
    for s in &ss.items {
        match s {
            Sel::Field(f) => out.push(FieldAt { parent: parent.to_string(), field: f, def_ty: ix.field(parent, &f.name.s).map(|d| d.ty) }),
            Sel::Inline { cond, sels, .. } => {
                let p = cond.as_ref().map(|c| c.s.clone()).unwrap_or_else(|| parent.to_string());
                collect_fields_for_merge(ix, doc, sels, &p, out, seen);
            }
            Sel::Spread { name, .. } => {
                if seen.contains(&name.s) {
                    continue;
                }
                seen.push(name.s.clone());
                if let Some(fr) = doc.frag(&name.s) {
                    collect_fields_for_merge(ix, doc, &fr.sels, &fr.cond.s, out, seen);
                }
            }
        }
    }
}

fn same_args(a: &Field, b: &Field) -> bool {
    if a.args.len() != b.args.len() {
        return false;
    }
    a.args.iter().all(|(k, v)| b.args.iter().any(|(k2, v2)| k.s == k2.s && canon(&val_node(v)) == canon(&val_node(v2))))
}

fn same_response_shape(ix: &SchemaIx, doc: &ExecDoc, a: &FieldAt, b: &FieldAt, depth: usize) -> bool {
    let (Some(mut ta), Some(mut tb)) = (a.def_ty.clone(), b.def_ty.clone()) else { return true };
    loop {
        match (&ta, &tb) {
            (Ty::NonNull(x), Ty::NonNull(y)) => {
                let (x, y) = ((**x).clone(), (**y).clone());
                ta = x;
                tb = y;
            }
            (Ty::NonNull(_), _) | (_, Ty::NonNull(_)) => return false,
            (Ty::List(x, _), Ty::List(y, _)) => {
                let (x, y) = ((**x).clone(), (**y).clone());
                ta = x;
                tb = y;
            }
            (Ty::List(..), _) | (_, Ty::List(..)) => return false,
            _ => break,
        }
    }
    let (na, nb) = (ta.base().to_string(), tb.base().to_string());
    if ix.is_leaf(&na) || ix.is_leaf(&nb) {
        return na == nb;
    }
    if depth > 12 {
        return true;
    }
    let mut subs: Vec<FieldAt> = vec![];
    if let Some(ss) = &a.field.sels {
        collect_fields_for_merge(ix, doc, ss, &na, &mut subs, &mut vec![]);
    }
    if let Some(ss) = &b.field.sels {
        collect_fields_for_merge(ix, doc, ss, &nb, &mut subs, &mut vec![]);
    }
    for i in 0..subs.len() {
        for j in (i + 1)..subs.len() {
            if subs[i].field.key() == subs[j].field.key() && !same_response_shape(ix, doc, &subs[i], &subs[j], depth + 1) {
                return false;
            }
        }
    }
    true
}

fn fields_can_merge(ix: &SchemaIx, doc: &ExecDoc, fields: &[FieldAt], depth: usize, out: &mut Vec<Issue>) {
    if depth > 12 {
        return;
    }
    for i in 0..fields.len() {
        for j in (i + 1)..fields.len() {
            let (a, b) = (&fields[i], &fields[j]);
            if a.field.key() != b.field.key() {
                continue;
            }
            if !same_response_shape(ix, doc, a, b, 0) {
                out.push(issue("merge-response-shape", format!("response key {} has fields of different shapes", a.field.key())));
                continue;
            }
            let both_objects_differ = a.parent != b.parent && ix.kind(&a.parent) == Some(TKind::Object) && ix.kind(&b.parent) == Some(TKind::Object);
            if !both_objects_differ {
                if a.field.name.s != b.field.name.s {
                    out.push(issue("merge-different-fields", format!("response key {} selects {} and {}", a.field.key(), a.field.name.s, b.field.name.s)));
                    continue;
                }
                if !same_args(a.field, b.field) {
                    out.push(issue("merge-different-arguments", format!("response key {} selected with different arguments", a.field.key())));
                    continue;
                }
                let mut subs: Vec<FieldAt> = vec![];
                let ta = a.def_ty.as_ref().map(|t| t.base().to_string()).unwrap_or_default();
                let tb = b.def_ty.as_ref().map(|t| t.base().to_string()).unwrap_or_default();
                if let Some(ss) = &a.field.sels {
                    collect_fields_for_merge(ix, doc, ss, &ta, &mut subs, &mut vec![]);
                }
                if let Some(ss) = &b.field.sels {
                    collect_fields_for_merge(ix, doc, ss, &tb, &mut subs, &mut vec![]);
                }
                fields_can_merge(ix, doc, &subs, depth + 1, out);
            }
        }
    }
}

fn merge_selset_rec(ix: &SchemaIx, doc: &ExecDoc, ss: &SelSet, parent: &str, out: &mut Vec<Issue>, depth: usize) {
    if depth > 12 {
        return;
    }
    let mut fields = vec![];
    collect_fields_for_merge(ix, doc, ss, parent, &mut fields, &mut vec![]);
    fields_can_merge(ix, doc, &fields, 0, out);
}

/// rules nitrogql does not implement but which a spec-valid document must satisfy: fields in a set can merge,
/// every fragment is used, every variable is used, argument / input field names unique (the latter are part of check_value)
pub fn validate_unimplemented_rules(ix: &SchemaIx, doc: &ExecDoc) -> Vec<Issue> {
    let mut out = vec![];
    for o in doc.ops() {
        if let Some(root) = ix.root(o.kind) {
            merge_selset_rec(ix, doc, &o.sels, root, &mut out, 0);
        }
        // all variables used
        let mut used = BTreeSet::new();
        vars_used(doc, &o.sels, &mut used, &mut vec![]);
        for d in &o.dirs {
            for (_, v) in &d.args {
                let mut u = vec![];
                v.vars(&mut u);
                used.extend(u);
            }
        }
        for v in &o.vars {
            if !used.contains(&v.name.s) {
                out.push(issue("variable-unused", format!("${} is never used", v.name.s)));
            }
        }
    }
    for f in doc.frags() {
        merge_selset_rec(ix, doc, &f.sels, &f.cond.s, &mut out, 0);
    }
    // all fragments used
    let mut reached = BTreeSet::new();
    for o in doc.ops() {
        frags_reached(doc, &o.sels, &mut reached);
    }
    for f in doc.frags() {
        if !reached.contains(&f.name.s) {
            out.push(issue("fragment-unused", format!("fragment {} is never spread", f.name.s)));
        }
    }
    out
}

fn dir_vars(dirs: &[Dir], used: &mut BTreeSet<String>) {
    for d in dirs {
        for (_, v) in &d.args {
            let mut u = vec![];
            v.vars(&mut u);
            used.extend(u);
        }
    }
}

fn vars_used(doc: &ExecDoc, ss: &SelSet, used: &mut BTreeSet<String>, seen: &mut Vec<String>) {
    for s in &ss.items {
        dir_vars(s.dirs(), used);
        match s {
            Sel::Field(f) => {
                for (_, v) in &f.args {
                    let mut u = vec![];
                    v.vars(&mut u);
                    used.extend(u);
                }
                if let Some(ss) = &f.sels {
                    vars_used(doc, ss, used, seen);
                }
            }
            Sel::Inline { sels, .. } => vars_used(doc, sels, used, seen),
            Sel::Spread { name, .. } => {
                if !seen.contains(&name.s) {
                    seen.push(name.s.clone());
                    if let Some(f) = doc.frag(&name.s) {
                        dir_vars(&f.dirs, used);
                        vars_used(doc, &f.sels, used, seen);
                    }
                }
            }
        }
    }
}

pub fn frags_reached(doc: &ExecDoc, ss: &SelSet, reached: &mut BTreeSet<String>) {
    for s in &ss.items {
        match s {
            Sel::Field(f) => {
                if let Some(ss) = &f.sels {
                    frags_reached(doc, ss, reached);
                }
            }
            Sel::Inline { sels, .. } => frags_reached(doc, sels, reached),
            Sel::Spread { name, .. } => {
                if reached.insert(name.s.clone()) {
                    if let Some(f) = doc.frag(&name.s) {
                        frags_reached(doc, &f.sels, reached);
                    }
                }
            }
        }
    }
}
