//! Labelled single-fault injectors for operation documents (C03, C18).

use crate::model::*;
use crate::rng::Rng;
use crate::schema_ix::SchemaIx;

pub struct OpFault {
    pub doc: ExecDoc,
    /// rule label of the reference validator (prefix match, e.g. "R8")
    pub rule: &'static str,
    /// variant + site class
    pub label: String,
    /// diagnostic kinds that belong to the rule
    pub kinds: &'static [&'static str],
}

/// where a selection lives
#[derive(Clone, Copy, Debug, PartialEq, Eq)]
pub enum Site {
    OpTop,
    OpNested,
    Fragment,
    Inline,
}
impl Site {
    pub fn label(&self) -> &'static str {
        match self {
            Site::OpTop => "operation-top-level",
            Site::OpNested => "operation-nested",
            Site::Fragment => "named-fragment",
            Site::Inline => "inline-fragment",
        }
    }
}

type Visit<'a> = dyn FnMut(&mut Sel, &str, Site) -> bool + 'a;

/// visit every selection with the name of its parent type; the visitor returns true to stop
fn walk(ss: &mut SelSet, parent: &str, site: Site, ix: &SchemaIx, f: &mut Visit) -> bool {
    for s in ss.items.iter_mut() {
        if f(s, parent, site) {
            return true;
        }
        match s {
            Sel::Field(fl) => {
                if let Some(sub) = &mut fl.sels {
                    if let Some(fd) = ix.field(parent, &fl.name.s) {
                        let base = fd.ty.base().to_string();
                        let next = if site == Site::OpTop { Site::OpNested } else { site };
                        if walk(sub, &base, next, ix, f) {
                            return true;
                        }
                    }
                }
            }
            Sel::Inline { cond, sels, .. } => {
                let p = cond.as_ref().map(|c| c.s.clone()).unwrap_or_else(|| parent.to_string());
                if walk(sels, &p, Site::Inline, ix, f) {
                    return true;
                }
            }
            Sel::Spread { .. } => {}
        }
    }
    false
}

fn walk_doc(doc: &mut ExecDoc, ix: &SchemaIx, f: &mut Visit) {
    for d in doc.defs.iter_mut() {
        match d {
            ExecDef::Op(o) => {
                if let Some(root) = ix.root(o.kind) {
                    let root = root.clone();
                    if walk(&mut o.sels, &root, Site::OpTop, ix, f) {
                        return;
                    }
                }
            }
            ExecDef::Frag(fr) => {
                let c = fr.cond.s.clone();
                if walk(&mut fr.sels, &c, Site::Fragment, ix, f) {
                    return;
                }
            }
            _ => {}
        }
    }
}

/// mutate the k-th selection (among those satisfying `pred`) with `m`; returns the site
fn mutate_nth(doc: &mut ExecDoc, ix: &SchemaIx, rng: &mut Rng, pred: &dyn Fn(&Sel, &str) -> bool, m: &mut dyn FnMut(&mut Sel, &str)) -> Option<Site> {
    let mut count = 0usize;
    walk_doc(doc, ix, &mut |s, p, _| {
        if pred(s, p) {
            count += 1;
        }
        false
    });
    if count == 0 {
        return None;
    }
    let target = rng.below(count);
    let mut seen = 0usize;
    let mut site = None;
    walk_doc(doc, ix, &mut |s, p, st| {
        if pred(s, p) {
            if seen == target {
                m(s, p);
                site = Some(st);
                return true;
            }
            seen += 1;
        }
        false
    });
    site
}

fn wrong_literal(ix: &SchemaIx, ty: &Ty) -> Option<(Val, &'static str)> {
    // a literal of a kind that can never coerce to `ty` (lists are transparent: a single wrong item is wrong too)
    let base = ty.base();
    Some(match base {
        "Int" => (Val::str("not a number"), "string-for-Int"),
        "Float" => (Val::boolean(true), "boolean-for-Float"),
        "String" => (Val::int("7"), "int-for-String"),
        "Boolean" => (Val::int("1"), "int-for-Boolean"),
        "ID" => (Val::float("1.5"), "float-for-ID"),
        n => match ix.kind(n)? {
            TKind::Enum => (Val::str("RED"), "string-for-enum"),
            TKind::Input => (Val::int("3"), "int-for-input-object"),
            _ => return None, // custom scalars accept anything
        },
    })
}

/// visit every field selection reachable from `ss` without going through named fragment spreads, with its definition
fn visit_fields_mut(ss: &mut SelSet, parent: &str, ix: &SchemaIx, f: &mut dyn FnMut(&mut Field, &FieldDef) -> bool) -> bool {
    for s in ss.items.iter_mut() {
        match s {
            Sel::Field(fl) => {
                if let Some(fd) = ix.field(parent, &fl.name.s) {
                    if f(fl, &fd) {
                        return true;
                    }
                    if let Some(sub) = &mut fl.sels {
                        let base = fd.ty.base().to_string();
                        if visit_fields_mut(sub, &base, ix, f) {
                            return true;
                        }
                    }
                }
            }
            Sel::Inline { cond, sels, .. } => {
                let p = cond.as_ref().map(|c| c.s.clone()).unwrap_or_else(|| parent.to_string());
                if visit_fields_mut(sels, &p, ix, f) {
                    return true;
                }
            }
            Sel::Spread { .. } => {}
        }
    }
    false
}

/// R12, one precise way at a time: a fresh variable `$nv` whose type is too weak for exactly one position.
/// -> (value to put at the argument, type of $nv, label) for argument definition `d`, or None when the scenario does not fit
fn weak_variable_use(rng: &mut Rng, ix: &SchemaIx, d: &InputValueDef, scenario: usize) -> Option<(Val, Ty, String)> {
    let loc_default = |b: bool| if b { "location-has-default" } else { "location-without-default" };
    let required_others = |rng: &mut Rng, def: &TypeDef, except: &str| -> Vec<(Name, Val)> {
        def.input_fields.iter().filter(|g| g.name.s != except && g.ty.is_non_null() && g.default.is_none()).map(|g| (nm(&g.name.s), crate::gen_schema::gen_const(rng, ix, &g.ty, 1, false))).collect()
    };
    match scenario {
        0 => {
            // nullable variable (no default) at a required argument
            if !d.ty.is_non_null() || d.default.is_some() {
                return None;
            }
            Some((Val::var("nv"), d.ty.nullable().clone(), "nullable-variable-at-required-argument".into()))
        }
        1 => {
            // nullable variable as an item of a list literal whose item type is non-null (the list position may have a default)
            let Ty::List(inner, _) = d.ty.nullable() else { return None };
            if !inner.is_non_null() {
                return None;
            }
            let mut items = vec![];
            if rng.coin() {
                items.push(crate::gen_schema::gen_const(rng, ix, inner, 1, false));
            }
            items.push(Val::var("nv"));
            if rng.coin() {
                items.push(crate::gen_schema::gen_const(rng, ix, inner, 1, false));
            }
            Some((Val::list(items), inner.nullable().clone(), format!("nullable-variable-in-list-literal|{}", loc_default(d.default.is_some()))))
        }
        2 => {
            // list variable whose item type is nullable where non-null items are expected
            let Ty::List(inner, p) = d.ty.nullable() else { return None };
            if !inner.is_non_null() {
                return None;
            }
            let weak = Ty::List(Box::new(inner.nullable().clone()), p.clone());
            let vty = if d.ty.is_non_null() { Ty::non_null(weak) } else { weak };
            Some((Val::var("nv"), vty, format!("nullable-items-in-list-variable|{}", loc_default(d.default.is_some()))))
        }
        3 => {
            // nullable variable at a required field (no default) of an input object literal
            if d.ty.list_depth() > 0 || ix.kind(d.ty.base()) != Some(TKind::Input) {
                return None;
            }
            let def = ix.ty(d.ty.base())?.clone();
            let cands: Vec<&InputValueDef> = def.input_fields.iter().filter(|f| f.ty.is_non_null() && f.default.is_none()).collect();
            let f = *rng.pick_opt(&cands)?;
            let mut fields = required_others(rng, &def, &f.name.s);
            fields.push((nm(&f.name.s), Val::var("nv")));
            rng.shuffle(&mut fields);
            Some((Val::Obj(fields, P::none()), f.ty.nullable().clone(), "nullable-variable-at-required-input-field".into()))
        }
        _ => {
            // nullable variable inside a list literal given for an input object field with non-null items
            if d.ty.list_depth() > 0 || ix.kind(d.ty.base()) != Some(TKind::Input) {
                return None;
            }
            let def = ix.ty(d.ty.base())?.clone();
            let cands: Vec<&InputValueDef> = def.input_fields.iter().filter(|f| matches!(f.ty.nullable(), Ty::List(inner, _) if inner.is_non_null())).collect();
            let f = *rng.pick_opt(&cands)?;
            let Ty::List(inner, _) = f.ty.nullable() else { return None };
            let mut fields = required_others(rng, &def, &f.name.s);
            fields.push((nm(&f.name.s), Val::list(vec![Val::var("nv")])));
            rng.shuffle(&mut fields);
            Some((Val::Obj(fields, P::none()), inner.nullable().clone(), format!("nullable-variable-in-list-literal-of-input-field|{}", loc_default(f.default.is_some()))))
        }
    }
}

const N: usize = 34;

pub fn inject(rng: &mut Rng, ix: &SchemaIx, base: &ExecDoc) -> Option<OpFault> {
    for _ in 0..40 {
        // the position-precise variable injector has five scenarios of its own: give it more weight
        let w = if rng.chance(1, 6) { 32 } else { rng.below(N) };
        if let Some(f) = inject_one(rng, ix, base, w) {
            return Some(f);
        }
    }
    None
}

pub fn inject_one(rng: &mut Rng, ix: &SchemaIx, base: &ExecDoc, which: usize) -> Option<OpFault> {
    let mut doc = base.clone();
    macro_rules! done {
        ($rule:expr, $label:expr, $kinds:expr) => {
            return Some(OpFault { doc, rule: $rule, label: $label.to_string(), kinds: $kinds })
        };
    }
    let is_named_field = |s: &Sel, _: &str| matches!(s, Sel::Field(f) if f.name.s != "__typename");
    match which {
        0 => {
            // R1: two operations with the same name
            let named: Vec<usize> = doc.defs.iter().enumerate().filter(|(_, d)| matches!(d, ExecDef::Op(o) if o.name.is_some())).map(|(i, _)| i).collect();
            if named.len() >= 2 {
                let n = if let ExecDef::Op(o) = &doc.defs[named[0]] { o.name.clone() } else { None };
                if let ExecDef::Op(o) = &mut doc.defs[named[1]] {
                    o.name = n;
                }
            } else if named.len() == 1 {
                let d = doc.defs[named[0]].clone();
                doc.defs.push(d);
            } else {
                return None;
            }
            done!("R1", "duplicate-operation-name", &["DuplicateOperationName"]);
        }
        1 => {
            // R2: an anonymous operation next to another one
            let ops: Vec<usize> = doc.defs.iter().enumerate().filter(|(_, d)| matches!(d, ExecDef::Op(_))).map(|(i, _)| i).collect();
            if ops.len() >= 2 {
                if let ExecDef::Op(o) = &mut doc.defs[ops[rng.below(ops.len())]] {
                    o.name = None;
                    o.shorthand = false;
                }
            } else {
                let ExecDef::Op(mut o) = doc.defs[ops[0]].clone() else { return None };
                o.name = None;
                o.shorthand = false;
                if let ExecDef::Op(first) = &mut doc.defs[ops[0]] {
                    if first.name.is_none() {
                        first.name = Some(nm("Named"));
                    }
                }
                doc.defs.push(ExecDef::Op(o));
            }
            done!("R2", "anonymous-not-alone", &["UnNamedOperationMustBeSingle"]);
        }
        2 => {
            // R3: subscription with two root fields
            let sub_root = ix.root(OpKind::Subscription)?.clone();
            let fields = &ix.ty(&sub_root)?.fields;
            let simple: Vec<&FieldDef> = fields.iter().filter(|f| !f.args.iter().any(|a| a.ty.is_non_null() && a.default.is_none())).collect();
            if simple.is_empty() {
                return None;
            }
            let mk = |f: &FieldDef, alias: &str| {
                let sels = if ix.is_composite(f.ty.base()) { Some(SelSet { p: P::none(), items: vec![Sel::Field(Field::leaf("__typename"))] }) } else { None };
                Sel::Field(Field { alias: Some(nm(alias)), name: nm(&f.name.s), args: vec![], args_p: P::none(), dirs: vec![], sels })
            };
            let variant = rng.below(2);
            let items = if variant == 0 {
                vec![mk(simple[0], "r1"), mk(simple[rng.below(simple.len())], "r2")]
            } else {
                // the second root field hides in an inline fragment
                vec![mk(simple[0], "r1"), Sel::Inline { p: P::none(), cond: None, dirs: vec![], sels: SelSet { p: P::none(), items: vec![mk(simple[rng.below(simple.len())], "r2")] } }]
            };
            doc.defs.push(ExecDef::Op(OpDef { p: P::none(), kind: OpKind::Subscription, name: Some(nm("TwoRoots")), vars: vec![], vars_p: P::none(), dirs: vec![], sels: SelSet { p: P::none(), items }, shorthand: false }));
            done!("R3", if variant == 0 { "subscription-two-root-fields|direct" } else { "subscription-two-root-fields|through-inline-fragment" }, &["SubscriptionMustHaveExactlyOneRootField"]);
        }
        3 => {
            let site = mutate_nth(&mut doc, ix, rng, &is_named_field, &mut |s, _| {
                if let Sel::Field(f) = s {
                    f.name.s = "nopeField".into();
                    f.args.clear();
                    f.sels = None;
                }
            })?;
            done!("R4", format!("unknown-field|{}", site.label()), &["FieldNotFound"]);
        }
        4 => {
            let site = mutate_nth(
                &mut doc,
                ix,
                rng,
                &|s, p| matches!(s, Sel::Field(f) if f.sels.is_none() && f.name.s != "__typename" && ix.field(p, &f.name.s).is_some_and(|d| ix.is_leaf(d.ty.base()))),
                &mut |s, _| {
                    if let Sel::Field(f) = s {
                        f.sels = Some(SelSet { p: P::none(), items: vec![Sel::Field(Field::leaf("__typename"))] });
                    }
                },
            )?;
            done!("R5", format!("selection-on-leaf|{}", site.label()), &["SelectionOnInvalidType"]);
        }
        5 => {
            let site = mutate_nth(&mut doc, ix, rng, &|s, _| matches!(s, Sel::Field(f) if f.sels.is_some()), &mut |s, _| {
                if let Sel::Field(f) = s {
                    f.sels = None;
                }
            })?;
            done!("R5", format!("composite-without-selection|{}", site.label()), &["MustSpecifySelectionSet"]);
        }
        6 => {
            let site = mutate_nth(&mut doc, ix, rng, &is_named_field, &mut |s, _| {
                if let Sel::Field(f) = s {
                    f.args.push((nm("bogusArgument"), Val::int("1")));
                    if f.alias.is_none() {
                        f.alias = Some(nm("zz1"));
                    }
                }
            })?;
            done!("R6", format!("unknown-argument|field|{}", site.label()), &["UnknownArgument", "ArgumentsNotNeeded"]);
        }
        7 => {
            let drop_all = rng.coin();
            let mut how = "required-argument-missing";
            let site = mutate_nth(
                &mut doc,
                ix,
                rng,
                &|s, p| matches!(s, Sel::Field(f) if ix.field(p, &f.name.s).is_some_and(|d| d.args.iter().any(|a| a.ty.is_non_null() && a.default.is_none() && f.args.iter().any(|(k, _)| k.s == a.name.s)))),
                &mut |s, p| {
                    if let Sel::Field(f) = s {
                        let d = ix.field(p, &f.name.s).unwrap();
                        let req: Vec<String> = d.args.iter().filter(|a| a.ty.is_non_null() && a.default.is_none()).map(|a| a.name.s.clone()).collect();
                        if req.len() >= 2 && drop_all {
                            // every required argument at once: several diagnostics anchored at one and the same position
                            f.args.retain(|(k, _)| !req.contains(&k.s));
                            how = "all-required-arguments-missing";
                        } else {
                            let victim = req[0].clone();
                            f.args.retain(|(k, _)| k.s != victim);
                        }
                    }
                },
            )?;
            // removing an argument may orphan a variable: that is not an implemented rule
            done!("R7", format!("{how}|{}", site.label()), &["RequiredArgumentNotSpecified"]);
        }
        8 | 9 | 10 | 11 | 12 => {
            // R8 family: a literal that does not fit
            let mut label = String::new();
            let variant = which;
            let site = mutate_nth(
                &mut doc,
                ix,
                rng,
                &|s, p| matches!(s, Sel::Field(f) if ix.field(p, &f.name.s).is_some_and(|d| !d.args.is_empty())),
                &mut |s, p| {
                    if let Sel::Field(f) = s {
                        let d = ix.field(p, &f.name.s).unwrap();
                        if f.alias.is_none() {
                            f.alias = Some(nm("zz2"));
                        }
                        for a in &d.args {
                            let set = |f: &mut Field, v: Val| {
                                f.args.retain(|(k, _)| k.s != a.name.s);
                                f.args.push((nm(&a.name.s), v));
                            };
                            match variant {
                                8 => {
                                    if let Some((v, l)) = wrong_literal(ix, &a.ty) {
                                        if a.ty.list_depth() > 0 {
                                            set(f, Val::list(vec![v]));
                                            label = format!("literal-type|in-list|{l}");
                                        } else {
                                            set(f, v);
                                            label = format!("literal-type|top-level|{l}");
                                        }
                                        return;
                                    }
                                }
                                9 => {
                                    if ix.kind(a.ty.base()) == Some(TKind::Enum) {
                                        let v = Val::enumv("NOT_A_MEMBER");
                                        set(f, if a.ty.list_depth() > 0 { Val::list(vec![v]) } else { v });
                                        label = "enum-member-unknown".into();
                                        return;
                                    }
                                }
                                10 | 11 | 12 => {
                                    if ix.kind(a.ty.base()) == Some(TKind::Input) && a.ty.list_depth() <= 1 {
                                        let def = ix.ty(a.ty.base()).unwrap();
                                        let mut fields: Vec<(Name, Val)> = vec![];
                                        let mut dummy = Rng::new(1);
                                        for fd in &def.input_fields {
                                            if fd.ty.is_non_null() && fd.default.is_none() {
                                                fields.push((nm(&fd.name.s), crate::gen_schema::gen_const(&mut dummy, ix, &fd.ty, 1, false)));
                                            }
                                        }
                                        match variant {
                                            10 => {
                                                // unknown field; optional fields are (deliberately) omitted
                                                fields.push((nm("noSuchField"), Val::int("1")));
                                                label = format!("input-object-unknown-field|optional-fields-omitted={}", def.input_fields.iter().filter(|x| !(x.ty.is_non_null() && x.default.is_none())).count().min(2));
                                            }
                                            11 => {
                                                if fields.is_empty() {
                                                    continue;
                                                }
                                                fields.remove(0);
                                                label = "input-object-required-field-missing".into();
                                            }
                                            _ => {
                                                // ill-typed nested field
                                                let Some(fd) = def.input_fields.iter().find(|x| wrong_literal(ix, &x.ty).is_some() && x.ty.list_depth() == 0) else { continue };
                                                let (v, l) = wrong_literal(ix, &fd.ty).unwrap();
                                                fields.retain(|(k, _)| k.s != fd.name.s);
                                                fields.push((nm(&fd.name.s), v));
                                                label = format!("literal-type|in-input-object|{l}");
                                            }
                                        }
                                        let ov = Val::Obj(fields, P::none());
                                        set(f, if a.ty.list_depth() == 1 { Val::list(vec![ov]) } else { ov });
                                        return;
                                    }
                                }
                                _ => {}
                            }
                        }
                    }
                },
            )?;
            if label.is_empty() {
                return None;
            }
            done!("R8", format!("{label}|{}", site.label()), &["TypeMismatch", "UnknownEnumMember"]);
        }
        13 => {
            // R9 duplicate variable
            let ops: Vec<usize> = doc.defs.iter().enumerate().filter(|(_, d)| matches!(d, ExecDef::Op(o) if !o.vars.is_empty())).map(|(i, _)| i).collect();
            let i = *rng.pick_opt(&ops)?;
            if let ExecDef::Op(o) = &mut doc.defs[i] {
                let v = o.vars[rng.below(o.vars.len())].clone();
                o.vars.push(v);
            }
            done!("R9", "duplicate-variable", &["DuplicatedVariableName"]);
        }
        14 => {
            // R10 variable of a non-input type (unused, so that no other rule fires)
            let ops: Vec<usize> = doc.defs.iter().enumerate().filter(|(_, d)| matches!(d, ExecDef::Op(_))).map(|(i, _)| i).collect();
            let i = *rng.pick_opt(&ops)?;
            let outs: Vec<String> = ix.order.iter().filter(|t| ix.is_composite(t)).cloned().collect();
            let (ty, label) = if rng.coin() || outs.is_empty() { ("NoSuchType".to_string(), "variable-of-unknown-type") } else { (outs[rng.below(outs.len())].clone(), "variable-of-output-type") };
            if let ExecDef::Op(o) = &mut doc.defs[i] {
                o.vars.push(VarDef { p: P::none(), name: nm("badTypeVar"), ty: Ty::named(&ty), default: None, dirs: vec![] });
                o.shorthand = false;
            }
            done!("R10", label, &["NoOutputType", "UnknownType"]);
        }
        15 => {
            // R11 undefined variable, at a random argument
            let site = mutate_nth(&mut doc, ix, rng, &|s, p| matches!(s, Sel::Field(f) if ix.field(p, &f.name.s).is_some_and(|d| !d.args.is_empty())), &mut |s, p| {
                if let Sel::Field(f) = s {
                    let d = ix.field(p, &f.name.s).unwrap();
                    let a = &d.args[0];
                    f.args.retain(|(k, _)| k.s != a.name.s);
                    f.args.push((nm(&a.name.s), Val::var("neverDefined")));
                    if f.alias.is_none() {
                        f.alias = Some(nm("zz3"));
                    }
                }
            })?;
            done!("R11", format!("undefined-variable|field-argument|{}", site.label()), &["UnknownVariable"]);
        }
        16 => {
            // R11 in a directive argument
            let site = mutate_nth(&mut doc, ix, rng, &|_, _| true, &mut |s, _| {
                s.dirs_mut().retain(|d| d.name.s != "skip");
                s.dirs_mut().push(Dir::new("skip", vec![("if", Val::var("neverDefined"))]));
            })?;
            done!("R11", format!("undefined-variable|directive-argument|{}", site.label()), &["UnknownVariable"]);
        }
        17 => {
            // R12 variable type incompatible with its use: flip the declared base type
            let ops: Vec<usize> = doc.defs.iter().enumerate().filter(|(_, d)| matches!(d, ExecDef::Op(o) if o.vars.iter().any(|v| matches!(v.ty.base(), "Int" | "String" | "Boolean")))).map(|(i, _)| i).collect();
            let i = *rng.pick_opt(&ops)?;
            let mut label = "";
            if let ExecDef::Op(o) = &mut doc.defs[i] {
                let v = o.vars.iter_mut().find(|v| matches!(v.ty.base(), "Int" | "String" | "Boolean"))?;
                let other = if v.ty.base() == "Int" { "String" } else { "Int" };
                v.ty = v.ty.with_base(other);
                v.default = None;
                label = "variable-base-type-differs";
            }
            done!("R12", label, &["TypeMismatch"]);
        }
        18 => {
            // R12: nullable variable (no default) where a non-null value without default is needed / list depth differs
            let ops: Vec<usize> = doc.defs.iter().enumerate().filter(|(_, d)| matches!(d, ExecDef::Op(o) if !o.vars.is_empty())).map(|(i, _)| i).collect();
            let i = *rng.pick_opt(&ops)?;
            if let ExecDef::Op(o) = &mut doc.defs[i] {
                let k = rng.below(o.vars.len());
                let v = &mut o.vars[k];
                v.ty = Ty::list(Ty::list(Ty::list(Ty::list(v.ty.clone()))));
                v.default = None;
            }
            done!("R12", "variable-list-depth-differs", &["TypeMismatch"]);
        }
        19 => {
            // R13 duplicate fragment name
            let fr: Vec<ExecDef> = doc.defs.iter().filter(|d| matches!(d, ExecDef::Frag(_))).cloned().collect();
            let f = rng.pick_opt(&fr)?.clone();
            doc.defs.push(f);
            done!("R13", "duplicate-fragment-name", &["DuplicateFragmentName"]);
        }
        20 => {
            // R14 fragment on an unknown / non-composite type
            let idx: Vec<usize> = doc.defs.iter().enumerate().filter(|(_, d)| matches!(d, ExecDef::Frag(_))).map(|(i, _)| i).collect();
            let i = *rng.pick_opt(&idx)?;
            let leafs: Vec<String> = ix.order.iter().filter(|t| matches!(ix.kind(t), Some(TKind::Enum | TKind::Input | TKind::Scalar))).cloned().collect();
            let (t, label) = if rng.coin() { ("NoSuchType".to_string(), "fragment-on-unknown-type") } else { (leafs[rng.below(leafs.len())].clone(), "fragment-on-non-composite-type") };
            if let ExecDef::Frag(f) = &mut doc.defs[i] {
                f.cond.s = t;
            }
            done!("R14", label, &["UnknownType", "InvalidFragmentTarget"]);
        }
        21 => {
            let site = mutate_nth(&mut doc, ix, rng, &|s, _| matches!(s, Sel::Inline { cond: Some(_), .. }), &mut |s, _| {
                if let Sel::Inline { cond, sels, .. } = s {
                    *cond = Some(nm("NoSuchType"));
                    sels.items = vec![Sel::Field(Field::leaf("__typename"))];
                }
            })?;
            done!("R14", format!("inline-fragment-on-unknown-type|{}", site.label()), &["UnknownType"]);
        }
        22 => {
            // R15 spread of an undefined fragment
            let mut site = None;
            let mut count = 0;
            walk_doc(&mut doc, ix, &mut |_, _, _| {
                count += 1;
                false
            });
            if count == 0 {
                return None;
            }
            let target = rng.below(count);
            let mut seen = 0;
            // insert next to the target selection: we mutate the selection into an inline wrapper holding both
            walk_doc(&mut doc, ix, &mut |s, _, st| {
                if seen == target {
                    let old = s.clone();
                    *s = Sel::Inline { p: P::none(), cond: None, dirs: vec![], sels: SelSet { p: P::none(), items: vec![old, Sel::Spread { p: P::none(), name: nm("NoSuchFragment"), dirs: vec![] }] } };
                    site = Some(st);
                    return true;
                }
                seen += 1;
                false
            });
            done!("R15", format!("spread-of-undefined-fragment|{}", site?.label()), &["UnknownFragment"]);
        }
        23 => {
            // R16 fragment cycle (direct or through a second fragment)
            let idx: Vec<usize> = doc.defs.iter().enumerate().filter(|(_, d)| matches!(d, ExecDef::Frag(_))).map(|(i, _)| i).collect();
            let i = *rng.pick_opt(&idx)?;
            let (name, cond) = if let ExecDef::Frag(f) = &doc.defs[i] { (f.name.s.clone(), f.cond.s.clone()) } else { return None };
            if rng.coin() {
                if let ExecDef::Frag(f) = &mut doc.defs[i] {
                    f.sels.items.push(Sel::Spread { p: P::none(), name: nm(&name), dirs: vec![] });
                }
                done!("R16", "fragment-cycle|direct", &["RecursingFragmentSpread"]);
            }
            // through a helper fragment on the same type
            if let ExecDef::Frag(f) = &mut doc.defs[i] {
                f.sels.items.push(Sel::Spread { p: P::none(), name: nm("CycleHelper"), dirs: vec![] });
            }
            doc.defs.push(ExecDef::Frag(FragDef { p: P::none(), name: nm("CycleHelper"), cond: nm(&cond), dirs: vec![], sels: SelSet { p: P::none(), items: vec![Sel::Field(Field::leaf("__typename")), Sel::Spread { p: P::none(), name: nm(&name), dirs: vec![] }] } }));
            done!("R16", "fragment-cycle|through-second-fragment", &["RecursingFragmentSpread"]);
        }
        24 => {
            // R17 impossible spread
            let mut label = String::new();
            let site = mutate_nth(
                &mut doc,
                ix,
                rng,
                &|s, p| matches!(s, Sel::Field(_)) && ix.order.iter().any(|t| ix.is_composite(t) && !ix.spread_possible(p, t)),
                &mut |s, p| {
                    let cands: Vec<&String> = ix.order.iter().filter(|t| ix.is_composite(t) && !ix.spread_possible(p, t)).collect();
                    let t = cands[0];
                    label = format!("{}-in-{}", kind_word(ix, t), kind_word(ix, p));
                    let old = s.clone();
                    *s = Sel::Inline { p: P::none(), cond: None, dirs: vec![], sels: SelSet { p: P::none(), items: vec![old, Sel::Inline { p: P::none(), cond: Some(nm(t)), dirs: vec![], sels: SelSet { p: P::none(), items: vec![Sel::Field(Field::leaf("__typename"))] } }] } };
                },
            )?;
            done!("R17", format!("impossible-spread|{label}|{}", site.label()), &["FragmentConditionNeverMatches"]);
        }
        25 | 26 | 27 => {
            // R18 / R19 / R20 on a selection (field, fragment spread, inline fragment)
            let mut kind_l = "";
            let site = mutate_nth(&mut doc, ix, rng, &|_, _| true, &mut |s, _| {
                let loc = match s {
                    Sel::Field(_) => "FIELD",
                    Sel::Spread { .. } => "FRAGMENT_SPREAD",
                    Sel::Inline { .. } => "INLINE_FRAGMENT",
                };
                kind_l = match s {
                    Sel::Field(_) => "field",
                    Sel::Spread { .. } => "fragment-spread",
                    Sel::Inline { .. } => "inline-fragment",
                };
                match which {
                    25 => s.dirs_mut().push(Dir::new("noSuchDirective", vec![])),
                    26 => {
                        // @deprecated is never legal in executable documents
                        let _ = loc;
                        s.dirs_mut().push(Dir::new("deprecated", vec![]));
                    }
                    _ => {
                        s.dirs_mut().retain(|d| d.name.s != "include");
                        s.dirs_mut().push(Dir::new("include", vec![("if", Val::boolean(true))]));
                        s.dirs_mut().push(Dir::new("include", vec![("if", Val::boolean(true))]));
                    }
                }
            })?;
            match which {
                25 => done!("R18", format!("unknown-directive|{kind_l}|{}", site.label()), &["UnknownDirective"]),
                26 => done!("R19", format!("misplaced-directive|{kind_l}|{}", site.label()), &["DirectiveLocationNotAllowed"]),
                _ => done!("R20", format!("repeated-directive|{kind_l}|{}", site.label()), &["RepeatedDirective"]),
            }
        }
        28 => {
            // R18/R19 on definitions: fragment definition / operation / variable definition
            let variant = rng.below(3);
            let bad = if rng.coin() { ("noSuchDirective", "R18", "unknown-directive") } else { ("deprecated", "R19", "misplaced-directive") };
            match variant {
                0 => {
                    let idx: Vec<usize> = doc.defs.iter().enumerate().filter(|(_, d)| matches!(d, ExecDef::Frag(_))).map(|(i, _)| i).collect();
                    let i = *rng.pick_opt(&idx)?;
                    if let ExecDef::Frag(f) = &mut doc.defs[i] {
                        f.dirs.push(Dir::new(bad.0, vec![]));
                    }
                    if bad.1 == "R18" {
                        done!("R18", format!("{}|fragment-definition", bad.2), &["UnknownDirective"]);
                    }
                    done!("R19", format!("{}|fragment-definition", bad.2), &["DirectiveLocationNotAllowed"]);
                }
                1 => {
                    let idx: Vec<usize> = doc.defs.iter().enumerate().filter(|(_, d)| matches!(d, ExecDef::Op(_))).map(|(i, _)| i).collect();
                    let i = *rng.pick_opt(&idx)?;
                    if let ExecDef::Op(o) = &mut doc.defs[i] {
                        o.dirs.push(Dir::new(bad.0, vec![]));
                        o.shorthand = false;
                        if o.name.is_none() && base.ops().count() > 1 {
                            return None;
                        }
                    }
                    if bad.1 == "R18" {
                        done!("R18", format!("{}|operation", bad.2), &["UnknownDirective"]);
                    }
                    done!("R19", format!("{}|operation", bad.2), &["DirectiveLocationNotAllowed"]);
                }
                _ => {
                    let idx: Vec<usize> = doc.defs.iter().enumerate().filter(|(_, d)| matches!(d, ExecDef::Op(o) if !o.vars.is_empty())).map(|(i, _)| i).collect();
                    let i = *rng.pick_opt(&idx)?;
                    if let ExecDef::Op(o) = &mut doc.defs[i] {
                        let k = rng.below(o.vars.len());
                        o.vars[k].dirs.push(Dir::new(bad.0, vec![]));
                    }
                    if bad.1 == "R18" {
                        done!("R18", format!("{}|variable-definition", bad.2), &["UnknownDirective"]);
                    }
                    done!("R19", format!("{}|variable-definition", bad.2), &["DirectiveLocationNotAllowed"]);
                }
            }
        }
        29 => {
            // R8: ill-typed default value of a variable
            let ops: Vec<usize> = doc.defs.iter().enumerate().filter(|(_, d)| matches!(d, ExecDef::Op(o) if o.vars.iter().any(|v| wrong_literal(ix, &v.ty).is_some()))).map(|(i, _)| i).collect();
            let i = *rng.pick_opt(&ops)?;
            let mut label = String::new();
            if let ExecDef::Op(o) = &mut doc.defs[i] {
                let v = o.vars.iter_mut().find(|v| wrong_literal(ix, &v.ty).is_some())?;
                let (lit, l) = wrong_literal(ix, &v.ty)?;
                v.default = Some(if v.ty.list_depth() > 0 { Val::list(vec![lit]) } else { lit });
                label = format!("literal-type|variable-default|{l}");
            }
            done!("R8", label, &["TypeMismatch", "UnknownEnumMember"]);
        }
        30 => {
            // R4 inside a fragment that no operation spreads
            let composites: Vec<String> = ix.order.iter().filter(|t| matches!(ix.kind(t), Some(TKind::Object | TKind::Interface))).cloned().collect();
            let t = rng.pick_opt(&composites)?.clone();
            doc.defs.push(ExecDef::Frag(FragDef { p: P::none(), name: nm("NeverSpread"), cond: nm(&t), dirs: vec![], sels: SelSet { p: P::none(), items: vec![Sel::Field(Field::leaf("__typename")), Sel::Field(Field::leaf("nopeField"))] } }));
            done!("R4", "unknown-field|unused-fragment", &["FieldNotFound"]);
        }
        31 => {
            // R16 in a fragment that no operation spreads
            let composites: Vec<String> = ix.order.iter().filter(|t| ix.is_composite(t)).cloned().collect();
            let t = rng.pick_opt(&composites)?.clone();
            doc.defs.push(ExecDef::Frag(FragDef { p: P::none(), name: nm("NeverSpread"), cond: nm(&t), dirs: vec![], sels: SelSet { p: P::none(), items: vec![Sel::Field(Field::leaf("__typename")), Sel::Spread { p: P::none(), name: nm("NeverSpread"), dirs: vec![] }] } }));
            done!("R16", "fragment-cycle|unused-fragment", &["RecursingFragmentSpread"]);
        }
        32 => {
            // R12 at one precise position, in an operation (so that the fresh variable is certainly in scope)
            let scenario = rng.below(5);
            let ops: Vec<usize> = doc.defs.iter().enumerate().filter(|(_, d)| matches!(d, ExecDef::Op(_))).map(|(i, _)| i).collect();
            let oi = *rng.pick_opt(&ops)?;
            let ExecDef::Op(o) = &mut doc.defs[oi] else { return None };
            let root = ix.root(o.kind)?.clone();
            // count candidate (field, argument) pairs, then mutate a random one
            let mut cands = 0usize;
            {
                let mut probe = Rng::new(1);
                visit_fields_mut(&mut o.sels, &root, ix, &mut |_, fd| {
                    cands += fd.args.iter().filter(|a| weak_variable_use(&mut probe, ix, a, scenario).is_some()).count();
                    false
                });
            }
            if cands == 0 {
                return None;
            }
            let target = rng.below(cands);
            let mut seen = 0usize;
            let mut made: Option<(Ty, String)> = None;
            visit_fields_mut(&mut o.sels, &root, ix, &mut |fl, fd| {
                for a in &fd.args {
                    let mut probe = Rng::new(1);
                    if weak_variable_use(&mut probe, ix, a, scenario).is_none() {
                        continue;
                    }
                    if seen == target {
                        if let Some((val, vty, label)) = weak_variable_use(rng, ix, a, scenario) {
                            fl.args.retain(|(k, _)| k.s != a.name.s);
                            fl.args.push((nm(&a.name.s), val));
                            made = Some((vty, label));
                        }
                        return true;
                    }
                    seen += 1;
                }
                false
            });
            let (vty, label) = made?;
            o.vars.retain(|v| v.name.s != "nv");
            o.vars.push(VarDef { p: P::none(), name: nm("nv"), ty: vty, default: None, dirs: vec![] });
            done!("R12", label, &["TypeMismatch"]);
        }
        _ => {
            // R6/R8 on a directive argument: @skip(if: "yes") / @skip(if: true, bogus: 1) on a random selection
            let variant = rng.below(2);
            let site = mutate_nth(&mut doc, ix, rng, &|_, _| true, &mut |s, _| {
                s.dirs_mut().retain(|d| d.name.s != "skip");
                if variant == 0 {
                    s.dirs_mut().push(Dir::new("skip", vec![("if", Val::str("yes"))]));
                } else {
                    s.dirs_mut().push(Dir::new("skip", vec![("if", Val::boolean(true)), ("bogus", Val::int("1"))]));
                }
            })?;
            if variant == 0 {
                done!("R8", format!("literal-type|directive-argument|string-for-Boolean|{}", site.label()), &["TypeMismatch"]);
            }
            done!("R6", format!("unknown-argument|directive|{}", site.label()), &["UnknownArgument"]);
        }
    }
}

fn kind_word(ix: &SchemaIx, t: &str) -> &'static str {
    match ix.kind(t) {
        Some(TKind::Object) => "object",
        Some(TKind::Interface) => "interface",
        Some(TKind::Union) => "union",
        _ => "other",
    }
}
