//! Independent base64-VLQ and Source Map v3 `mappings` decoder (written from the spec).

#[derive(Clone, Debug, PartialEq, Eq)]
pub struct Seg {
    pub gen_line: i64,
    pub gen_col: i64,
    /// (source index, original line, original column)
    pub src: Option<(i64, i64, i64)>,
    pub name: Option<i64>,
}

fn b64(c: u8) -> Option<u32> {
    match c {
        b'A'..=b'Z' => Some((c - b'A') as u32),
        b'a'..=b'z' => Some((c - b'a') as u32 + 26),
        b'0'..=b'9' => Some((c - b'0') as u32 + 52),
        b'+' => Some(62),
        b'/' => Some(63),
        _ => None,
    }
}

/// Decodes one VLQ value from `s` starting at `*i`.
pub fn vlq_decode_one(s: &[u8], i: &mut usize) -> Result<i128, String> {
    let mut shift = 0u32;
    let mut acc: u128 = 0;
    loop {
        let Some(&c) = s.get(*i) else {
            return Err("truncated VLQ (continuation bit set on last digit)".into());
        };
        let Some(d) = b64(c) else {
            return Err(format!("illegal base64 character {:?}", c as char));
        };
        *i += 1;
        let cont = d & 32 != 0;
        let bits = (d & 31) as u128;
        if shift > 100 {
            return Err("VLQ too long".into());
        }
        acc |= bits << shift;
        shift += 5;
        if !cont {
            break;
        }
    }
    let neg = acc & 1 == 1;
    let mag = (acc >> 1) as i128;
    Ok(if neg { -mag } else { mag })
}

/// Decode a full VLQ string into exactly one value (error if trailing characters remain).
pub fn vlq_decode_exact(s: &str) -> Result<i128, String> {
    let b = s.as_bytes();
    let mut i = 0;
    let v = vlq_decode_one(b, &mut i)?;
    if i != b.len() {
        return Err(format!("trailing characters after VLQ value: {:?}", &s[i..]));
    }
    Ok(v)
}

pub struct Decoded {
    pub segs: Vec<Seg>,
    pub empty_segments: usize,
}

/// Decode `mappings` into absolute segments.
pub fn decode_mappings(m: &str) -> Result<Decoded, String> {
    let mut segs = vec![];
    let mut empty = 0usize;
    let (mut src, mut oline, mut ocol, mut name) = (0i64, 0i64, 0i64, 0i64);
    for (line_idx, line) in m.split(';').enumerate() {
        let mut gen_col = 0i64;
        if line.is_empty() {
            continue;
        }
        for seg in line.split(',') {
            if seg.is_empty() {
                empty += 1;
                continue;
            }
            let b = seg.as_bytes();
            let mut i = 0;
            let mut fields = vec![];
            while i < b.len() {
                fields.push(vlq_decode_one(b, &mut i)?);
                if fields.len() > 5 {
                    return Err(format!("segment {seg:?} has more than 5 fields"));
                }
            }
            if !(fields.len() == 1 || fields.len() == 4 || fields.len() == 5) {
                return Err(format!("segment {seg:?} has {} fields", fields.len()));
            }
            let f = |x: i128| -> Result<i64, String> {
                i64::try_from(x).map_err(|_| "field out of range".to_string())
            };
            gen_col += f(fields[0])?;
            let mut s = Seg { gen_line: line_idx as i64, gen_col, src: None, name: None };
            if fields.len() >= 4 {
                src = src.wrapping_add(f(fields[1])?);
                oline = oline.wrapping_add(f(fields[2])?);
                ocol = ocol.wrapping_add(f(fields[3])?);
                s.src = Some((src, oline, ocol));
            }
            if fields.len() == 5 {
                name = name.wrapping_add(f(fields[4])?);
                s.name = Some(name);
            }
            segs.push(s);
        }
    }
    Ok(Decoded { segs, empty_segments: empty })
}

pub fn utf16_len(s: &str) -> usize {
    s.chars().map(|c| c.len_utf16()).sum()
}

/// (line, utf16 column, char column) of a byte offset in `text`
pub fn line_col_of(text: &str, byte: usize) -> (usize, usize, usize) {
    let before = &text[..byte];
    let line = before.matches('\n').count();
    let line_start = before.rfind('\n').map(|i| i + 1).unwrap_or(0);
    let seg = &before[line_start..];
    (line, utf16_len(seg), seg.chars().count())
}

/// split text into lines (by '\n'); returns for each line its content
pub fn lines_of(text: &str) -> Vec<&str> {
    text.split('\n').collect()
}
