//! Shard report: what a monitor observed. Written as JSON by each shard process and
//! aggregated by /verif/check into evidence/<id>.json.

use std::collections::{BTreeMap, BTreeSet};

use serde_json::{Value, json};

use crate::rng::hash_str;

/// bumped at every case; the hang watchdog (below) looks at it
pub static HEARTBEAT: std::sync::atomic::AtomicU64 = std::sync::atomic::AtomicU64::new(0);
static KEEP_LAST: std::sync::atomic::AtomicBool = std::sync::atomic::AtomicBool::new(false);
static LAST_CASE: std::sync::Mutex<Option<String>> = std::sync::Mutex::new(None);

/// Per-case watchdog for properties with a termination clause. When no case boundary is crossed for `secs` seconds the
/// case in progress is written to `hang_path` and the process exits with status 5; `check` replays that case alone
/// (twice, with a much longer limit) before anything is called a violation. A wall-clock limit only *nominates* a case.
pub fn start_hang_watchdog(secs: u64, hang_path: String) {
    KEEP_LAST.store(true, std::sync::atomic::Ordering::Relaxed);
    std::thread::spawn(move || {
        let mut last = HEARTBEAT.load(std::sync::atomic::Ordering::Relaxed);
        let mut since = std::time::Instant::now();
        loop {
            std::thread::sleep(std::time::Duration::from_millis(500));
            let now = HEARTBEAT.load(std::sync::atomic::Ordering::Relaxed);
            if now != last {
                last = now;
                since = std::time::Instant::now();
            } else if since.elapsed().as_secs() >= secs {
                // the main thread may hold the lock only while storing a case, never while running one
                let case = LAST_CASE.lock().ok().and_then(|g| g.clone()).unwrap_or_default();
                let _ = std::fs::write(&hang_path, case);
                eprintln!("NQV-CASE-TIMEOUT no case boundary for {secs}s; case written to {hang_path}");
                std::process::exit(5);
            }
        }
    });
}

#[derive(Clone, Debug)]
pub struct Violation {
    /// deterministic signature of the disagreement (no names, sizes or seeds)
    pub sig: String,
    /// human readable detail
    pub detail: String,
    /// self-contained replay case
    pub replay: Value,
}

#[derive(Default)]
pub struct Report {
    pub property: String,
    pub evaluations: u64,
    pub digests: BTreeSet<u64>,
    pub counters: BTreeMap<String, u64>,
    pub samples: Vec<Value>,
    pub violations: Vec<Violation>,
    pub sig_counts: BTreeMap<String, u64>,
    pub notes: BTreeSet<String>,
    pub inconclusive: Vec<String>,
    pub exhaustive: Option<bool>,
    pub max_samples: usize,
    /// trace mode: the case about to run is written here first, so that a process that dies
    /// (abort, stack overflow, hang) leaves its last input behind
    pub trace_path: Option<String>,
}

impl Report {
    pub fn new(property: &str) -> Self {
        Report { property: property.to_string(), max_samples: 4, trace_path: std::env::var("NQV_TRACE").ok(), ..Default::default() }
    }
    pub fn count(&mut self, key: &str) {
        *self.counters.entry(key.to_string()).or_insert(0) += 1;
    }
    pub fn add(&mut self, key: &str, n: u64) {
        *self.counters.entry(key.to_string()).or_insert(0) += n;
    }
    pub fn trace_case(&self, f: impl FnOnce() -> Value) {
        HEARTBEAT.fetch_add(1, std::sync::atomic::Ordering::Relaxed);
        if let Some(p) = &self.trace_path {
            let _ = std::fs::write(p, serde_json::to_string(&f()).unwrap_or_default());
        } else if KEEP_LAST.load(std::sync::atomic::Ordering::Relaxed) {
            if let Ok(mut g) = LAST_CASE.lock() {
                *g = Some(serde_json::to_string(&f()).unwrap_or_default());
            }
        }
    }
    pub fn eval(&mut self) {
        HEARTBEAT.fetch_add(1, std::sync::atomic::Ordering::Relaxed);
        self.evaluations += 1;
    }
    /// register a distinct non-trivial case by its canonical text
    pub fn nontrivial(&mut self, canonical: &str) {
        self.digests.insert(hash_str(canonical));
    }
    pub fn nontrivial_digest(&mut self, d: u64) {
        self.digests.insert(d);
    }
    pub fn sample(&mut self, v: Value) {
        if self.samples.len() < self.max_samples {
            self.samples.push(v);
        }
    }
    pub fn note(&mut self, s: &str) {
        self.notes.insert(s.to_string());
    }
    pub fn inconclusive(&mut self, s: String) {
        if self.inconclusive.len() < 20 {
            self.inconclusive.push(s);
        }
    }
    pub fn violation(&mut self, v: Violation) {
        let c = self.sig_counts.entry(v.sig.clone()).or_insert(0);
        *c += 1;
        if *c <= 2 {
            self.violations.push(v);
        }
    }
    pub fn violations(&mut self, vs: Vec<Violation>) {
        for v in vs {
            self.violation(v);
        }
    }
    pub fn to_json(&self) -> Value {
        json!({
            "property": self.property,
            "evaluations": self.evaluations,
            "digests": self.digests.iter().map(|d| format!("{d:016x}")).collect::<Vec<_>>(),
            "counters": self.counters,
            "samples": self.samples,
            "violations": self.violations.iter().map(|v| json!({"sig": v.sig, "detail": v.detail, "replay": v.replay})).collect::<Vec<_>>(),
            "sig_counts": self.sig_counts,
            "notes": self.notes,
            "inconclusive": self.inconclusive,
            "exhaustive": self.exhaustive,
        })
    }
}

/// truncate long strings for samples / details
pub fn clip(s: &str, n: usize) -> String {
    if s.chars().count() <= n {
        s.to_string()
    } else {
        let t: String = s.chars().take(n).collect();
        format!("{t}…[{} chars]", s.chars().count())
    }
}
