//! Shard report: what a monitor observed. Written as JSON by each shard process and
//! aggregated by /verif/check into evidence/<id>.json.

use std::collections::{BTreeMap, BTreeSet};

use serde_json::{Value, json};

use crate::rng::hash_str;

#[derive(Clone, Debug)]
pub struct Violation {
    /// deterministic signature of the disagreement (no names, sizes or seeds)
    pub sig: String,
    /// human readable detail
    pub detail: String,
    /// self-contained replay case
    pub replay: Value,
}

#[derive(Default)]
pub struct Report {
    pub property: String,
    pub evaluations: u64,
    pub digests: BTreeSet<u64>,
    pub counters: BTreeMap<String, u64>,
    pub samples: Vec<Value>,
    pub violations: Vec<Violation>,
    pub sig_counts: BTreeMap<String, u64>,
    pub notes: BTreeSet<String>,
    pub inconclusive: Vec<String>,
    pub exhaustive: Option<bool>,
    pub max_samples: usize,
    /// trace mode: the case about to run is written here first, so that a process that dies
    /// (abort, stack overflow, hang) leaves its last input behind
    pub trace_path: Option<String>,
}

impl Report {
    pub fn new(property: &str) -> Self {
        Report { property: property.to_string(), max_samples: 4, trace_path: std::env::var("NQV_TRACE").ok(), ..Default::default() }
    }
    pub fn count(&mut self, key: &str) {
        *self.counters.entry(key.to_string()).or_insert(0) += 1;
    }
    pub fn add(&mut self, key: &str, n: u64) {
        *self.counters.entry(key.to_string()).or_insert(0) += n;
    }
    pub fn trace_case(&self, f: impl FnOnce() -> Value) {
        if let Some(p) = &self.trace_path {
            let _ = std::fs::write(p, serde_json::to_string(&f()).unwrap_or_default());
        }
    }
    pub fn eval(&mut self) {
        self.evaluations += 1;
    }
    /// register a distinct non-trivial case by its canonical text
    pub fn nontrivial(&mut self, canonical: &str) {
        self.digests.insert(hash_str(canonical));
    }
    pub fn nontrivial_digest(&mut self, d: u64) {
        self.digests.insert(d);
    }
    pub fn sample(&mut self, v: Value) {
        if self.samples.len() < self.max_samples {
            self.samples.push(v);
        }
    }
    pub fn note(&mut self, s: &str) {
        self.notes.insert(s.to_string());
    }
    pub fn inconclusive(&mut self, s: String) {
        if self.inconclusive.len() < 20 {
            self.inconclusive.push(s);
        }
    }
    pub fn violation(&mut self, v: Violation) {
        let c = self.sig_counts.entry(v.sig.clone()).or_insert(0);
        *c += 1;
        if *c <= 2 {
            self.violations.push(v);
        }
    }
    pub fn violations(&mut self, vs: Vec<Violation>) {
        for v in vs {
            self.violation(v);
        }
    }
    pub fn to_json(&self) -> Value {
        json!({
            "property": self.property,
            "evaluations": self.evaluations,
            "digests": self.digests.iter().map(|d| format!("{d:016x}")).collect::<Vec<_>>(),
            "counters": self.counters,
            "samples": self.samples,
            "violations": self.violations.iter().map(|v| json!({"sig": v.sig, "detail": v.detail, "replay": v.replay})).collect::<Vec<_>>(),
            "sig_counts": self.sig_counts,
            "notes": self.notes,
            "inconclusive": self.inconclusive,
            "exhaustive": self.exhaustive,
        })
    }
}

/// truncate long strings for samples / details
pub fn clip(s: &str, n: usize) -> String {
    if s.chars().count() <= n {
        s.to_string()
    } else {
        let t: String = s.chars().take(n).collect();
        format!("{t}…[{} chars]", s.chars().count())
    }
}
