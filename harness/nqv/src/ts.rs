//! Reader for the TypeScript subset that nitrogql emits: lexer, parser, scope resolution,
//! type-level evaluation to a normal form, canonical forms and observational membership of
//! JSON-like abstract values. (tsc is not available in the sandbox; the fidelity of this
//! evaluator to TypeScript is part of the trusted base of C01, C02, C09, C10, C15, C17.)

use std::collections::BTreeMap;
use std::rc::Rc;

// ------------------------------------------------------------------------------------ lexer

#[derive(Clone, Debug, PartialEq)]
pub enum Tok {
    Ident(String),
    Str(String),
    Num(String),
    Punct(&'static str),
    /// a template literal or anything else we skip as an opaque expression token
    Template(String),
    Eof,
}

#[derive(Clone, Debug)]
pub struct Token {
    pub t: Tok,
    pub byte: usize,
}

const PUNCTS: &[&str] = &["=>", "...", "{", "}", "(", ")", "[", "]", "<", ">", ";", ":", ",", ".", "|", "&", "=", "?", "*", "-", "+", "!", "/"];

pub fn lex(src: &str) -> Result<Vec<Token>, String> {
    let b = src.as_bytes();
    let mut i = 0;
    let mut out = vec![];
    while i < b.len() {
        let c = b[i];
        if c.is_ascii_whitespace() {
            i += 1;
            continue;
        }
        if c == b'/' && b.get(i + 1) == Some(&b'/') {
            while i < b.len() && b[i] != b'\n' {
                i += 1;
            }
            continue;
        }
        if c == b'/' && b.get(i + 1) == Some(&b'*') {
            match src[i + 2..].find("*/") {
                Some(k) => i = i + 2 + k + 2,
                None => return Err("unterminated block comment".into()),
            }
            continue;
        }
        if c == b'"' || c == b'\'' {
            let q = c;
            let start = i;
            i += 1;
            let mut s = String::new();
            loop {
                let Some(&d) = b.get(i) else { return Err("unterminated string".into()) };
                if d == q {
                    i += 1;
                    break;
                }
                if d == b'\n' {
                    return Err("newline in string literal".into());
                }
                if d == b'\\' {
                    let e = *b.get(i + 1).ok_or("dangling escape")?;
                    match e {
                        b'n' => s.push('\n'),
                        b't' => s.push('\t'),
                        b'r' => s.push('\r'),
                        b'u' => {
                            // \uXXXX or \u{...}
                            if b.get(i + 2) == Some(&b'{') {
                                let end = src[i + 3..].find('}').ok_or("bad \\u{")? + i + 3;
                                let cp = u32::from_str_radix(&src[i + 3..end], 16).map_err(|_| "bad \\u{}")?;
                                s.push(char::from_u32(cp).ok_or("bad code point")?);
                                i = end + 1;
                                continue;
                            }
                            let h = src.get(i + 2..i + 6).ok_or("bad \\u")?;
                            let cp = u32::from_str_radix(h, 16).map_err(|_| "bad \\u")?;
                            s.push(char::from_u32(cp).unwrap_or('\u{fffd}'));
                            i += 6;
                            continue;
                        }
                        other => s.push(other as char),
                    }
                    i += 2;
                    continue;
                }
                let ch = src[i..].chars().next().unwrap();
                s.push(ch);
                i += ch.len_utf8();
            }
            out.push(Token { t: Tok::Str(s), byte: start });
            continue;
        }
        if c == b'`' {
            let start = i;
            match crate::jsread::eval_template(src, i) {
                Ok((v, end)) => {
                    out.push(Token { t: Tok::Template(v), byte: start });
                    i = end;
                }
                Err(e) => return Err(format!("template literal: {e}")),
            }
            continue;
        }
        if c.is_ascii_digit() {
            let start = i;
            while i < b.len() && (b[i].is_ascii_alphanumeric() || b[i] == b'.') {
                i += 1;
            }
            out.push(Token { t: Tok::Num(src[start..i].to_string()), byte: start });
            continue;
        }
        let ch = src[i..].chars().next().unwrap();
        if ch == '_' || ch == '$' || ch.is_alphabetic() {
            let start = i;
            while i < b.len() {
                let ch = src[i..].chars().next().unwrap();
                if ch == '_' || ch == '$' || ch.is_alphanumeric() {
                    i += ch.len_utf8();
                } else {
                    break;
                }
            }
            out.push(Token { t: Tok::Ident(src[start..i].to_string()), byte: start });
            continue;
        }
        let mut matched = false;
        for p in PUNCTS {
            if src[i..].starts_with(p) {
                out.push(Token { t: Tok::Punct(p), byte: i });
                i += p.len();
                matched = true;
                break;
            }
        }
        if !matched {
            return Err(format!("unexpected character {ch:?} at byte {i}"));
        }
    }
    out.push(Token { t: Tok::Eof, byte: src.len() });
    Ok(out)
}

// ------------------------------------------------------------------------------------ AST

#[derive(Clone, Debug, PartialEq)]
pub struct Member {
    pub name: String,
    pub optional: bool,
    pub readonly: bool,
    pub ty: Ty,
}

#[derive(Clone, Debug, PartialEq)]
pub enum Ty {
    Ref(Vec<String>, Vec<Ty>),
    Lit(String),
    NumLit(String),
    Obj(Vec<Member>),
    /// { [K in C]?: V } ; optional: Some(true) for `?`, Some(false) for `-?`
    Mapped { var: String, constraint: Box<Ty>, optional: Option<bool>, value: Box<Ty> },
    Array(Box<Ty>, bool),
    Union(Vec<Ty>),
    Inter(Vec<Ty>),
    Cond { check: Box<Ty>, ext: Box<Ty>, then: Box<Ty>, els: Box<Ty> },
    Infer(String),
    Keyof(Box<Ty>),
    Index(Box<Ty>, Box<Ty>),
    Func(Vec<(String, Ty)>, Box<Ty>),
}

#[derive(Clone, Debug)]
pub enum Stmt {
    Import { what: String, ns_alias: Option<String>, from: String },
    Alias { exported: bool, name: String, params: Vec<(String, Option<Ty>)>, ty: Ty, byte: usize },
    /// export type { local as exported }
    ExportTypes(Vec<(String, String)>),
    /// export { local as exported } (values)
    ExportValues(Vec<(String, String)>),
    Namespace { exported: bool, name: String, body: Vec<Stmt> },
    Const { exported: bool, declared: bool, name: String, ty: Option<Ty>, has_value: bool, byte: usize },
}

pub struct P<'a> {
    toks: Vec<Token>,
    i: usize,
    src: &'a str,
}

type R<T> = Result<T, String>;

impl<'a> P<'a> {
    pub fn new(src: &'a str) -> R<P<'a>> {
        Ok(P { toks: lex(src)?, i: 0, src })
    }
    fn t(&self) -> &Tok {
        &self.toks[self.i].t
    }
    fn la(&self, n: usize) -> &Tok {
        &self.toks[(self.i + n).min(self.toks.len() - 1)].t
    }
    fn err<T>(&self, m: &str) -> R<T> {
        let b = self.toks[self.i].byte;
        let ctx: String = self.src[b..].chars().take(30).collect();
        Err(format!("{m} at byte {b}: {ctx:?}"))
    }
    fn is_p(&self, p: &str) -> bool {
        matches!(self.t(), Tok::Punct(q) if *q == p)
    }
    fn eat_p(&mut self, p: &str) -> bool {
        if self.is_p(p) {
            self.i += 1;
            true
        } else {
            false
        }
    }
    fn expect_p(&mut self, p: &str) -> R<()> {
        if self.eat_p(p) { Ok(()) } else { self.err(&format!("expected {p:?}")) }
    }
    fn is_kw(&self, k: &str) -> bool {
        matches!(self.t(), Tok::Ident(s) if s == k)
    }
    fn eat_kw(&mut self, k: &str) -> bool {
        if self.is_kw(k) {
            self.i += 1;
            true
        } else {
            false
        }
    }
    fn ident(&mut self) -> R<String> {
        match self.t().clone() {
            Tok::Ident(s) => {
                self.i += 1;
                Ok(s)
            }
            _ => self.err("expected identifier"),
        }
    }

    // ---- types
    pub fn ty(&mut self) -> R<Ty> {
        // function type: ( ident [?]: ... ) =>   — detect by scanning to the matching paren followed by =>
        if self.is_p("(") && self.paren_is_function() {
            self.i += 1;
            let mut params = vec![];
            while !self.is_p(")") {
                let n = self.ident()?;
                self.eat_p("?");
                self.expect_p(":")?;
                params.push((n, self.ty()?));
                if !self.eat_p(",") {
                    break;
                }
            }
            self.expect_p(")")?;
            self.expect_p("=>")?;
            let r = self.ty()?;
            return Ok(Ty::Func(params, Box::new(r)));
        }
        let check = self.union()?;
        if self.is_kw("extends") {
            self.i += 1;
            let ext = self.union()?;
            self.expect_p("?")?;
            let then = self.ty()?;
            self.expect_p(":")?;
            let els = self.ty()?;
            return Ok(Ty::Cond { check: Box::new(check), ext: Box::new(ext), then: Box::new(then), els: Box::new(els) });
        }
        Ok(check)
    }

    fn paren_is_function(&self) -> bool {
        let mut depth = 0i32;
        let mut k = self.i;
        while k < self.toks.len() {
            match &self.toks[k].t {
                Tok::Punct("(") => depth += 1,
                Tok::Punct(")") => {
                    depth -= 1;
                    if depth == 0 {
                        return matches!(self.toks.get(k + 1).map(|t| &t.t), Some(Tok::Punct("=>")));
                    }
                }
                Tok::Eof => return false,
                _ => {}
            }
            k += 1;
        }
        false
    }

    fn union(&mut self) -> R<Ty> {
        self.eat_p("|");
        let mut items = vec![self.inter()?];
        while self.eat_p("|") {
            items.push(self.inter()?);
        }
        Ok(if items.len() == 1 { items.pop().unwrap() } else { Ty::Union(items) })
    }

    fn inter(&mut self) -> R<Ty> {
        self.eat_p("&");
        let mut items = vec![self.postfix()?];
        while self.eat_p("&") {
            items.push(self.postfix()?);
        }
        Ok(if items.len() == 1 { items.pop().unwrap() } else { Ty::Inter(items) })
    }

    fn postfix(&mut self) -> R<Ty> {
        if self.is_kw("keyof") {
            self.i += 1;
            let t = self.postfix()?;
            return Ok(Ty::Keyof(Box::new(t)));
        }
        if self.is_kw("readonly") {
            self.i += 1;
            let t = self.postfix()?;
            return Ok(match t {
                Ty::Array(inner, _) => Ty::Array(inner, true),
                other => other,
            });
        }
        if self.is_kw("infer") {
            self.i += 1;
            return Ok(Ty::Infer(self.ident()?));
        }
        let mut t = self.primary()?;
        loop {
            if self.is_p("[") {
                if matches!(self.la(1), Tok::Punct("]")) {
                    self.i += 2;
                    t = Ty::Array(Box::new(t), false);
                } else {
                    self.i += 1;
                    let idx = self.ty()?;
                    self.expect_p("]")?;
                    t = Ty::Index(Box::new(t), Box::new(idx));
                }
            } else {
                break;
            }
        }
        Ok(t)
    }

    fn primary(&mut self) -> R<Ty> {
        match self.t().clone() {
            Tok::Punct("(") => {
                self.i += 1;
                let t = self.ty()?;
                self.expect_p(")")?;
                Ok(t)
            }
            Tok::Punct("{") => self.object(),
            Tok::Str(s) => {
                self.i += 1;
                Ok(Ty::Lit(s))
            }
            Tok::Num(n) => {
                self.i += 1;
                Ok(Ty::NumLit(n))
            }
            Tok::Ident(_) => {
                let mut path = vec![self.ident()?];
                while self.is_p(".") {
                    self.i += 1;
                    path.push(self.ident()?);
                }
                let mut args = vec![];
                if self.is_p("<") {
                    self.i += 1;
                    loop {
                        args.push(self.ty()?);
                        if !self.eat_p(",") {
                            break;
                        }
                    }
                    self.expect_p(">")?;
                }
                Ok(Ty::Ref(path, args))
            }
            _ => self.err("expected a type"),
        }
    }

    fn object(&mut self) -> R<Ty> {
        self.expect_p("{")?;
        // mapped type?
        let save = self.i;
        let mut ro = false;
        if self.is_kw("readonly") && matches!(self.la(1), Tok::Punct("[")) {
            ro = true;
            self.i += 1;
        }
        if self.is_p("[") && matches!(self.la(1), Tok::Ident(_)) && matches!(self.la(2), Tok::Ident(k) if k == "in") {
            self.i += 1;
            let var = self.ident()?;
            self.i += 1; // in
            let constraint = self.ty()?;
            self.expect_p("]")?;
            let optional = if self.eat_p("-") {
                self.expect_p("?")?;
                Some(false)
            } else if self.eat_p("+") {
                self.expect_p("?")?;
                Some(true)
            } else if self.eat_p("?") {
                Some(true)
            } else {
                None
            };
            self.expect_p(":")?;
            let value = self.ty()?;
            self.eat_p(";");
            self.eat_p(",");
            self.expect_p("}")?;
            let _ = ro;
            return Ok(Ty::Mapped { var, constraint: Box::new(constraint), optional, value: Box::new(value) });
        }
        self.i = save;
        let mut members = vec![];
        while !self.is_p("}") {
            let mut readonly = false;
            if self.is_kw("readonly") && !matches!(self.la(1), Tok::Punct(":") | Tok::Punct("?")) {
                readonly = true;
                self.i += 1;
            }
            let name = match self.t().clone() {
                Tok::Ident(s) => {
                    self.i += 1;
                    s
                }
                Tok::Str(s) => {
                    self.i += 1;
                    s
                }
                _ => return self.err("expected a property name"),
            };
            let optional = self.eat_p("?");
            self.expect_p(":")?;
            let ty = self.ty()?;
            if !self.eat_p(";") {
                self.eat_p(",");
            }
            members.push(Member { name, optional, readonly, ty });
        }
        self.expect_p("}")?;
        Ok(Ty::Obj(members))
    }

    // ---- statements
    pub fn module(&mut self) -> R<Vec<Stmt>> {
        let mut out = vec![];
        while !matches!(self.t(), Tok::Eof) {
            if let Some(s) = self.stmt()? {
                out.push(s);
            }
        }
        Ok(out)
    }

    fn skip_expression(&mut self) -> R<()> {
        // skip a value expression up to the terminating ';' at depth 0 (object / array literals, `as const`, `as unknown as T`)
        let mut depth = 0i32;
        loop {
            match self.t() {
                Tok::Eof => return self.err("unterminated expression"),
                Tok::Punct("{") | Tok::Punct("(") | Tok::Punct("[") => depth += 1,
                Tok::Punct("}") | Tok::Punct(")") | Tok::Punct("]") => depth -= 1,
                Tok::Punct(";") if depth == 0 => {
                    self.i += 1;
                    return Ok(());
                }
                _ => {}
            }
            if depth < 0 {
                return self.err("unbalanced expression");
            }
            self.i += 1;
        }
    }

    fn stmt(&mut self) -> R<Option<Stmt>> {
        if self.eat_p(";") {
            return Ok(None);
        }
        if self.is_kw("import") {
            self.i += 1;
            self.eat_kw("type");
            let mut ns_alias = None;
            let mut what = String::new();
            if self.eat_p("*") {
                if !self.eat_kw("as") {
                    return self.err("expected `as` after import *");
                }
                let a = self.ident()?;
                what = format!("* as {a}");
                ns_alias = Some(a);
            } else if self.eat_p("{") {
                while !self.is_p("}") {
                    let n = self.ident()?;
                    what.push_str(&n);
                    what.push(' ');
                    if self.eat_kw("as") {
                        self.ident()?;
                    }
                    self.eat_p(",");
                }
                self.expect_p("}")?;
            } else {
                what = self.ident()?;
            }
            if !self.eat_kw("from") {
                return self.err("expected `from`");
            }
            let from = match self.t().clone() {
                Tok::Str(s) => {
                    self.i += 1;
                    s
                }
                _ => return self.err("expected module specifier"),
            };
            self.eat_p(";");
            return Ok(Some(Stmt::Import { what, ns_alias, from }));
        }
        let mut exported = false;
        let mut declared = false;
        if self.is_kw("export") {
            self.i += 1;
            exported = true;
            if self.is_kw("type") && matches!(self.la(1), Tok::Punct("{")) {
                self.i += 1;
                let list = self.export_list()?;
                return Ok(Some(Stmt::ExportTypes(list)));
            }
            if self.is_p("{") {
                let list = self.export_list()?;
                return Ok(Some(Stmt::ExportValues(list)));
            }
            if self.is_kw("default") {
                self.i += 1;
                let n = self.ident()?;
                self.eat_p(";");
                return Ok(Some(Stmt::ExportValues(vec![(n, "default".into())])));
            }
        }
        if self.eat_kw("declare") {
            declared = true;
        }
        if self.is_kw("namespace") {
            self.i += 1;
            let name = self.ident()?;
            self.expect_p("{")?;
            let mut body = vec![];
            while !self.is_p("}") {
                if matches!(self.t(), Tok::Eof) {
                    return self.err("unterminated namespace");
                }
                if let Some(s) = self.stmt()? {
                    body.push(s);
                }
            }
            self.expect_p("}")?;
            return Ok(Some(Stmt::Namespace { exported, name, body }));
        }
        if self.is_kw("type") {
            let byte = self.toks[self.i].byte;
            self.i += 1;
            let name = self.ident()?;
            let mut params = vec![];
            if self.eat_p("<") {
                loop {
                    let p = self.ident()?;
                    let c = if self.eat_kw("extends") { Some(self.ty()?) } else { None };
                    params.push((p, c));
                    if !self.eat_p(",") {
                        break;
                    }
                }
                self.expect_p(">")?;
            }
            self.expect_p("=")?;
            let ty = self.ty()?;
            self.eat_p(";");
            return Ok(Some(Stmt::Alias { exported, name, params, ty, byte }));
        }
        if self.is_kw("const") {
            let byte = self.toks[self.i].byte;
            self.i += 1;
            let name = self.ident()?;
            let ty = if self.eat_p(":") { Some(self.ty()?) } else { None };
            let mut has_value = false;
            if self.eat_p("=") {
                has_value = true;
                self.skip_expression()?;
            } else {
                self.eat_p(";");
            }
            return Ok(Some(Stmt::Const { exported, declared, name, ty, has_value, byte }));
        }
        self.err("unexpected statement")
    }

    fn export_list(&mut self) -> R<Vec<(String, String)>> {
        self.expect_p("{")?;
        let mut out = vec![];
        while !self.is_p("}") {
            let l = self.ident()?;
            let e = if self.eat_kw("as") { self.ident()? } else { l.clone() };
            out.push((l, e));
            self.eat_p(",");
        }
        self.expect_p("}")?;
        self.eat_p(";");
        Ok(out)
    }
}

pub fn parse_module(src: &str) -> R<Vec<Stmt>> {
    P::new(src)?.module()
}

pub fn parse_type(src: &str) -> R<Ty> {
    let mut p = P::new(src)?;
    let t = p.ty()?;
    if !matches!(p.t(), Tok::Eof) {
        return p.err("trailing tokens after type");
    }
    Ok(t)
}

// ------------------------------------------------------------------------------------ scopes

#[derive(Clone, Debug)]
pub struct AliasDef {
    pub params: Vec<String>,
    pub ty: Ty,
    /// scope in which the body is evaluated
    pub scope: usize,
    pub byte: usize,
}

#[derive(Debug, Default)]
pub struct Scope {
    pub parent: Option<usize>,
    pub name: String,
    /// local type bindings (declared aliases)
    pub aliases: BTreeMap<String, AliasDef>,
    /// exported name -> local name
    pub exports: BTreeMap<String, String>,
    /// nested namespaces: name -> scope index
    pub namespaces: BTreeMap<String, usize>,
    /// namespace imports: alias -> program module index
    pub ns_imports: BTreeMap<String, usize>,
    pub consts: BTreeMap<String, (Option<Ty>, bool, bool)>,
    pub value_exports: BTreeMap<String, String>,
}

#[derive(Debug, Default)]
pub struct Program {
    pub scopes: Vec<Scope>,
    /// module index -> root scope index
    pub modules: Vec<usize>,
    pub imports: Vec<Vec<(String, String)>>,
}

impl Program {
    pub fn add_module(&mut self, stmts: &[Stmt], ns_import_target: &dyn Fn(&str) -> Option<usize>) -> usize {
        let root = self.scopes.len();
        self.scopes.push(Scope { name: "<module>".into(), ..Default::default() });
        let m = self.modules.len();
        self.modules.push(root);
        self.imports.push(vec![]);
        self.fill(root, m, stmts, ns_import_target);
        m
    }

    fn fill(&mut self, sc: usize, m: usize, stmts: &[Stmt], ns_import_target: &dyn Fn(&str) -> Option<usize>) {
        for s in stmts {
            match s {
                Stmt::Import { what, ns_alias, from } => {
                    self.imports[m].push((what.clone(), from.clone()));
                    if let Some(a) = ns_alias {
                        if let Some(t) = ns_import_target(from) {
                            self.scopes[sc].ns_imports.insert(a.clone(), t);
                        }
                    }
                }
                Stmt::Alias { exported, name, params, ty, byte } => {
                    self.scopes[sc].aliases.insert(name.clone(), AliasDef { params: params.iter().map(|(p, _)| p.clone()).collect(), ty: ty.clone(), scope: sc, byte: *byte });
                    if *exported {
                        self.scopes[sc].exports.insert(name.clone(), name.clone());
                    }
                }
                Stmt::ExportTypes(list) => {
                    for (l, e) in list {
                        self.scopes[sc].exports.insert(e.clone(), l.clone());
                    }
                }
                Stmt::ExportValues(list) => {
                    for (l, e) in list {
                        self.scopes[sc].value_exports.insert(e.clone(), l.clone());
                    }
                }
                Stmt::Namespace { exported, name, body } => {
                    let child = self.scopes.len();
                    self.scopes.push(Scope { parent: Some(sc), name: name.clone(), ..Default::default() });
                    self.scopes[sc].namespaces.insert(name.clone(), child);
                    let _ = exported;
                    self.fill(child, m, body, ns_import_target);
                }
                Stmt::Const { exported, declared, name, ty, has_value, .. } => {
                    self.scopes[sc].consts.insert(name.clone(), (ty.clone(), *declared, *has_value));
                    if *exported {
                        self.scopes[sc].value_exports.insert(name.clone(), name.clone());
                    }
                }
            }
        }
    }
}

// ------------------------------------------------------------------------------------ normal form

#[derive(Clone, Debug, PartialEq, Eq, PartialOrd, Ord)]
pub struct Prop {
    pub ty: NF,
    pub optional: bool,
    pub readonly: bool,
}

#[derive(Clone, Debug, PartialEq, Eq, PartialOrd, Ord)]
pub enum NF {
    Never,
    Unknown,
    /// string / number / boolean / a global (Date, ...) / an opaque generic application printed as text
    Atom(String),
    Lit(String),
    Null,
    Undefined,
    Array(Box<NF>, bool),
    Obj(BTreeMap<String, Prop>),
    Union(Vec<NF>),
    Func,
    /// a (possibly recursive) object-type alias left unexpanded: (scope index, local alias name)
    Named(usize, String),
}

pub fn union_of(items: Vec<NF>) -> NF {
    let mut flat = vec![];
    for i in items {
        match i {
            NF::Union(v) => flat.extend(v),
            NF::Never => {}
            other => flat.push(other),
        }
    }
    if flat.iter().any(|x| *x == NF::Unknown) {
        return NF::Unknown;
    }
    flat.sort();
    flat.dedup();
    match flat.len() {
        0 => NF::Never,
        1 => flat.pop().unwrap(),
        _ => NF::Union(flat),
    }
}

type Env = Rc<BTreeMap<String, NF>>;

pub struct Eval<'p> {
    pub prog: &'p Program,
    pub fuel: std::cell::Cell<u32>,
    pub errors: std::cell::RefCell<Vec<String>>,
}

impl<'p> Eval<'p> {
    pub fn new(prog: &'p Program) -> Eval<'p> {
        Eval { prog, fuel: std::cell::Cell::new(3_000_000), errors: Default::default() }
    }
    pub fn out_of_fuel(&self) -> bool {
        self.fuel.get() == 0
    }
    fn err(&self, m: String) {
        let mut e = self.errors.borrow_mut();
        if e.len() < 10 {
            e.push(m);
        }
    }

    /// look a (qualified) name up from scope `sc`: Some((scope, local alias name))
    pub fn resolve(&self, sc: usize, path: &[String]) -> Option<(usize, String)> {
        // first segment: walk outwards
        let mut cur = Some(sc);
        let first = &path[0];
        while let Some(s) = cur {
            let scope = &self.prog.scopes[s];
            if path.len() == 1 {
                if scope.aliases.contains_key(first) {
                    return Some((s, first.clone()));
                }
            } else if let Some(&ns) = scope.namespaces.get(first) {
                return self.resolve_member(ns, &path[1..]);
            } else if let Some(&m) = scope.ns_imports.get(first) {
                return self.resolve_member(self.prog.modules[m], &path[1..]);
            }
            cur = scope.parent;
        }
        None
    }

    /// members of a namespace / module are its *exported* names
    fn resolve_member(&self, sc: usize, path: &[String]) -> Option<(usize, String)> {
        let scope = &self.prog.scopes[sc];
        if path.len() == 1 {
            let local = scope.exports.get(&path[0])?;
            if scope.aliases.contains_key(local) {
                return Some((sc, local.clone()));
            }
            return None;
        }
        let ns = scope.namespaces.get(&path[0])?;
        self.resolve_member(*ns, &path[1..])
    }

    pub fn eval(&self, sc: usize, t: &Ty, env: &Env) -> NF {
        if self.fuel.get() == 0 {
            self.err("evaluation fuel exhausted".into());
            return NF::Unknown;
        }
        self.fuel.set(self.fuel.get() - 1);
        match t {
            Ty::Lit(s) => NF::Lit(s.clone()),
            Ty::NumLit(n) => NF::Atom(format!("#{n}")),
            Ty::Array(inner, ro) => NF::Array(Box::new(self.eval(sc, inner, env)), *ro),
            Ty::Union(items) => union_of(items.iter().map(|i| self.eval(sc, i, env)).collect()),
            Ty::Inter(items) => {
                let mut acc: Option<NF> = None;
                for i in items {
                    let v = self.eval(sc, i, env);
                    acc = Some(match acc {
                        None => v,
                        Some(a) => self.intersect(&a, &v),
                    });
                }
                acc.unwrap_or(NF::Unknown)
            }
            Ty::Func(..) => NF::Func,
            Ty::Infer(n) => NF::Atom(format!("infer {n}")),
            Ty::Obj(members) => {
                let mut m = BTreeMap::new();
                for mem in members {
                    if m.contains_key(&mem.name) {
                        self.err(format!("duplicate property {} in an object type", mem.name));
                    }
                    m.insert(mem.name.clone(), Prop { ty: self.eval(sc, &mem.ty, env), optional: mem.optional, readonly: mem.readonly });
                }
                NF::Obj(m)
            }
            Ty::Keyof(inner) => {
                let v = self.eval(sc, inner, env);
                self.keyof(&v)
            }
            Ty::Index(obj, idx) => {
                let o = self.eval(sc, obj, env);
                let i = self.eval(sc, idx, env);
                self.index(&o, &i)
            }
            Ty::Mapped { var, constraint, optional, value } => {
                // homomorphic when the constraint is `keyof X`
                let (keys, source): (NF, Option<NF>) = match &**constraint {
                    Ty::Keyof(x) => {
                        let src = self.eval(sc, x, env);
                        (self.keyof(&src), Some(self.deref(&src)))
                    }
                    other => (self.eval(sc, other, env), None),
                };
                let mut out = BTreeMap::new();
                for k in self.union_items(&keys) {
                    let NF::Lit(key) = &k else { continue };
                    let mut e2 = (**env).clone();
                    e2.insert(var.clone(), k.clone());
                    let v = self.eval(sc, value, &Rc::new(e2));
                    let (mut opt, ro) = match &source {
                        Some(NF::Obj(m)) => m.get(key).map(|p| (p.optional, p.readonly)).unwrap_or((false, false)),
                        _ => (false, false),
                    };
                    if let Some(o) = optional {
                        opt = *o;
                    }
                    out.insert(key.clone(), Prop { ty: v, optional: opt, readonly: ro });
                }
                NF::Obj(out)
            }
            Ty::Cond { check, ext, then, els } => {
                let c = self.eval(sc, check, env);
                // distribute over unions when the checked type is a naked type parameter
                let distribute = matches!(&**check, Ty::Ref(p, a) if p.len() == 1 && a.is_empty() && env.contains_key(&p[0]));
                let items = if distribute { self.union_items(&c) } else { vec![c] };
                let mut results = vec![];
                for it in items {
                    let mut inferred: BTreeMap<String, NF> = BTreeMap::new();
                    if self.matches_pattern(sc, &it, ext, env, &mut inferred) {
                        let mut e2 = (**env).clone();
                        e2.extend(inferred);
                        results.push(self.eval(sc, then, &Rc::new(e2)));
                    } else {
                        results.push(self.eval(sc, els, env));
                    }
                }
                union_of(results)
            }
            Ty::Ref(path, args) => {
                if path.len() == 1 && args.is_empty() {
                    if let Some(v) = env.get(&path[0]) {
                        return v.clone();
                    }
                }
                match self.resolve(sc, path) {
                    Some((dsc, local)) => {
                        let def = &self.prog.scopes[dsc].aliases[&local];
                        if def.params.is_empty() && matches!(def.ty, Ty::Obj(_)) {
                            return NF::Named(dsc, local);
                        }
                        let mut e2 = BTreeMap::new();
                        for (i, p) in def.params.iter().enumerate() {
                            let a = args.get(i).map(|a| self.eval(sc, a, env)).unwrap_or(NF::Unknown);
                            e2.insert(p.clone(), a);
                        }
                        self.eval(def.scope, &def.ty, &Rc::new(e2))
                    }
                    None => self.global(sc, path, args, env),
                }
            }
        }
    }

    fn global(&self, sc: usize, path: &[String], args: &[Ty], env: &Env) -> NF {
        let name = path.join(".");
        let a: Vec<NF> = args.iter().map(|x| self.eval(sc, x, env)).collect();
        match (name.as_str(), a.len()) {
            ("null", 0) => NF::Null,
            ("undefined", 0) => NF::Undefined,
            ("never", 0) => NF::Never,
            ("unknown", 0) | ("any", 0) => NF::Unknown,
            ("string", 0) | ("number", 0) | ("boolean", 0) | ("bigint", 0) | ("object", 0) | ("symbol", 0) | ("void", 0) => NF::Atom(name),
            ("Pick", 2) => {
                let NF::Obj(m) = self.deref(&a[0]) else { return NF::Unknown };
                let keys = self.union_items(&a[1]);
                NF::Obj(m.into_iter().filter(|(k, _)| keys.contains(&NF::Lit(k.clone()))).collect())
            }
            ("Omit", 2) => {
                let NF::Obj(m) = self.deref(&a[0]) else { return NF::Unknown };
                let keys = self.union_items(&a[1]);
                NF::Obj(m.into_iter().filter(|(k, _)| !keys.contains(&NF::Lit(k.clone()))).collect())
            }
            ("Extract", 2) => {
                let u = self.union_items(&a[1]);
                union_of(self.union_items(&a[0]).into_iter().filter(|x| u.iter().any(|y| self.assignable(x, y))).collect())
            }
            ("Exclude", 2) => {
                let u = self.union_items(&a[1]);
                union_of(self.union_items(&a[0]).into_iter().filter(|x| !u.iter().any(|y| self.assignable(x, y))).collect())
            }
            ("Partial", 1) => {
                let NF::Obj(m) = self.deref(&a[0]) else { return NF::Unknown };
                NF::Obj(m.into_iter().map(|(k, mut p)| {
                    p.optional = true;
                    (k, p)
                }).collect())
            }
            ("Promise", 1) => NF::Atom(format!("Promise<{}>", canon(self, &a[0]))),
            _ => {
                // an identifier that resolves to no declared alias: a global atom (Date, Record<...>, ...)
                if a.is_empty() { NF::Atom(name) } else { NF::Atom(format!("{name}<{}>", a.iter().map(|x| canon(self, x)).collect::<Vec<_>>().join(","))) }
            }
        }
    }

    pub fn deref(&self, v: &NF) -> NF {
        match v {
            NF::Named(sc, name) => {
                let def = &self.prog.scopes[*sc].aliases[name];
                self.eval(def.scope, &def.ty, &Rc::new(BTreeMap::new()))
            }
            other => other.clone(),
        }
    }

    fn union_items(&self, v: &NF) -> Vec<NF> {
        match v {
            NF::Union(items) => items.clone(),
            NF::Never => vec![],
            other => vec![other.clone()],
        }
    }

    fn keyof(&self, v: &NF) -> NF {
        match self.deref(v) {
            NF::Obj(m) => union_of(m.keys().map(|k| NF::Lit(k.clone())).collect()),
            NF::Union(items) => {
                // keys common to all members
                let mut common: Option<Vec<String>> = None;
                for it in items {
                    let ks: Vec<String> = match self.deref(&it) {
                        NF::Obj(m) => m.keys().cloned().collect(),
                        _ => vec![],
                    };
                    common = Some(match common {
                        None => ks,
                        Some(c) => c.into_iter().filter(|k| ks.contains(k)).collect(),
                    });
                }
                union_of(common.unwrap_or_default().into_iter().map(NF::Lit).collect())
            }
            _ => NF::Never,
        }
    }

    fn index(&self, o: &NF, i: &NF) -> NF {
        let obj = self.deref(o);
        let mut out = vec![];
        for k in self.union_items(i) {
            match (&obj, &k) {
                (NF::Obj(m), NF::Lit(key)) => match m.get(key) {
                    Some(p) => out.push(if p.optional { union_of(vec![p.ty.clone(), NF::Undefined]) } else { p.ty.clone() }),
                    None => {
                        self.err(format!("indexed access with unknown key {key}"));
                        out.push(NF::Unknown)
                    }
                },
                _ => out.push(NF::Unknown),
            }
        }
        union_of(out)
    }

    fn intersect(&self, a: &NF, b: &NF) -> NF {
        if a == b {
            return a.clone();
        }
        match (self.deref(a), self.deref(b)) {
            (NF::Unknown, x) | (x, NF::Unknown) => x,
            (NF::Never, _) | (_, NF::Never) => NF::Never,
            (NF::Obj(x), NF::Obj(y)) => {
                let mut m = x.clone();
                for (k, p) in y {
                    match m.get(&k) {
                        None => {
                            m.insert(k, p);
                        }
                        Some(q) => {
                            let ty = self.intersect(&q.ty, &p.ty);
                            m.insert(k, Prop { ty, optional: q.optional && p.optional, readonly: q.readonly || p.readonly });
                        }
                    }
                }
                NF::Obj(m)
            }
            (NF::Union(items), other) | (other, NF::Union(items)) => union_of(items.iter().map(|i| self.intersect(i, &other)).collect()),
            (NF::Lit(s), NF::Atom(t)) | (NF::Atom(t), NF::Lit(s)) if t == "string" => NF::Lit(s),
            (x, NF::Obj(m)) | (NF::Obj(m), x) if m.is_empty() => match x {
                NF::Null | NF::Undefined => NF::Never,
                other => other,
            },
            _ => NF::Never,
        }
    }

    /// structural assignability, good enough for Extract/Exclude over literal unions
    fn assignable(&self, x: &NF, y: &NF) -> bool {
        if x == y {
            return true;
        }
        match (x, y) {
            (_, NF::Unknown) => true,
            (NF::Never, _) => true,
            (NF::Lit(_), NF::Atom(a)) => a == "string",
            (NF::Union(items), _) => items.iter().all(|i| self.assignable(i, y)),
            (_, NF::Union(items)) => items.iter().any(|i| self.assignable(x, i)),
            _ => false,
        }
    }

    /// `src extends pattern` with `infer` variables; pattern is evaluated structurally
    fn matches_pattern(&self, sc: usize, src: &NF, pattern: &Ty, env: &Env, inferred: &mut BTreeMap<String, NF>) -> bool {
        match pattern {
            Ty::Infer(v) => {
                inferred.insert(v.clone(), src.clone());
                true
            }
            Ty::Obj(members) => {
                let NF::Obj(m) = self.deref(src) else { return false };
                for mem in members {
                    match m.get(&mem.name) {
                        None => {
                            if !mem.optional {
                                return false;
                            }
                            // no inference candidate: the variable becomes unknown
                            if let Ty::Infer(v) = &mem.ty {
                                inferred.insert(v.clone(), NF::Unknown);
                            }
                        }
                        Some(p) => {
                            // a required pattern member needs a required source member
                            if !mem.optional && p.optional {
                                return false;
                            }
                            let declared = if p.optional { union_of(vec![p.ty.clone(), NF::Undefined]) } else { p.ty.clone() };
                            if !self.matches_pattern(sc, &declared, &mem.ty, env, inferred) {
                                return false;
                            }
                        }
                    }
                }
                true
            }
            Ty::Mapped { var, constraint, optional, value } => {
                // { [P in K]?: infer V } with K a literal (union): an object pattern
                let keys = self.eval(sc, constraint, env);
                let members: Vec<Member> = self
                    .union_items(&keys)
                    .into_iter()
                    .filter_map(|k| if let NF::Lit(s) = k { Some(s) } else { None })
                    .map(|k| {
                        let _ = var;
                        Member { name: k, optional: *optional == Some(true), readonly: false, ty: (**value).clone() }
                    })
                    .collect();
                self.matches_pattern(sc, src, &Ty::Obj(members), env, inferred)
            }
            other => {
                let p = self.eval(sc, other, env);
                self.assignable(src, &p)
            }
        }
    }
}

// ------------------------------------------------------------------------------------ canonical form

/// canonical text of a normal form: aliases expanded except object-type aliases (printed as @namespace.alias)
pub fn canon(ev: &Eval, v: &NF) -> String {
    match v {
        NF::Never => "never".into(),
        NF::Unknown => "unknown".into(),
        NF::Atom(a) => a.clone(),
        NF::Lit(s) => format!("{s:?}"),
        NF::Null => "null".into(),
        NF::Undefined => "undefined".into(),
        NF::Func => "<function>".into(),
        NF::Array(inner, ro) => format!("{}({})[]", if *ro { "readonly " } else { "" }, canon(ev, inner)),
        NF::Obj(m) => {
            let mut s = String::from("{");
            for (k, p) in m {
                s.push_str(&format!("{}{k}{}: {}; ", if p.readonly { "readonly " } else { "" }, if p.optional { "?" } else { "" }, canon(ev, &p.ty)));
            }
            s.push('}');
            s
        }
        NF::Union(items) => {
            let mut v: Vec<String> = items.iter().map(|i| canon(ev, i)).collect();
            v.sort();
            v.dedup();
            v.join(" | ")
        }
        NF::Named(sc, name) => {
            // exported name of the alias in its namespace, if any
            let scope = &ev.prog.scopes[*sc];
            let exported = scope.exports.iter().find(|(_, l)| *l == name).map(|(e, _)| e.clone()).unwrap_or_else(|| format!("<local {name}>"));
            format!("@{}.{}", scope.name, exported)
        }
    }
}

// ------------------------------------------------------------------------------------ membership

/// JSON-like abstract values
#[derive(Clone, Debug, PartialEq, Eq, PartialOrd, Ord)]
pub enum V {
    Null,
    /// a specific string
    Str(String),
    /// some string that equals none of the literals in play
    OtherStr,
    Num,
    Bool,
    /// an opaque inhabitant of the global type with this name (Date, ...)
    Opaque(String),
    List(Vec<V>),
    Obj(BTreeMap<String, V>),
}

impl V {
    pub fn show(&self) -> String {
        match self {
            V::Null => "null".into(),
            V::Str(s) => format!("{s:?}"),
            V::OtherStr => "<some string>".into(),
            V::Num => "<number>".into(),
            V::Bool => "<boolean>".into(),
            V::Opaque(n) => format!("<{n}>"),
            V::List(v) => format!("[{}]", v.iter().map(|x| x.show()).collect::<Vec<_>>().join(", ")),
            V::Obj(m) => format!("{{{}}}", m.iter().map(|(k, v)| format!("{k}: {}", v.show())).collect::<Vec<_>>().join(", ")),
        }
    }
}

/// is an *absent* property acceptable for a property of this type?
fn admits_undefined(ev: &Eval, t: &NF) -> bool {
    match t {
        NF::Undefined | NF::Unknown => true,
        NF::Union(items) => items.iter().any(|i| admits_undefined(ev, i)),
        NF::Atom(a) => a == "void",
        _ => false,
    }
}

pub fn member(ev: &Eval, v: &V, t: &NF, depth: usize) -> bool {
    if depth > 64 {
        return false;
    }
    match t {
        NF::Unknown => true,
        NF::Never | NF::Undefined | NF::Func => false,
        NF::Null => *v == V::Null,
        NF::Lit(s) => matches!(v, V::Str(x) if x == s),
        NF::Atom(a) => match a.as_str() {
            "string" => matches!(v, V::Str(_) | V::OtherStr),
            "number" | "bigint" => matches!(v, V::Num),
            "boolean" => matches!(v, V::Bool),
            "object" => matches!(v, V::Obj(_) | V::List(_) | V::Opaque(_)),
            other => matches!(v, V::Opaque(n) if n == other),
        },
        NF::Array(inner, _) => match v {
            V::List(items) => items.iter().all(|i| member(ev, i, inner, depth + 1)),
            _ => false,
        },
        NF::Union(items) => items.iter().any(|i| member(ev, v, i, depth + 1)),
        NF::Named(..) => member(ev, v, &ev.deref(t), depth + 1),
        NF::Obj(props) => {
            let V::Obj(m) = v else { return false };
            // values carry exactly the keys they have: extra keys are not admitted (responses have exactly the collected keys)
            for k in m.keys() {
                if !props.contains_key(k) {
                    return false;
                }
            }
            for (k, p) in props {
                match m.get(k) {
                    None => {
                        if !(p.optional || admits_undefined(ev, &p.ty)) {
                            return false;
                        }
                    }
                    Some(x) => {
                        if !member(ev, x, &p.ty, depth + 1) {
                            return false;
                        }
                    }
                }
            }
            true
        }
    }
}

// ------------------------------------------------------------------------------------ convenience

/// a program made of the schema module and (optionally) one module that imports it as a namespace
pub struct Loaded {
    pub prog: Program,
    pub schema_module: usize,
    pub other_module: Option<usize>,
}

pub fn load(schema_src: &str, other_src: Option<&str>) -> Result<Loaded, String> {
    let s = parse_module(schema_src).map_err(|e| format!("schema module: {e}"))?;
    let mut prog = Program::default();
    let sm = prog.add_module(&s, &|_| None);
    let mut other_module = None;
    if let Some(o) = other_src {
        let om = parse_module(o).map_err(|e| format!("module: {e}"))?;
        // every namespace import of the other module is taken to be the schema module (it imports nothing else as a namespace)
        other_module = Some(prog.add_module(&om, &|_| Some(sm)));
    }
    Ok(Loaded { prog, schema_module: sm, other_module })
}

impl Loaded {
    /// evaluate the alias exported as `path` (e.g. ["__OperationOutput", "User"]) from the root of module `m`
    pub fn eval_exported(&self, ev: &Eval, m: usize, path: &[&str]) -> Option<NF> {
        let root = self.prog.modules[m];
        let p: Vec<String> = path.iter().map(|s| s.to_string()).collect();
        let (sc, local) = if p.len() == 1 {
            // module-level alias: exported or local
            let scope = &self.prog.scopes[root];
            let local = scope.exports.get(&p[0]).cloned().unwrap_or_else(|| p[0].clone());
            if !scope.aliases.contains_key(&local) {
                return None;
            }
            (root, local)
        } else {
            let first = self.prog.scopes[root].namespaces.get(&p[0])?;
            ev.resolve_member(*first, &p[1..])?
        };
        let def = &self.prog.scopes[sc].aliases[&local];
        // what a reference to the alias denotes: object-type aliases stay named (they may be recursive)
        if def.params.is_empty() && matches!(def.ty, Ty::Obj(_)) {
            return Some(NF::Named(sc, local));
        }
        Some(ev.eval(def.scope, &def.ty, &Rc::new(BTreeMap::new())))
    }
}

/// Hand-checked TypeScript facts, evaluated before the evaluator is trusted. Returns the list of failures.
pub fn selftest() -> Vec<String> {
    let schema = r#"
type __Beautify<Obj> = { [K in keyof Obj]: Obj[K] } & {};
export type __SelectionSet<Orig, Obj, Others> =
  __Beautify<Pick<{
    [K in keyof Orig]: Obj extends { [P in K]?: infer V } ? V : unknown
  }, Extract<keyof Orig, keyof Obj>> & Others>;
export declare namespace __OperationOutput {
  export type String = string;
  export type ID = string;
  type __tmp_Date = Date | string;
  export type { __tmp_Date as Date };
  export type T = { __typename: "T"; id: ID; s: String | null; t: T | null; d: __tmp_Date; };
  export type U = T | V;
  export type V = { __typename: "V"; v: number | null; };
}
"#;
    let facts: &[(&str, &str)] = &[
        ("Schema.__SelectionSet<Schema.__OperationOutput.T, { id: Schema.__OperationOutput.ID; s?: never; }, { al: Schema.__OperationOutput.String | null; }>", "{al: null | string; id: string; s: undefined; }"),
        ("Schema.__SelectionSet<Schema.__OperationOutput.T, { __typename: \"T\"; nope: string; }, {}>", "{__typename: \"T\"; }"),
        ("Pick<{a: \"1\"; b?: \"2\"}, \"b\">", "{b?: \"2\"; }"),
        ("Omit<{__typename: \"X\"; a: string}, \"__typename\">", "{a: string; }"),
        ("Extract<\"a\" | \"b\" | \"c\", \"b\" | \"c\" | \"d\">", "\"b\" | \"c\""),
        ("keyof {a: string; b: number}", "\"a\" | \"b\""),
        ("{a: string} & {b: number}", "{a: string; b: number; }"),
        ("{ [K in keyof {a?: string; readonly b: number}]: boolean }", "{a?: boolean; readonly b: boolean; }"),
        ("Schema.__OperationOutput.U", "@__OperationOutput.T | @__OperationOutput.V"),
        ("Schema.__OperationOutput.Date", "Date | string"),
        ("readonly (string | null)[] | null | undefined", "null | readonly (null | string)[] | undefined"),
        ("{a: {x: string}}[\"a\"]", "{x: string; }"),
        ("string extends string ? \"y\" : \"n\"", "\"y\""),
    ];
    let mut module = String::from("import type * as Schema from \"./schema.js\";\n");
    for (i, (t, _)) in facts.iter().enumerate() {
        module.push_str(&format!("type F{i} = {t};\n"));
    }
    let mut fails = vec![];
    let l = match load(schema, Some(&module)) {
        Ok(l) => l,
        Err(e) => return vec![format!("self-test module does not parse: {e}")],
    };
    let ev = Eval::new(&l.prog);
    for (i, (t, want)) in facts.iter().enumerate() {
        match l.eval_exported(&ev, l.other_module.unwrap(), &[&format!("F{i}")]) {
            None => fails.push(format!("fact {i} not found")),
            Some(nf) => {
                let got = canon(&ev, &nf);
                if got != *want {
                    fails.push(format!("`{t}` evaluates to `{got}`, TypeScript says `{want}`"));
                }
            }
        }
    }
    // membership facts
    let t = l.eval_exported(&ev, l.other_module.unwrap(), &["F0"]).unwrap();
    let mut o = BTreeMap::new();
    o.insert("al".to_string(), V::Null);
    o.insert("id".to_string(), V::OtherStr);
    if !member(&ev, &V::Obj(o.clone()), &t, 0) {
        fails.push("{al: null, id: <string>} should be a member of fact 0 (s absent)".into());
    }
    o.insert("s".to_string(), V::OtherStr);
    if member(&ev, &V::Obj(o.clone()), &t, 0) {
        fails.push("{al, id, s: <string>} should not be a member of fact 0".into());
    }
    o.remove("s");
    o.remove("id");
    if member(&ev, &V::Obj(o), &t, 0) {
        fails.push("{al} without id should not be a member of fact 0".into());
    }
    fails.extend(ev.errors.borrow().iter().cloned());
    fails
}
