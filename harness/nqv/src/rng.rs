//! Deterministic PRNG (SplitMix64 seeding a xoshiro256**), no external crates.

#[derive(Clone, Debug)]
pub struct Rng {
    s: [u64; 4],
}

fn splitmix(x: &mut u64) -> u64 {
    *x = x.wrapping_add(0x9E3779B97F4A7C15);
    let mut z = *x;
    z = (z ^ (z >> 30)).wrapping_mul(0xBF58476D1CE4E5B9);
    z = (z ^ (z >> 27)).wrapping_mul(0x94D049BB133111EB);
    z ^ (z >> 31)
}

pub fn hash_str(s: &str) -> u64 {
    // FNV-1a 64
    let mut h: u64 = 0xcbf29ce484222325;
    for b in s.as_bytes() {
        h ^= *b as u64;
        h = h.wrapping_mul(0x100000001b3);
    }
    h
}

impl Rng {
    pub fn new(seed: u64) -> Self {
        let mut x = seed;
        let s = [splitmix(&mut x), splitmix(&mut x), splitmix(&mut x), splitmix(&mut x)];
        Rng { s }
    }
    pub fn from_parts(seed: u64, label: &str, shard: u64, case: u64) -> Self {
        let mut x = seed ^ hash_str(label).rotate_left(17) ^ shard.wrapping_mul(0xD1B54A32D192ED03) ^ case.wrapping_mul(0x2545F4914F6CDD1D);
        let _ = splitmix(&mut x);
        Rng::new(x)
    }
    pub fn next_u64(&mut self) -> u64 {
        let result = self.s[1].wrapping_mul(5).rotate_left(7).wrapping_mul(9);
        let t = self.s[1] << 17;
        self.s[2] ^= self.s[0];
        self.s[3] ^= self.s[1];
        self.s[1] ^= self.s[2];
        self.s[0] ^= self.s[3];
        self.s[2] ^= t;
        self.s[3] = self.s[3].rotate_left(45);
        result
    }
    /// uniform in [0, n)
    pub fn below(&mut self, n: usize) -> usize {
        if n == 0 {
            return 0;
        }
        (self.next_u64() % (n as u64)) as usize
    }
    /// uniform in [lo, hi] inclusive
    pub fn range(&mut self, lo: usize, hi: usize) -> usize {
        lo + self.below(hi - lo + 1)
    }
    pub fn chance(&mut self, num: u32, den: u32) -> bool {
        (self.next_u64() % den as u64) < num as u64
    }
    pub fn coin(&mut self) -> bool {
        self.next_u64() & 1 == 1
    }
    pub fn pick<'a, T>(&mut self, xs: &'a [T]) -> &'a T {
        &xs[self.below(xs.len())]
    }
    /// pick from a slice of string slices
    pub fn s<'a>(&mut self, xs: &[&'a str]) -> &'a str {
        xs[self.below(xs.len())]
    }
    pub fn pick_opt<'a, T>(&mut self, xs: &'a [T]) -> Option<&'a T> {
        if xs.is_empty() { None } else { Some(&xs[self.below(xs.len())]) }
    }
    pub fn shuffle<T>(&mut self, xs: &mut [T]) {
        for i in (1..xs.len()).rev() {
            let j = self.below(i + 1);
            xs.swap(i, j);
        }
    }
}
