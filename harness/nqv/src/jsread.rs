//! Reading emitted JavaScript / TypeScript module text: template-literal cooked values and
//! `const X = <json>` document literals.

/// Evaluate a template literal starting at the opening backtick at `start`; returns (cooked value, index after the closing backtick).
/// An unescaped `${` is an error (it would interpolate).
pub fn eval_template(src: &str, start: usize) -> Result<(String, usize), String> {
    let b: Vec<char> = src[start..].chars().collect();
    if b.first() != Some(&'`') {
        return Err("not a template literal".into());
    }
    let mut out = String::new();
    let mut i = 1;
    let mut byte = start + 1;
    while i < b.len() {
        let c = b[i];
        match c {
            '`' => return Ok((out, byte + 1)),
            '$' if b.get(i + 1) == Some(&'{') => return Err("unescaped ${ inside the template literal (would interpolate)".into()),
            '\r' => {
                // CRLF and CR are normalised to LF in template values
                out.push('\n');
                if b.get(i + 1) == Some(&'\n') {
                    i += 1;
                    byte += 1;
                }
            }
            '\\' => {
                let Some(&e) = b.get(i + 1) else { return Err("dangling backslash".into()) };
                i += 1;
                byte += e.len_utf8();
                match e {
                    'n' => out.push('\n'),
                    't' => out.push('\t'),
                    'r' => out.push('\r'),
                    'b' => out.push('\u{8}'),
                    'f' => out.push('\u{c}'),
                    'v' => out.push('\u{b}'),
                    '0' if !b.get(i + 1).is_some_and(|d| d.is_ascii_digit()) => out.push('\0'),
                    '\n' => {}
                    '\r' => {
                        if b.get(i + 1) == Some(&'\n') {
                            i += 1;
                            byte += 1;
                        }
                    }
                    'x' => {
                        let h: String = b.iter().skip(i + 1).take(2).collect();
                        match u32::from_str_radix(&h, 16) {
                            Ok(v) if h.len() == 2 => {
                                out.push(char::from_u32(v).unwrap());
                                i += 2;
                                byte += 2;
                            }
                            _ => return Err("bad \\x escape in template".into()),
                        }
                    }
                    'u' => {
                        if b.get(i + 1) == Some(&'{') {
                            let mut j = i + 2;
                            let mut h = String::new();
                            while j < b.len() && b[j] != '}' {
                                h.push(b[j]);
                                j += 1;
                            }
                            match u32::from_str_radix(&h, 16).ok().and_then(char::from_u32) {
                                Some(ch) if j < b.len() => {
                                    out.push(ch);
                                    byte += (j - i) as usize;
                                    i = j;
                                }
                                _ => return Err("bad \\u{} escape in template".into()),
                            }
                        } else {
                            let h: String = b.iter().skip(i + 1).take(4).collect();
                            match u32::from_str_radix(&h, 16).ok().and_then(char::from_u32) {
                                Some(ch) if h.len() == 4 => {
                                    out.push(ch);
                                    i += 4;
                                    byte += 4;
                                }
                                _ => return Err("bad \\u escape in template".into()),
                            }
                        }
                    }
                    d if d.is_ascii_digit() => return Err("octal escape in template".into()),
                    other => out.push(other),
                }
            }
            c => out.push(c),
        }
        byte += c.len_utf8();
        i += 1;
    }
    Err("unterminated template literal".into())
}

/// the cooked value of `export const schema = `...`;` (server schema module)
pub fn read_schema_module(src: &str) -> Result<String, String> {
    let key = "export const schema = ";
    let Some(i) = src.find(key) else { return Err("module does not contain `export const schema = `".into()) };
    let start = i + key.len();
    let (v, end) = eval_template(src, start)?;
    let rest = src[end..].trim();
    if rest != ";" {
        return Err(format!("unexpected text after the template literal: {:?}", rest.chars().take(40).collect::<String>()));
    }
    let head = src[..i].trim();
    if !(head.is_empty() || head.lines().all(|l| l.trim_start().starts_with("//") || l.trim().is_empty())) {
        return Err("unexpected text before the export".into());
    }
    Ok(v)
}
