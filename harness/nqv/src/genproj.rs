//! Whole-project generation for the CLI engine: schema files, operation files, config.

use crate::gen_ops::{OpOpts, gen_valid_doc, split_into_files};
use crate::gen_schema::{SchemaOpts, gen_valid_schema, split_extensions};
use crate::model::*;
use crate::render::{Feat, render_exec, render_ts};
use crate::rng::Rng;
use crate::schema_ix::{SchemaIx, merge_extensions};

#[derive(Clone, Debug)]
pub struct GenConfig {
    pub mode: &'static str,
    /// relative to the project root (where the config file lives)
    pub schema_output: Option<String>,
    pub resolvers_output: Option<String>,
    pub server_output: Option<String>,
    pub schema_module_specifier: Option<String>,
    pub emit_schema_runtime: bool,
    pub allow_undefined_as_optional_input: Option<bool>,
    pub default_export: Option<bool>,
    pub export_result_type: Option<bool>,
    pub export_variables_type: Option<bool>,
    pub capitalize: Option<bool>,
    pub result_suffix: Option<String>,
    pub variables_suffix: Option<String>,
    pub fragment_type_suffix: Option<String>,
    pub query_suffix: Option<String>,
    pub mutation_suffix: Option<String>,
    pub subscription_suffix: Option<String>,
    pub fragment_suffix: Option<String>,
    /// custom scalar -> TS type text
    pub scalars: Vec<(String, String)>,
    pub json_format: bool,
}

impl GenConfig {
    pub fn basic() -> GenConfig {
        GenConfig {
            mode: "with-loader-ts-5.0",
            schema_output: Some("./generated/schema.d.ts".into()),
            resolvers_output: None,
            server_output: None,
            schema_module_specifier: None,
            emit_schema_runtime: false,
            allow_undefined_as_optional_input: None,
            default_export: None,
            export_result_type: None,
            export_variables_type: None,
            capitalize: None,
            result_suffix: None,
            variables_suffix: None,
            fragment_type_suffix: None,
            query_suffix: None,
            mutation_suffix: None,
            subscription_suffix: None,
            fragment_suffix: None,
            scalars: vec![],
            json_format: false,
        }
    }

    pub fn decl_extension(&self) -> &'static str {
        match self.mode {
            "with-loader-ts-4.0" => "graphql.d.ts",
            "standalone-ts-4.0" => "graphql.ts",
            _ => "d.graphql.ts",
        }
    }

    /// graphql-config text (YAML, or JSON which is YAML too)
    pub fn render(&self, schema_glob: &[String], documents_glob: &[String]) -> String {
        use serde_json::{Map, Value, json};
        let mut generate = Map::new();
        if self.mode != "with-loader-ts-5.0" {
            generate.insert("mode".into(), json!(self.mode));
        }
        if let Some(s) = &self.schema_output {
            generate.insert("schemaOutput".into(), json!(s));
        }
        if let Some(s) = &self.resolvers_output {
            generate.insert("resolversOutput".into(), json!(s));
        }
        if let Some(s) = &self.server_output {
            generate.insert("serverGraphqlOutput".into(), json!(s));
        }
        if let Some(s) = &self.schema_module_specifier {
            generate.insert("schemaModuleSpecifier".into(), json!(s));
        }
        if self.emit_schema_runtime {
            generate.insert("emitSchemaRuntime".into(), json!(true));
        }
        let mut ty = Map::new();
        if let Some(b) = self.allow_undefined_as_optional_input {
            ty.insert("allowUndefinedAsOptionalInput".into(), json!(b));
        }
        if !self.scalars.is_empty() {
            let mut m = Map::new();
            for (k, v) in &self.scalars {
                // "send|receive" spelling selects the send/receive form, "a|b|c|d" the separate form
                let parts: Vec<&str> = v.split("||").collect();
                let val = match parts.len() {
                    2 => json!({"send": parts[0], "receive": parts[1]}),
                    4 => json!({"resolverOutput": parts[0], "resolverInput": parts[1], "operationOutput": parts[2], "operationInput": parts[3]}),
                    _ => json!(v),
                };
                m.insert(k.clone(), val);
            }
            ty.insert("scalarTypes".into(), Value::Object(m));
        }
        if !ty.is_empty() {
            generate.insert("type".into(), Value::Object(ty));
        }
        let mut name = Map::new();
        let mut put = |k: &str, v: &Option<String>| {
            if let Some(v) = v {
                name.insert(k.into(), json!(v));
            }
        };
        put("operationResultTypeSuffix", &self.result_suffix);
        put("variablesTypeSuffix", &self.variables_suffix);
        put("fragmentTypeSuffix", &self.fragment_type_suffix);
        put("queryVariableSuffix", &self.query_suffix);
        put("mutationVariableSuffix", &self.mutation_suffix);
        put("subscriptionVariableSuffix", &self.subscription_suffix);
        put("fragmentVariableSuffix", &self.fragment_suffix);
        if let Some(b) = self.capitalize {
            name.insert("capitalizeOperationNames".into(), json!(b));
        }
        if !name.is_empty() {
            generate.insert("name".into(), Value::Object(name));
        }
        let mut export = Map::new();
        if let Some(b) = self.default_export {
            export.insert("defaultExportForOperation".into(), json!(b));
        }
        if let Some(b) = self.export_result_type {
            export.insert("operationResultType".into(), json!(b));
        }
        if let Some(b) = self.export_variables_type {
            export.insert("variablesType".into(), json!(b));
        }
        if !export.is_empty() {
            generate.insert("export".into(), Value::Object(export));
        }
        let doc = json!({
            "schema": if schema_glob.len() == 1 { json!(schema_glob[0]) } else { json!(schema_glob) },
            "documents": if documents_glob.len() == 1 { json!(documents_glob[0]) } else { json!(documents_glob) },
            "extensions": {"nitrogql": {"generate": Value::Object(generate)}},
        });
        if self.json_format { serde_json::to_string_pretty(&doc).unwrap() } else { to_yaml(&doc, 0) }
    }
}

fn yaml_scalar(s: &str) -> String {
    // always quoted: safe for globs, colons, leading dots
    format!("{:?}", s)
}

fn to_yaml(v: &serde_json::Value, indent: usize) -> String {
    use serde_json::Value;
    let pad = " ".repeat(indent);
    match v {
        Value::Object(m) => {
            let mut s = String::new();
            for (k, v) in m {
                match v {
                    Value::Object(o) if !o.is_empty() => s.push_str(&format!("{pad}{k}:\n{}", to_yaml(v, indent + 2))),
                    Value::Array(a) if !a.is_empty() => {
                        s.push_str(&format!("{pad}{k}:\n"));
                        for it in a {
                            s.push_str(&format!("{pad}  - {}\n", to_yaml(it, 0).trim_end()));
                        }
                    }
                    _ => s.push_str(&format!("{pad}{k}: {}\n", to_yaml(v, 0).trim_end())),
                }
            }
            s
        }
        Value::String(x) => format!("{}\n", yaml_scalar(x)),
        Value::Bool(b) => format!("{b}\n"),
        Value::Number(n) => format!("{n}\n"),
        Value::Null => "null\n".into(),
        Value::Array(_) => "[]\n".into(),
    }
}

#[derive(Clone, Debug)]
pub struct Project {
    /// (path relative to the scratch root, text); the project root (config, cwd) is `root`
    pub files: Vec<(String, String)>,
    pub root: String,
    /// schema files, relative to the scratch root, in the order the CLI's glob returns them is unknown: keep the set
    pub schema_paths: Vec<String>,
    pub op_paths: Vec<String>,
    pub config: GenConfig,
    pub schema_model: TsDoc,
    /// per operation file: its own document
    pub op_models: Vec<(String, ExecDoc)>,
    /// the schema is given as one introspection result (JSON) instead of SDL files
    pub schema_is_json: bool,
    /// the `documents` globs of the configuration (one of them may point outside the project directory)
    pub doc_globs: Vec<String>,
}

/// the same project with its SDL schema files replaced by one introspection JSON file (what a server would answer)
pub fn introspection_variant(proj: &Project, rng: &mut Rng) -> Project {
    use crate::introspect::{IntroStyle, introspect};
    let merged = merge_extensions(&proj.schema_model);
    let ix = SchemaIx::new(&merged);
    let style = IntroStyle { full: rng.coin(), meta_types: rng.coin(), shuffle: rng.coin() };
    let schema_desc = merged.defs.iter().find_map(|d| if let TsDef::Schema(s) = d { s.desc.clone() } else { None });
    let intro = introspect(&ix, schema_desc.as_ref(), style, rng);
    let text = if rng.coin() { serde_json::to_string_pretty(&intro).unwrap() } else { intro.to_string() };
    let is_cfg = |p: &str| p.contains("graphql.config");
    let mut files: Vec<(String, String)> = proj.files.iter().filter(|(p, _)| !proj.schema_paths.contains(p) && !is_cfg(p)).cloned().collect();
    let sp = format!("{}/schema/introspection.json", proj.root);
    files.push((sp.clone(), text));
    let cfg_path = proj.files.iter().find(|(p, _)| is_cfg(p)).map(|(p, _)| p.clone()).unwrap_or_else(|| format!("{}/graphql.config.yaml", proj.root));
    files.push((cfg_path, proj.config.render(&["./schema/introspection.json".to_string()], &proj.doc_globs)));
    Project { files, root: proj.root.clone(), schema_paths: vec![sp], op_paths: proj.op_paths.clone(), config: proj.config.clone(), schema_model: proj.schema_model.clone(), op_models: proj.op_models.clone(), schema_is_json: true, doc_globs: proj.doc_globs.clone() }
}

/// the same project with `plugins` configured (text-level edit of its configuration file, YAML or JSON). Both built-in
/// plugins leave a valid SDL project valid: the model plugin adds `directive @model` as a virtual schema source, the
/// graphql-scalars plugin only reads extensions of schemas loaded from JavaScript.
pub fn add_plugins(files: &mut [(String, String)], plugins: &[&str]) -> bool {
    let Some((_, text)) = files.iter_mut().find(|(p, _)| p.contains("graphql.config")) else { return false };
    if let Ok(mut v) = serde_json::from_str::<serde_json::Value>(text) {
        if let Some(n) = v.get_mut("extensions").and_then(|e| e.get_mut("nitrogql")).and_then(|n| n.as_object_mut()) {
            n.insert("plugins".into(), serde_json::json!(plugins));
            *text = serde_json::to_string_pretty(&v).unwrap_or_default();
            return true;
        }
        return false;
    }
    let at = "  nitrogql:\n";
    let Some(k) = text.find(at) else { return false };
    let mut ins = String::from("    plugins:\n");
    for p in plugins {
        ins.push_str(&format!("      - {:?}\n", p));
    }
    text.insert_str(k + at.len(), &ins);
    true
}

pub const PLUGIN_SETS: &[&[&str]] = &[&["nitrogql:model-plugin"], &["nitrogql:graphql-scalars-plugin"], &["nitrogql:model-plugin", "nitrogql:graphql-scalars-plugin"], &["nitrogql:graphql-scalars-plugin", "nitrogql:model-plugin"]];

pub struct ProjOpts {
    pub hostile_trivia: bool,
    pub extension_split: bool,
    pub max_schema_files: usize,
    pub random_config: bool,
    pub layouts: bool,
    pub coercing: bool,
    /// set each naming/export option with probability 2/3 instead of 1/3 and lower-case some operation names (C14)
    pub dense_options: bool,
}

impl ProjOpts {
    pub fn standard() -> ProjOpts {
        ProjOpts { hostile_trivia: false, extension_split: true, max_schema_files: 3, random_config: true, layouts: true, coercing: false, dense_options: false }
    }
}

const SCALAR_TS: &[&str] = &["string", "number", "unknown", "Date", "string | number", "Record<string, unknown>"];

pub fn random_config(rng: &mut Rng, custom_scalars: &[String], layouts: bool, dense: bool) -> GenConfig {
    let num = if dense { 2 } else { 1 };
    let mut c = GenConfig::basic();
    c.mode = *rng.pick(&["with-loader-ts-5.0", "with-loader-ts-4.0", "standalone-ts-4.0"]);
    if layouts {
        c.schema_output = Some(rng.s(&["./generated/schema.d.ts", "../gen/types/schema.d.ts", "./schema.d.ts", "./src/a/b/schema.d.ts", "../schema.d.ts", "./generated/schema.generated.d.ts", "./src/graphql.schema.ts", "../gen/api.v2.d.mts", "./gen.d/schema.cts", "./generated/schema.d.d.ts", "./generated/sub/schema.d.ts", "./gen/sub/dir/schema.d.ts"]).to_string());
        if rng.coin() {
            c.resolvers_output = Some(rng.s(&["./generated/resolvers.d.ts", "../gen/resolvers.d.ts", "./src/resolvers.d.ts", "./src/app.resolvers.d.ts", "./generated/resolvers.mts", "./generated/sub/resolvers.d.ts"]).to_string());
        }
        if rng.coin() {
            c.server_output = Some(rng.s(&["./generated/server.ts", "../gen/server-schema.js"]).to_string());
        }
    }
    if rng.chance(1, 4) {
        c.schema_module_specifier = Some("@/generated/schema".into());
    }
    if rng.chance(1, 5) {
        c.emit_schema_runtime = true;
        c.schema_output = Some("./generated/schema.ts".into());
    }
    let ob = |rng: &mut Rng| if rng.chance(num, 3) { Some(rng.coin()) } else { None };
    c.allow_undefined_as_optional_input = ob(rng);
    c.default_export = ob(rng);
    c.export_result_type = ob(rng);
    c.export_variables_type = ob(rng);
    c.capitalize = ob(rng);
    let os = |rng: &mut Rng, opts: &[&str]| if rng.chance(num, 3) { Some(rng.s(opts).to_string()) } else { None };
    c.result_suffix = os(rng, &["Result", "Data", ""]);
    c.variables_suffix = os(rng, &["Variables", "Vars", ""]);
    c.fragment_type_suffix = os(rng, &["", "Fragment", "Frag"]);
    c.query_suffix = os(rng, &["Query", "", "Doc"]);
    c.mutation_suffix = os(rng, &["Mutation", "", "Doc"]);
    c.subscription_suffix = os(rng, &["Subscription", "", "Doc"]);
    c.fragment_suffix = os(rng, &["", "Fragment", "Doc"]);
    for s in custom_scalars {
        let v = match rng.below(4) {
            0 => format!("{}||{}", rng.s(SCALAR_TS), rng.s(SCALAR_TS)),
            1 => format!("{}||{}||{}||{}", rng.s(SCALAR_TS), rng.s(SCALAR_TS), rng.s(SCALAR_TS), rng.s(SCALAR_TS)),
            _ => rng.s(SCALAR_TS).to_string(),
        };
        c.scalars.push((s.clone(), v));
    }
    c.json_format = rng.chance(1, 5);
    c
}

/// A valid project. `None` when the operation generator gave up.
pub fn gen_project(rng: &mut Rng, po: &ProjOpts) -> Option<Project> {
    let mut so = SchemaOpts::default_for(rng);
    so.coercing_literals = po.coercing;
    let (schema, _) = gen_valid_schema(rng, &so);
    let ix = SchemaIx::new(&merge_extensions(&schema));
    let mut oo = OpOpts::standard();
    oo.coercing_literals = po.coercing;
    let mut doc = gen_valid_doc(rng, &ix, &oo)?;
    if po.dense_options {
        for d in doc.defs.iter_mut() {
            if let ExecDef::Op(o) = d {
                if let Some(n) = o.name.as_mut() {
                    if rng.coin() {
                        let mut c = n.s.chars();
                        if let Some(f) = c.next() {
                            n.s = format!("{}{}", f.to_lowercase(), c.as_str());
                        }
                    }
                }
            }
        }
    }
    let shaped = if po.extension_split && rng.coin() { split_extensions(&schema, rng) } else { schema.clone() };
    // schema files
    // file names: plain, or with characters that are legal in POSIX file names but special somewhere else (space,
    // backslash, non-ASCII, '#', '%')
    let schema_dirs: [&str; 3] = *rng.pick(&[
        ["schema/a.graphql", "schema/sub/b.graphql", "schema/c.graphqls"],
        ["schema/a.graphql", "schema/sub/b.graphql", "schema/c.graphqls"],
        ["schema/a.graphql", "schema/sub/b.graphql", "schema/c.graphqls"],
        ["schema/type\\user.graphql", "schema/sub dir/b b.graphql", "schema/ünï#1%20.graphqls"],
    ]);
    let nfiles = rng.range(1, po.max_schema_files.min(shaped.defs.len()).max(1));
    let mut sfiles: Vec<TsDoc> = (0..nfiles).map(|_| TsDoc::default()).collect();
    for d in &shaped.defs {
        let i = rng.below(nfiles);
        sfiles[i].defs.push(d.clone());
    }
    let root = "app".to_string();
    let mut files = vec![];
    let mut schema_paths = vec![];
    for (i, f) in sfiles.iter().enumerate() {
        if f.defs.is_empty() {
            continue;
        }
        let text = if po.hostile_trivia && rng.chance(1, 3) { render_ts(f, Some(rng), Feat::hostile()) } else { render_ts(f, None, Feat::plain()) };
        let p = format!("{root}/{}", schema_dirs[i]);
        schema_paths.push(p.clone());
        files.push((p, text));
    }
    // operation files: the split document plus possibly a second independent document
    // one layout keeps the shared fragment file in a sibling directory of the project: a `documents` glob with `..`
    let outside = po.layouts && rng.chance(1, 5);
    let doc_globs: Vec<String> = if outside { vec!["./ops/**/*.graphql".to_string(), "../outside/*.graphql".to_string()] } else { vec!["./ops/**/*.graphql".to_string(), "./shared/*.graphql".to_string()] };
    // another layout gives the fragment files one and the same base name in the importing file's own directory, in its
    // parent and in a sibling of the parent (`./frag.graphql`, `../frag.graphql`, `../../shared/frag.graphql`)
    let same_names = po.layouts && !outside && rng.chance(1, 5);
    let mut op_models: Vec<(String, ExecDoc)> = if same_names {
        crate::gen_ops::split_into_files_at(&doc, rng, "app/ops/sub/main.graphql", ["app/ops/sub/frag.graphql", "app/ops/frag.graphql", "app/shared/frag.graphql"])
    } else if outside {
        crate::gen_ops::split_into_files_at(&doc, rng, "app/ops/main.graphql", ["app/ops/frag_a.graphql", "app/ops/sub/frag_b.graphql", "outside/frag_c.graphql"])
    } else {
        split_into_files(&doc, rng).into_iter().map(|(p, d)| (format!("{root}/{p}"), d)).collect()
    };
    if rng.chance(1, 3) {
        if let Some(d2) = gen_valid_doc(rng, &ix, &OpOpts { fragments: false, max_ops: 1, ..OpOpts::standard() }) {
            let other = *rng.pick(&["ops/other.graphql", "ops/other.graphql", "ops/oth er\\x.graphql", "ops/ö#ther.graphql", "ops/main.other.graphql", "ops/main.v2.query.graphql", "ops/frag_a.extra.graphql"]);
            op_models.push((format!("{root}/{other}"), d2));
        }
    }
    let mut op_paths = vec![];
    for (p, d) in &op_models {
        let text = if po.hostile_trivia && rng.chance(1, 3) { render_exec(d, Some(rng), Feat::hostile()) } else { render_exec(d, None, Feat::plain()) };
        op_paths.push(p.clone());
        files.push((p.clone(), text));
    }
    let custom: Vec<String> = ix.order.iter().filter(|t| ix.kind(t) == Some(TKind::Scalar) && !crate::schema_ix::BUILTIN_SCALARS.contains(&t.as_str())).cloned().collect();
    let config = if po.random_config {
        random_config(rng, &custom, po.layouts, po.dense_options)
    } else {
        let mut c = GenConfig::basic();
        for s in &custom {
            c.scalars.push((s.clone(), "string".into()));
        }
        c
    };
    let cfg_text = config.render(&["./schema/**/*.graphql".to_string(), "./schema/*.graphqls".to_string()], &doc_globs);
    files.push((format!("{root}/{}", if config.json_format { "graphql.config.json" } else { "graphql.config.yaml" }), cfg_text));
    Some(Project { files, root, schema_paths, op_paths, config, schema_model: shaped, op_models, schema_is_json: false, doc_globs })
}
