//! Schema index: lookup structure over a *merged* reference type-system document.

use std::collections::{BTreeMap, BTreeSet};

use crate::model::*;

pub const BUILTIN_SCALARS: &[&str] = &["Int", "Float", "String", "Boolean", "ID"];

#[derive(Clone, Debug)]
pub struct SchemaIx {
    pub types: BTreeMap<String, TypeDef>,
    /// declaration order of type names (builtin scalars last)
    pub order: Vec<String>,
    pub directives: BTreeMap<String, DirectiveDef>,
    pub query: Option<String>,
    pub mutation: Option<String>,
    pub subscription: Option<String>,
    pub has_schema_def: bool,
}

pub fn builtin_directives() -> Vec<DirectiveDef> {
    let d = |name: &str, args: Vec<InputValueDef>, locs: &[&str]| DirectiveDef { desc: None, p: P::none(), name: nm(name), args, repeatable: false, repeatable_p: P::none(), locations: locs.iter().map(|l| nm(l)).collect() };
    let arg = |name: &str, ty: Ty, default: Option<Val>| InputValueDef { desc: None, name: nm(name), ty, default, dirs: vec![] };
    vec![
        d("skip", vec![arg("if", Ty::non_null(Ty::named("Boolean")), None)], &["FIELD", "FRAGMENT_SPREAD", "INLINE_FRAGMENT"]),
        d("include", vec![arg("if", Ty::non_null(Ty::named("Boolean")), None)], &["FIELD", "FRAGMENT_SPREAD", "INLINE_FRAGMENT"]),
        d("deprecated", vec![arg("reason", Ty::named("String"), Some(Val::str("No longer supported")))], &["FIELD_DEFINITION", "ARGUMENT_DEFINITION", "INPUT_FIELD_DEFINITION", "ENUM_VALUE"]),
        d("specifiedBy", vec![arg("url", Ty::non_null(Ty::named("String")), None)], &["SCALAR"]),
    ]
}

/// the directive nitrogql itself adds to every schema (crates/cli/src/builtins.rs); known to the reference validator and
/// to the scalar mapping, but *not* part of `builtin_directives()`, which C16 uses to decide what an emitted server schema may add
pub fn nitrogql_directives() -> Vec<DirectiveDef> {
    let arg = |name: &str| InputValueDef { desc: None, name: nm(name), ty: Ty::non_null(Ty::named("String")), default: None, dirs: vec![] };
    vec![DirectiveDef { desc: None, p: P::none(), name: nm("nitrogql_ts_type"), args: vec![arg("resolverInput"), arg("resolverOutput"), arg("operationInput"), arg("operationOutput")], repeatable: false, repeatable_p: P::none(), locations: vec![nm("SCALAR")] }]
}

impl SchemaIx {
    /// build from merged definitions (no `ext` items)
    pub fn new(doc: &TsDoc) -> SchemaIx {
        let mut types = BTreeMap::new();
        let mut order = vec![];
        let mut directives = BTreeMap::new();
        let mut schema_def: Option<&SchemaDef> = None;
        for d in &doc.defs {
            match d {
                TsDef::Type(t) if !t.ext => {
                    if !types.contains_key(&t.name.s) {
                        order.push(t.name.s.clone());
                        types.insert(t.name.s.clone(), t.clone());
                    }
                }
                TsDef::Directive(d) => {
                    directives.entry(d.name.s.clone()).or_insert_with(|| d.clone());
                }
                TsDef::Schema(s) if !s.ext => schema_def = Some(s),
                _ => {}
            }
        }
        for b in BUILTIN_SCALARS {
            if !types.contains_key(*b) {
                order.push(b.to_string());
                types.insert(b.to_string(), TypeDef::new(TKind::Scalar, b));
            }
        }
        for d in builtin_directives().into_iter().chain(nitrogql_directives()) {
            directives.entry(d.name.s.clone()).or_insert(d);
        }
        let (query, mutation, subscription) = match schema_def {
            Some(s) => {
                let f = |k: OpKind| s.roots.iter().find(|(rk, _)| *rk == k).map(|(_, n)| n.s.clone());
                (f(OpKind::Query), f(OpKind::Mutation), f(OpKind::Subscription))
            }
            None => {
                let f = |n: &str| if types.get(n).is_some_and(|t| t.kind == TKind::Object) { Some(n.to_string()) } else { None };
                (f("Query"), f("Mutation"), f("Subscription"))
            }
        };
        SchemaIx { types, order, directives, query, mutation, subscription, has_schema_def: schema_def.is_some() }
    }

    pub fn root(&self, k: OpKind) -> Option<&String> {
        match k {
            OpKind::Query => self.query.as_ref(),
            OpKind::Mutation => self.mutation.as_ref(),
            OpKind::Subscription => self.subscription.as_ref(),
        }
    }
    pub fn ty(&self, name: &str) -> Option<&TypeDef> {
        self.types.get(name)
    }
    pub fn kind(&self, name: &str) -> Option<TKind> {
        self.types.get(name).map(|t| t.kind)
    }
    pub fn is_input_type(&self, name: &str) -> bool {
        matches!(self.kind(name), Some(TKind::Scalar | TKind::Enum | TKind::Input))
    }
    pub fn is_output_type(&self, name: &str) -> bool {
        matches!(self.kind(name), Some(TKind::Scalar | TKind::Enum | TKind::Object | TKind::Interface | TKind::Union))
    }
    pub fn is_composite(&self, name: &str) -> bool {
        matches!(self.kind(name), Some(TKind::Object | TKind::Interface | TKind::Union))
    }
    pub fn is_leaf(&self, name: &str) -> bool {
        matches!(self.kind(name), Some(TKind::Scalar | TKind::Enum))
    }
    /// possible object types of a composite type, in declaration order
    pub fn possible(&self, name: &str) -> Vec<String> {
        match self.types.get(name) {
            None => vec![],
            Some(t) => match t.kind {
                TKind::Object => vec![name.to_string()],
                TKind::Interface => self.order.iter().filter(|n| self.types[*n].kind == TKind::Object && self.types[*n].implements.iter().any(|i| i.s == name)).cloned().collect(),
                TKind::Union => t.members.iter().map(|m| m.s.clone()).collect(),
                _ => vec![],
            },
        }
    }
    /// can a fragment with condition `cond` apply inside parent type `parent`? (spec: possible types intersect)
    pub fn spread_possible(&self, parent: &str, cond: &str) -> bool {
        // identical composite types always overlap (as graphql-js's doTypesOverlap), even an interface nobody implements
        if parent == cond && self.is_composite(parent) {
            return true;
        }
        let a: BTreeSet<String> = self.possible(parent).into_iter().collect();
        self.possible(cond).iter().any(|x| a.contains(x))
    }
    /// the field definition `name` on composite type `parent` (objects & interfaces), `__typename` synthesised
    pub fn field(&self, parent: &str, name: &str) -> Option<FieldDef> {
        if name == "__typename" && self.is_composite(parent) {
            return Some(FieldDef { desc: None, name: nm("__typename"), args: vec![], ty: Ty::non_null(Ty::named("String")), dirs: vec![] });
        }
        let t = self.types.get(parent)?;
        if !matches!(t.kind, TKind::Object | TKind::Interface) {
            return None;
        }
        t.fields.iter().find(|f| f.name.s == name).cloned()
    }
    /// is `sub` a subtype of (or equal to) `sup` for field covariance
    pub fn is_subtype(&self, sub: &Ty, sup: &Ty) -> bool {
        match (sub, sup) {
            (Ty::NonNull(a), Ty::NonNull(b)) => self.is_subtype(a, b),
            (Ty::NonNull(a), b) => self.is_subtype(a, b),
            (_, Ty::NonNull(_)) => false,
            (Ty::List(a, _), Ty::List(b, _)) => self.is_subtype(a, b),
            (Ty::List(..), _) | (_, Ty::List(..)) => false,
            (Ty::Named(a), Ty::Named(b)) => {
                if a.s == b.s {
                    return true;
                }
                match self.kind(&b.s) {
                    Some(TKind::Union) => self.types[&b.s].members.iter().any(|m| m.s == a.s),
                    Some(TKind::Interface) => self.types.get(&a.s).is_some_and(|t| matches!(t.kind, TKind::Object | TKind::Interface) && t.implements.iter().any(|i| i.s == b.s)),
                    _ => false,
                }
            }
        }
    }
    pub fn enum_values(&self, name: &str) -> Vec<String> {
        self.types.get(name).map(|t| t.values.iter().map(|v| v.name.s.clone()).collect()).unwrap_or_default()
    }
}

/// reference merge of a document with extensions into definitions only (valid documents: one original per key)
pub fn merge_extensions(doc: &TsDoc) -> TsDoc {
    let mut out: Vec<TsDef> = vec![];
    for d in &doc.defs {
        match d {
            TsDef::Type(t) if t.ext => {}
            TsDef::Schema(s) if s.ext => {}
            d => out.push(d.clone()),
        }
    }
    for d in &doc.defs {
        match d {
            TsDef::Type(x) if x.ext => {
                // the built-in scalars are defined implicitly: an extension of one of them has a base
                if x.kind == TKind::Scalar && BUILTIN_SCALARS.contains(&x.name.s.as_str()) && !out.iter().any(|o| matches!(o, TsDef::Type(b) if b.kind == TKind::Scalar && b.name.s == x.name.s)) {
                    out.push(TsDef::Type(TypeDef::new(TKind::Scalar, &x.name.s)));
                }
                if let Some(TsDef::Type(b)) = out.iter_mut().find(|o| matches!(o, TsDef::Type(b) if b.kind == x.kind && b.name.s == x.name.s)) {
                    b.dirs.extend(x.dirs.clone());
                    b.implements.extend(x.implements.clone());
                    b.fields.extend(x.fields.clone());
                    b.members.extend(x.members.clone());
                    b.values.extend(x.values.clone());
                    b.input_fields.extend(x.input_fields.clone());
                }
            }
            TsDef::Schema(x) if x.ext => {
                if let Some(TsDef::Schema(b)) = out.iter_mut().find(|o| matches!(o, TsDef::Schema(_))) {
                    b.dirs.extend(x.dirs.clone());
                    b.roots.extend(x.roots.clone());
                }
            }
            _ => {}
        }
    }
    TsDoc { defs: out }
}
