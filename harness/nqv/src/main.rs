use std::time::Instant;

use nqv::ctx::Ctx;
use nqv::report::Report;
use serde_json::{Value, json};

fn arg_val(args: &[String], key: &str) -> Option<String> {
    args.iter().position(|a| a == key).and_then(|i| args.get(i + 1).cloned())
}

fn main() {
    let args: Vec<String> = std::env::args().collect();
    if args.len() < 3 {
        eprintln!("usage: nqv run <PID> --tier quick|thorough --seed N --shard i/n --out DIR [--cli PATH]\n       nqv replay <file> [--cli PATH] [--out DIR]");
        std::process::exit(2);
    }
    nqv::panicguard::install_hook();
    let cli = arg_val(&args, "--cli").unwrap_or_else(|| "/verif/target/repo/release/nitrogql-cli".to_string());
    let out = arg_val(&args, "--out").unwrap_or_else(|| "/verif/target/out".to_string());
    match args[1].as_str() {
        "run" => {
            let pid = args[2].clone();
            let thorough = arg_val(&args, "--tier").as_deref() == Some("thorough");
            let seed = arg_val(&args, "--seed").and_then(|s| s.parse().ok()).unwrap_or(1u64);
            let shard_s = arg_val(&args, "--shard").unwrap_or_else(|| "0/1".into());
            let (i, n) = shard_s.split_once('/').unwrap_or(("0", "1"));
            let ctx = Ctx { property: pid.clone(), thorough, seed, shard: i.parse().unwrap_or(0), nshards: n.parse().unwrap_or(1), out: out.clone(), cli };
            std::fs::create_dir_all(&out).ok();
            let mut rep = Report::new(&pid);
            if let Some(secs) = std::env::var("NQV_CASE_TIMEOUT_S").ok().and_then(|s| s.parse::<u64>().ok()) {
                if std::env::var("NQV_TRACE").is_err() {
                    nqv::report::start_hang_watchdog(secs, format!("{}/hang-{}-{}.json", out, pid, ctx.shard));
                }
            }
            let t0 = Instant::now();
            let res = nqv::run_property(&ctx, &mut rep);
            let mut j = rep.to_json();
            j["wall_s"] = json!(t0.elapsed().as_secs_f64());
            j["shard"] = json!(ctx.shard);
            if let Err(e) = &res {
                j["error"] = json!(e);
            }
            let path = format!("{}/result-{}.json", out, ctx.shard);
            std::fs::write(&path, serde_json::to_string(&j).unwrap()).expect("write result");
            if res.is_err() {
                std::process::exit(3);
            }
        }
        "fuzz-corpus" => {
            // nqv fuzz-corpus DIR N SEED
            let n = args.get(3).and_then(|s| s.parse().ok()).unwrap_or(2000u64);
            let seed = args.get(4).and_then(|s| s.parse().ok()).unwrap_or(1u64);
            nqv::props::c08::write_fuzz_corpus(&args[2], n, seed);
        }
        "map-dump" => {
            let gen_path = &args[2];
            let gen_text = std::fs::read_to_string(gen_path).unwrap();
            let map: Value = serde_json::from_str(&std::fs::read_to_string(format!("{gen_path}.map")).unwrap()).unwrap();
            let dec = nqv::srcmap::decode_mappings(map["mappings"].as_str().unwrap()).unwrap();
            let glines: Vec<&str> = gen_text.split('\n').collect();
            let dir = std::path::Path::new(gen_path).parent().unwrap();
            let sources: Vec<String> = map["sources"].as_array().unwrap().iter().map(|s| std::fs::read_to_string(dir.join(s.as_str().unwrap())).unwrap_or_default()).collect();
            println!("sources {:?} names {:?} empty segments {}", map["sources"], map["names"], dec.empty_segments);
            for s in dec.segs.iter().take(80) {
                let g: String = glines.get(s.gen_line as usize).map(|l| { let u: Vec<u16> = l.encode_utf16().collect(); String::from_utf16_lossy(&u[(s.gen_col as usize).min(u.len())..]).chars().take(18).collect() }).unwrap_or_default();
                let o = match s.src {
                    Some((si, l, c)) => {
                        let text = sources.get(si as usize).cloned().unwrap_or_default();
                        let line = text.split('\n').nth(l as usize).unwrap_or("");
                        let rest: String = line.chars().skip(c as usize).take(18).collect();
                        format!("src{si} {l}:{c} {rest:?}")
                    }
                    None => "-".into(),
                };
                println!("gen {}:{} {g:?} -> {o} name {:?}", s.gen_line, s.gen_col, s.name.map(|n| map["names"][n as usize].clone()));
            }
        }
        "ts-parse" => {
            for f in &args[2..] {
                let src = std::fs::read_to_string(f).unwrap();
                match nqv::ts::parse_module(&src) {
                    Ok(st) => println!("{f}: ok, {} statements", st.len()),
                    Err(e) => println!("{f}: ERROR {e}"),
                }
            }
        }
        "ts-selftest" => {
            let f = nqv::ts::selftest();
            for x in &f {
                println!("FAIL {x}");
            }
            println!("{} failures", f.len());
        }
        "selftest" => {
            // generator acceptance rates and a sample, for eyeballing
            use nqv::gen_ops::{OpOpts, gen_doc_once};
            use nqv::gen_schema::{SchemaOpts, gen_schema};
            use nqv::render::{render_exec_plain, render_ts_plain};
            use nqv::schema_ix::SchemaIx;
            use nqv::validate::{validate_operations, validate_type_system, validate_unimplemented_rules};
            let mut rng = nqv::rng::Rng::new(7);
            let (mut s_ok, mut s_all, mut o_ok, mut o_all) = (0, 0, 0, 0);
            let mut reasons: std::collections::BTreeMap<String, usize> = Default::default();
            for i in 0..400 {
                let so = SchemaOpts::default_for(&mut rng);
                let doc = gen_schema(&mut rng, &so);
                s_all += 1;
                let iss = validate_type_system(&doc);
                if !iss.is_empty() {
                    *reasons.entry(format!("S:{}", iss[0].rule)).or_default() += 1;
                    if i < 3 { println!("REJECT {:?}", iss[0]); }
                    continue;
                }
                s_ok += 1;
                let ix = SchemaIx::new(&doc);
                for _ in 0..3 {
                    let d = gen_doc_once(&mut rng, &ix, &OpOpts::standard());
                    o_all += 1;
                    let mut iss = validate_operations(&ix, &d);
                    iss.extend(validate_unimplemented_rules(&ix, &d));
                    if iss.is_empty() { o_ok += 1; } else { *reasons.entry(format!("O:{}", iss[0].rule)).or_default() += 1; if o_all < 40 { println!("OPREJECT {:?}\n{}", iss[0], render_exec_plain(&d)); } }
                    if i == 5 { println!("{}\n-----\n{}", render_ts_plain(&doc), render_exec_plain(&d)); }
                }
            }
            println!("schemas ok {s_ok}/{s_all}; operations ok {o_ok}/{o_all}; {reasons:?}");
        }
        "classify" => {
            let text = std::fs::read_to_string(&args[2]).expect("read case file");
            let v: Value = serde_json::from_str(&text).expect("case file is JSON");
            let case = if v.get("replay").is_some() { v["replay"].clone() } else { v.clone() };
            let c = match case["property"].as_str() {
                Some("C08") => nqv::props::c08::classify(&case),
                _ => "other".to_string(),
            };
            println!("{c}");
        }
        "replay" => {
            let text = std::fs::read_to_string(&args[2]).expect("read replay file");
            let v: Value = serde_json::from_str(&text).expect("replay file is JSON");
            let case = if v.get("replay").is_some() { v["replay"].clone() } else { v.clone() };
            let ctx = Ctx { property: case["property"].as_str().unwrap_or("").to_string(), thorough: false, seed: 1, shard: 0, nshards: 1, out, cli };
            std::fs::create_dir_all(&ctx.out).ok();
            match nqv::replay_case(&case, &ctx) {
                Ok(vs) => {
                    let j = json!({"violations": vs.iter().map(|v| json!({"sig": v.sig, "detail": v.detail})).collect::<Vec<_>>()});
                    println!("{}", serde_json::to_string(&j).unwrap());
                }
                Err(e) => {
                    eprintln!("replay error: {e}");
                    std::process::exit(3);
                }
            }
        }
        _ => {
            eprintln!("unknown command");
            std::process::exit(2);
        }
    }
}
