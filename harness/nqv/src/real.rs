//! Guarded wrappers around nitrogql's public entry points (the monitored boundary).

use nitrogql_parser::{parse_operation_document, parse_type_system_document};

use crate::extract;
use crate::model::{ExecDoc, TsDoc};
use crate::panicguard::{Panicked, guarded};

#[derive(Debug, Clone)]
pub enum Fail {
    Panic(Panicked),
    /// (message, line, column) of a returned error
    Err(String, Option<(usize, usize)>),
}

impl Fail {
    pub fn class(&self) -> String {
        match self {
            Fail::Panic(p) => format!("panic|{}|{}", p.site(), p.msg_class()),
            Fail::Err(m, _) => format!("error|{}", crate::report::clip(&strip_names(m), 80)),
        }
    }
    pub fn show(&self) -> String {
        match self {
            Fail::Panic(p) => format!("PANIC at {}:{}: {}", p.file, p.line, p.msg),
            Fail::Err(m, pos) => format!("error {m:?} at {pos:?}"),
        }
    }
}

/// remove quoted identifiers from diagnostics so that classes are input-independent
pub fn strip_names(m: &str) -> String {
    let mut out = String::new();
    let mut q: Option<char> = None;
    for c in m.chars() {
        if let Some(qc) = q {
            if c == qc {
                q = None;
                out.push('_');
            }
            continue;
        }
        if c == '\'' || c == '"' || c == '`' {
            q = Some(c);
            continue;
        }
        out.push(c);
    }
    out
}

fn perr(e: nitrogql_parser::ParseError) -> Fail {
    let pe: nitrogql_error::PositionedError = e.into();
    let pos = pe.position().map(|p| (p.line, p.column));
    Fail::Err(format!("{}", pe.into_inner()), pos)
}

pub fn parse_exec(text: &str) -> Result<ExecDoc, Fail> {
    match guarded(|| parse_operation_document(text).map(|d| extract::exec_doc_ext(&d))) {
        Err(p) => Err(Fail::Panic(p)),
        Ok(Err(e)) => Err(perr(e)),
        Ok(Ok(d)) => Ok(d),
    }
}

pub fn parse_ts(text: &str) -> Result<TsDoc, Fail> {
    match guarded(|| parse_type_system_document(text).map(|d| extract::ts_doc_ext(&d))) {
        Err(p) => Err(Fail::Panic(p)),
        Ok(Err(e)) => Err(perr(e)),
        Ok(Ok(d)) => Ok(d),
    }
}

// ---------------------------------------------------------------- schema pipeline

use nitrogql_ast::{TypeSystemOrExtensionDocument, set_current_file_of_pos};
use nitrogql_semantics::resolve_schema_extensions;

#[derive(Debug, Clone)]
pub struct PosErr {
    pub msg: String,
    /// (file, line, column)
    pub pos: Option<(usize, usize, usize)>,
    pub builtin_pos: bool,
}

pub fn pos_err(e: nitrogql_error::PositionedError) -> PosErr {
    let pos = e.position();
    PosErr { pos: pos.filter(|p| !p.builtin).map(|p| (p.file, p.line, p.column)), builtin_pos: pos.is_some_and(|p| p.builtin), msg: format!("{}", e.into_inner()) }
}

pub enum ResolveOutcome {
    ParseFail(usize, Fail),
    Panic(Panicked),
    Err(PosErr),
    Ok(TsDoc),
}

/// parse each file (with its file index), merge and resolve extensions — what the CLI does, minus builtins
pub fn resolve_files(files: &[String], with_builtins: bool) -> ResolveOutcome {
    let r = guarded(|| {
        let mut docs = vec![];
        for (i, f) in files.iter().enumerate() {
            set_current_file_of_pos(i);
            match parse_type_system_document(f) {
                Ok(d) => docs.push(d),
                Err(e) => return Err((i, perr(e))),
            }
        }
        let mut merged = TypeSystemOrExtensionDocument::merge(docs);
        if with_builtins {
            merged.extend(graphql_builtins::generate_builtins());
        }
        Ok(match resolve_schema_extensions(merged) {
            Ok(d) => Ok(extract::ts_doc(&d)),
            Err(e) => Err(pos_err(e.into())),
        })
    });
    match r {
        Err(p) => ResolveOutcome::Panic(p),
        Ok(Err((i, f))) => ResolveOutcome::ParseFail(i, f),
        Ok(Ok(Err(e))) => ResolveOutcome::Err(e),
        Ok(Ok(Ok(d))) => ResolveOutcome::Ok(d),
    }
}

// ---------------------------------------------------------------- operation imports

use std::collections::HashMap;
use std::path::{Path, PathBuf};

use nitrogql_ast::OperationDocument;
use nitrogql_ast::base::HasPos;
use nitrogql_ast::operation::ExecutableDefinition;
use nitrogql_semantics::{OperationExtension, OperationResolver, resolve_operation_extensions, resolve_operation_imports};

pub struct MemResolver<'a, 'src> {
    pub by_path: HashMap<PathBuf, (&'a OperationDocument<'src>, &'a OperationExtension<'src>)>,
}

impl<'src> OperationResolver<'src> for MemResolver<'_, 'src> {
    fn resolve(&self, path: &Path) -> Option<(&OperationDocument<'src>, &OperationExtension<'src>)> {
        self.by_path.get(path).copied()
    }
}

pub enum ImportOutcome {
    ParseFail(usize, Fail),
    ExtFail(usize, PosErr),
    Panic(Panicked),
    Err(PosErr),
    /// resolved definitions as (originating file index, "op"/"frag", name) + the extracted document
    Ok(Vec<(usize, &'static str, String)>, ExecDoc),
}

/// Parse every file with its own file index, resolve extensions, then resolve the imports of `root`.
pub fn resolve_imports(files: &[(String, String)], root: usize) -> ImportOutcome {
    let r = guarded(|| {
        let mut parsed = vec![];
        for (i, (_, text)) in files.iter().enumerate() {
            set_current_file_of_pos(i);
            match parse_operation_document(text) {
                Ok(d) => parsed.push(d),
                Err(e) => return ImportOutcome::ParseFail(i, perr(e)),
            }
        }
        let mut resolved = vec![];
        for (i, d) in parsed.into_iter().enumerate() {
            match resolve_operation_extensions(d) {
                Ok(x) => resolved.push(x),
                Err(e) => return ImportOutcome::ExtFail(i, pos_err(e.into())),
            }
        }
        let resolver = MemResolver { by_path: files.iter().zip(resolved.iter()).map(|((p, _), (d, e))| (PathBuf::from(p), (d, e))).collect() };
        let (rd, re) = &resolved[root];
        match resolve_operation_imports((Path::new(&files[root].0), rd, re), &resolver) {
            Err(e) => ImportOutcome::Err(pos_err(e.into())),
            Ok(doc) => {
                let items = doc
                    .definitions
                    .iter()
                    .map(|d| match d {
                        ExecutableDefinition::OperationDefinition(o) => (o.position().file, "op", o.name.map(|n| n.name.to_string()).unwrap_or_default()),
                        ExecutableDefinition::FragmentDefinition(f) => (f.position().file, "frag", f.name.name.to_string()),
                    })
                    .collect();
                ImportOutcome::Ok(items, extract::exec_doc(&doc))
            }
        }
    });
    match r {
        Ok(o) => o,
        Err(p) => ImportOutcome::Panic(p),
    }
}

// ---------------------------------------------------------------- printing

use nitrogql_printer::GraphQLPrinter;
use sourcemap_writer::{JsStringWriter, JustWriter};

/// parse with nitrogql and print the parsed document back with nitrogql's GraphQL printer
pub fn parse_and_print_exec(text: &str) -> Result<(String, Option<String>), Fail> {
    match guarded(|| {
        parse_operation_document(text).map(|d| {
            let mut a = String::new();
            d.print_graphql(&mut JustWriter::new(&mut a));
            let b = resolve_operation_extensions(d).ok().map(|(doc, _)| {
                let mut b = String::new();
                doc.print_graphql(&mut JustWriter::new(&mut b));
                b
            });
            (a, b)
        })
    }) {
        Err(p) => Err(Fail::Panic(p)),
        Ok(Err(e)) => Err(perr(e)),
        Ok(Ok(x)) => Ok(x),
    }
}

/// (plain printing, the same through the JS template-literal writer)
pub fn parse_and_print_ts(text: &str) -> Result<(String, String), Fail> {
    match guarded(|| {
        parse_type_system_document(text).map(|d| {
            let mut a = String::new();
            d.print_graphql(&mut JustWriter::new(&mut a));
            let mut b = String::new();
            {
                let mut w = JsStringWriter::new(&mut b);
                d.print_graphql(&mut w);
            }
            (a, b)
        })
    }) {
        Err(p) => Err(Fail::Panic(p)),
        Ok(Err(e)) => Err(perr(e)),
        Ok(Ok(x)) => Ok(x),
    }
}
