//! Reference GraphQL lexer and recursive-descent parser, written from the GraphQL
//! specification (draft with `\u{...}` escapes) plus nitrogql's documented `#import`
//! extension. Independent of pest and of nitrogql's grammar file.

use crate::model::*;

#[derive(Clone, Copy, Debug, PartialEq, Eq)]
pub enum TK {
    Punct,
    Name,
    Int,
    Float,
    Str,
    BlockStr,
    /// `#import` introducer (the '#' of an import line)
    ImportHash,
    /// `*` inside an import line
    Star,
    Eof,
}

#[derive(Clone, Debug)]
pub struct Tok {
    pub kind: TK,
    pub text: String,
    pub byte: usize,
    pub end: usize,
    pub p: P,
    /// for Str/BlockStr: decoded value
    pub value: Option<String>,
}

#[derive(Clone, Debug)]
pub struct RefErr {
    pub line: usize,
    pub col: usize,
    pub msg: String,
}

struct Cur<'a> {
    src: &'a str,
    b: &'a [u8],
    i: usize,
    line: usize,
    col: usize,
    col16: usize,
}

impl<'a> Cur<'a> {
    fn peek(&self) -> Option<char> {
        self.src[self.i..].chars().next()
    }
    fn peek_at(&self, n: usize) -> Option<u8> {
        self.b.get(self.i + n).copied()
    }
    fn bump(&mut self) -> Option<char> {
        let c = self.peek()?;
        self.i += c.len_utf8();
        if c == '\n' {
            self.line += 1;
            self.col = 0;
            self.col16 = 0;
        } else if c == '\r' {
            if self.peek() != Some('\n') {
                self.line += 1;
                self.col = 0;
                self.col16 = 0;
            } else {
                // the following \n terminates the line
                self.col += 1;
                self.col16 += 1;
            }
        } else {
            self.col += 1;
            self.col16 += c.len_utf16();
        }
        Some(c)
    }
    fn p(&self) -> P {
        P::at(self.line, self.col, self.col16)
    }
    fn err<T>(&self, msg: &str) -> Result<T, RefErr> {
        Err(RefErr { line: self.line, col: self.col, msg: msg.to_string() })
    }
}

fn is_name_start(c: u8) -> bool {
    c.is_ascii_alphabetic() || c == b'_'
}
fn is_name_cont(c: u8) -> bool {
    c.is_ascii_alphanumeric() || c == b'_'
}

/// spec BlockStringValue(rawValue)
pub fn block_string_value(raw: &str) -> String {
    // split into lines on \r\n | \n | \r
    let mut lines: Vec<String> = vec![];
    let mut cur = String::new();
    let mut it = raw.chars().peekable();
    while let Some(c) = it.next() {
        if c == '\r' {
            if it.peek() == Some(&'\n') {
                it.next();
            }
            lines.push(std::mem::take(&mut cur));
        } else if c == '\n' {
            lines.push(std::mem::take(&mut cur));
        } else {
            cur.push(c);
        }
    }
    lines.push(cur);
    let is_ws = |c: char| c == ' ' || c == '\t';
    let mut common: Option<usize> = None;
    for l in lines.iter().skip(1) {
        let indent = l.chars().take_while(|c| is_ws(*c)).count();
        if indent < l.chars().count() && common.is_none_or(|c| indent < c) {
            common = Some(indent);
        }
    }
    if let Some(c) = common {
        for l in lines.iter_mut().skip(1) {
            let n = l.chars().count().min(c);
            // remove at most `c` leading characters (they are whitespace for non-blank lines)
            let cut: usize = l.chars().take(n).map(|ch| ch.len_utf8()).sum();
            *l = l[cut..].to_string();
        }
    }
    let blank = |l: &String| l.chars().all(is_ws);
    while lines.first().is_some_and(blank) {
        lines.remove(0);
    }
    while lines.last().is_some_and(blank) {
        lines.pop();
    }
    lines.join("\n")
}

pub fn lex(src: &str) -> Result<Vec<Tok>, RefErr> {
    let mut c = Cur { src, b: src.as_bytes(), i: 0, line: 0, col: 0, col16: 0 };
    let mut toks = vec![];
    // true while lexing the rest of an import line
    let mut import_line: Option<usize> = None;
    loop {
        // skip ignored
        loop {
            match c.peek() {
                Some('\u{FEFF}') | Some(' ') | Some('\t') | Some('\n') | Some('\r') | Some(',') => {
                    c.bump();
                }
                Some('#') => {
                    // import statement?
                    let rest = &src[c.i + 1..];
                    let trimmed = rest.trim_start_matches(' ');
                    let is_import = trimmed.starts_with("import") && !trimmed.as_bytes().get(6).is_some_and(|b| is_name_cont(*b));
                    if is_import {
                        break;
                    }
                    while let Some(ch) = c.peek() {
                        if ch == '\n' || ch == '\r' {
                            break;
                        }
                        c.bump();
                    }
                }
                _ => break,
            }
        }
        if let Some(l) = import_line {
            if c.line != l {
                import_line = None;
            }
        }
        let start = c.i;
        let p = c.p();
        let Some(ch) = c.peek() else {
            toks.push(Tok { kind: TK::Eof, text: String::new(), byte: start, end: start, p, value: None });
            return Ok(toks);
        };
        let mut push = |kind: TK, c: &Cur, value: Option<String>| {
            toks.push(Tok { kind, text: src[start..c.i].to_string(), byte: start, end: c.i, p, value });
        };
        match ch {
            '#' => {
                c.bump();
                import_line = Some(c.line);
                push(TK::ImportHash, &c, None);
            }
            '*' if import_line.is_some() => {
                c.bump();
                push(TK::Star, &c, None);
            }
            '!' | '$' | '&' | '(' | ')' | ':' | '=' | '@' | '[' | ']' | '{' | '|' | '}' => {
                c.bump();
                push(TK::Punct, &c, None);
            }
            '.' => {
                if c.peek_at(1) == Some(b'.') && c.peek_at(2) == Some(b'.') {
                    c.bump();
                    c.bump();
                    c.bump();
                    push(TK::Punct, &c, None);
                } else {
                    return c.err("unexpected '.'");
                }
            }
            '"' => {
                if c.peek_at(1) == Some(b'"') && c.peek_at(2) == Some(b'"') {
                    c.bump();
                    c.bump();
                    c.bump();
                    let mut raw = String::new();
                    loop {
                        if c.peek_at(0) == Some(b'"') && c.peek_at(1) == Some(b'"') && c.peek_at(2) == Some(b'"') {
                            c.bump();
                            c.bump();
                            c.bump();
                            break;
                        }
                        if c.peek_at(0) == Some(b'\\') && c.peek_at(1) == Some(b'"') && c.peek_at(2) == Some(b'"') && c.peek_at(3) == Some(b'"') {
                            c.bump();
                            c.bump();
                            c.bump();
                            c.bump();
                            raw.push_str("\"\"\"");
                            continue;
                        }
                        match c.bump() {
                            None => return c.err("unterminated block string"),
                            Some(ch) => raw.push(ch),
                        }
                    }
                    let v = block_string_value(&raw);
                    push(TK::BlockStr, &c, Some(v));
                } else {
                    c.bump();
                    let mut v = String::new();
                    loop {
                        let Some(ch) = c.peek() else { return c.err("unterminated string") };
                        match ch {
                            '"' => {
                                c.bump();
                                break;
                            }
                            '\n' | '\r' => return c.err("line terminator in string"),
                            '\\' => {
                                c.bump();
                                let Some(e) = c.bump() else { return c.err("unterminated escape") };
                                match e {
                                    '"' => v.push('"'),
                                    '\\' => v.push('\\'),
                                    '/' => v.push('/'),
                                    'b' => v.push('\u{8}'),
                                    'f' => v.push('\u{c}'),
                                    'n' => v.push('\n'),
                                    'r' => v.push('\r'),
                                    't' => v.push('\t'),
                                    'u' => {
                                        let read4 = |c: &mut Cur| -> Result<u32, RefErr> {
                                            let mut x = 0u32;
                                            for _ in 0..4 {
                                                match c.bump().and_then(|h| h.to_digit(16)) {
                                                    Some(d) => x = x * 16 + d,
                                                    None => return c.err("bad \\u escape"),
                                                }
                                            }
                                            Ok(x)
                                        };
                                        if c.peek() == Some('{') {
                                            c.bump();
                                            let mut x: u32 = 0;
                                            let mut n = 0;
                                            loop {
                                                match c.bump() {
                                                    Some('}') => break,
                                                    Some(h) if h.is_ascii_hexdigit() => {
                                                        x = x.saturating_mul(16).saturating_add(h.to_digit(16).unwrap());
                                                        n += 1;
                                                    }
                                                    _ => return c.err("bad \\u{} escape"),
                                                }
                                            }
                                            if n == 0 {
                                                return c.err("empty \\u{} escape");
                                            }
                                            match char::from_u32(x) {
                                                Some(ch) => v.push(ch),
                                                None => return c.err("\\u{} escape is not a Unicode scalar value"),
                                            }
                                        } else {
                                            let x = read4(&mut c)?;
                                            if (0xD800..0xDC00).contains(&x) {
                                                // leading surrogate: must be followed by \uDC00-DFFF
                                                if c.peek_at(0) == Some(b'\\') && c.peek_at(1) == Some(b'u') {
                                                    c.bump();
                                                    c.bump();
                                                    let y = read4(&mut c)?;
                                                    if (0xDC00..0xE000).contains(&y) {
                                                        let cp = 0x10000 + ((x - 0xD800) << 10) + (y - 0xDC00);
                                                        v.push(char::from_u32(cp).unwrap());
                                                    } else {
                                                        return c.err("lone leading surrogate");
                                                    }
                                                } else {
                                                    return c.err("lone leading surrogate");
                                                }
                                            } else if (0xDC00..0xE000).contains(&x) {
                                                return c.err("lone trailing surrogate");
                                            } else {
                                                v.push(char::from_u32(x).unwrap());
                                            }
                                        }
                                    }
                                    _ => return c.err("unknown escape"),
                                }
                            }
                            ch => {
                                v.push(ch);
                                c.bump();
                            }
                        }
                    }
                    push(TK::Str, &c, Some(v));
                }
            }
            '-' | '0'..='9' => {
                if ch == '-' {
                    c.bump();
                }
                match c.peek() {
                    Some('0') => {
                        c.bump();
                        if c.peek().is_some_and(|d| d.is_ascii_digit()) {
                            return c.err("leading zero");
                        }
                    }
                    Some('1'..='9') => {
                        while c.peek().is_some_and(|d| d.is_ascii_digit()) {
                            c.bump();
                        }
                    }
                    _ => return c.err("malformed number"),
                }
                let mut float = false;
                if c.peek() == Some('.') {
                    float = true;
                    c.bump();
                    if !c.peek().is_some_and(|d| d.is_ascii_digit()) {
                        return c.err("digit expected after '.'");
                    }
                    while c.peek().is_some_and(|d| d.is_ascii_digit()) {
                        c.bump();
                    }
                }
                if matches!(c.peek(), Some('e') | Some('E')) {
                    float = true;
                    c.bump();
                    if matches!(c.peek(), Some('+') | Some('-')) {
                        c.bump();
                    }
                    if !c.peek().is_some_and(|d| d.is_ascii_digit()) {
                        return c.err("digit expected in exponent");
                    }
                    while c.peek().is_some_and(|d| d.is_ascii_digit()) {
                        c.bump();
                    }
                }
                if c.peek().is_some_and(|d| d == '.' || (d.is_ascii() && is_name_start(d as u8))) {
                    return c.err("number followed by name start or '.'");
                }
                push(if float { TK::Float } else { TK::Int }, &c, None);
            }
            ch if ch.is_ascii() && is_name_start(ch as u8) => {
                while c.peek().is_some_and(|d| d.is_ascii() && is_name_cont(d as u8)) {
                    c.bump();
                }
                push(TK::Name, &c, None);
            }
            _ => return c.err(&format!("unexpected character {ch:?}")),
        }
    }
}

// ---------------------------------------------------------------------------- parser

pub struct Parser {
    toks: Vec<Tok>,
    i: usize,
}

type R<T> = Result<T, RefErr>;

impl Parser {
    pub fn new(src: &str) -> R<Parser> {
        Ok(Parser { toks: lex(src)?, i: 0 })
    }
    fn t(&self) -> &Tok {
        &self.toks[self.i]
    }
    fn la(&self, n: usize) -> &Tok {
        &self.toks[(self.i + n).min(self.toks.len() - 1)]
    }
    fn err<T>(&self, msg: &str) -> R<T> {
        let t = self.t();
        Err(RefErr { line: t.p.line as usize, col: t.p.col as usize, msg: format!("{msg} (at {:?})", t.text) })
    }
    fn is_p(&self, s: &str) -> bool {
        self.t().kind == TK::Punct && self.t().text == s
    }
    fn is_kw(&self, s: &str) -> bool {
        self.t().kind == TK::Name && self.t().text == s
    }
    fn eat_p(&mut self, s: &str) -> bool {
        if self.is_p(s) {
            self.i += 1;
            true
        } else {
            false
        }
    }
    fn expect_p(&mut self, s: &str) -> R<P> {
        if self.is_p(s) {
            let p = self.t().p;
            self.i += 1;
            Ok(p)
        } else {
            self.err(&format!("expected {s:?}"))
        }
    }
    fn expect_kw(&mut self, s: &str) -> R<P> {
        if self.is_kw(s) {
            let p = self.t().p;
            self.i += 1;
            Ok(p)
        } else {
            self.err(&format!("expected keyword {s}"))
        }
    }
    fn name(&mut self) -> R<Name> {
        if self.t().kind == TK::Name {
            let n = Name { s: self.t().text.clone(), p: self.t().p };
            self.i += 1;
            Ok(n)
        } else {
            self.err("expected Name")
        }
    }

    fn ty(&mut self) -> R<Ty> {
        let base = if self.is_p("[") {
            let p = self.t().p;
            self.i += 1;
            let inner = self.ty()?;
            self.expect_p("]")?;
            Ty::List(Box::new(inner), p)
        } else {
            Ty::Named(self.name()?)
        };
        if self.eat_p("!") { Ok(Ty::NonNull(Box::new(base))) } else { Ok(base) }
    }

    fn strlit(&mut self) -> R<StrLit> {
        let t = self.t().clone();
        match t.kind {
            TK::Str | TK::BlockStr => {
                self.i += 1;
                Ok(StrLit { value: t.value.unwrap_or_default(), p: t.p, block: t.kind == TK::BlockStr, raw: Some(t.text) })
            }
            _ => self.err("expected StringValue"),
        }
    }

    fn value(&mut self, is_const: bool) -> R<Val> {
        let t = self.t().clone();
        match t.kind {
            TK::Punct if t.text == "$" => {
                if is_const {
                    return self.err("variable in const value");
                }
                self.i += 1;
                let n = self.name()?;
                Ok(Val::Var(Name { s: n.s, p: t.p }))
            }
            TK::Int => {
                self.i += 1;
                Ok(Val::Int(t.text, t.p))
            }
            TK::Float => {
                self.i += 1;
                Ok(Val::Float(t.text, t.p))
            }
            TK::Str | TK::BlockStr => Ok(Val::Str(self.strlit()?)),
            TK::Name => {
                self.i += 1;
                Ok(match t.text.as_str() {
                    "true" => Val::Bool(true, t.p),
                    "false" => Val::Bool(false, t.p),
                    "null" => Val::Null(t.p),
                    _ => Val::Enum(t.text, t.p),
                })
            }
            TK::Punct if t.text == "[" => {
                self.i += 1;
                let mut vs = vec![];
                while !self.is_p("]") {
                    if self.t().kind == TK::Eof {
                        return self.err("unterminated list");
                    }
                    vs.push(self.value(is_const)?);
                }
                self.i += 1;
                Ok(Val::List(vs, t.p))
            }
            TK::Punct if t.text == "{" => {
                self.i += 1;
                let mut fs = vec![];
                while !self.is_p("}") {
                    let n = self.name()?;
                    self.expect_p(":")?;
                    fs.push((n, self.value(is_const)?));
                }
                self.i += 1;
                Ok(Val::Obj(fs, t.p))
            }
            _ => self.err("expected Value"),
        }
    }

    fn arguments(&mut self, is_const: bool) -> R<(Vec<(Name, Val)>, P)> {
        if !self.is_p("(") {
            return Ok((vec![], P::none()));
        }
        let p = self.t().p;
        self.i += 1;
        let mut out = vec![];
        loop {
            let n = self.name()?;
            self.expect_p(":")?;
            out.push((n, self.value(is_const)?));
            if self.eat_p(")") {
                break;
            }
        }
        Ok((out, p))
    }

    fn directives(&mut self, is_const: bool) -> R<Vec<Dir>> {
        let mut out = vec![];
        while self.is_p("@") {
            let p = self.t().p;
            self.i += 1;
            let name = self.name()?;
            let (args, args_p) = self.arguments(is_const)?;
            out.push(Dir { name, p, args, args_p });
        }
        Ok(out)
    }

    fn selection_set(&mut self) -> R<SelSet> {
        let p = self.expect_p("{")?;
        let mut items = vec![];
        loop {
            items.push(self.selection()?);
            if self.eat_p("}") {
                break;
            }
        }
        Ok(SelSet { p, items })
    }

    fn selection(&mut self) -> R<Sel> {
        if self.is_p("...") {
            let p = self.t().p;
            self.i += 1;
            if self.t().kind == TK::Name && self.t().text != "on" {
                let name = self.name()?;
                let dirs = self.directives(false)?;
                return Ok(Sel::Spread { p, name, dirs });
            }
            let cond = if self.is_kw("on") {
                self.i += 1;
                Some(self.name()?)
            } else {
                None
            };
            let dirs = self.directives(false)?;
            let sels = self.selection_set()?;
            return Ok(Sel::Inline { p, cond, dirs, sels });
        }
        let first = self.name()?;
        let (alias, name) = if self.eat_p(":") { (Some(first), self.name()?) } else { (None, first) };
        let (args, args_p) = self.arguments(false)?;
        let dirs = self.directives(false)?;
        let sels = if self.is_p("{") { Some(self.selection_set()?) } else { None };
        Ok(Sel::Field(Field { alias, name, args, args_p, dirs, sels }))
    }

    pub fn executable_document(&mut self) -> R<ExecDoc> {
        let mut defs = vec![];
        loop {
            let t = self.t().clone();
            match t.kind {
                TK::Eof => break,
                TK::ImportHash => {
                    self.i += 1;
                    self.expect_kw("import")?;
                    let mut targets = vec![];
                    loop {
                        if self.t().kind == TK::Star {
                            self.i += 1;
                            targets.push(None);
                        } else if self.is_kw("from") && !targets.is_empty() {
                            break;
                        } else if self.t().kind == TK::Name {
                            targets.push(Some(self.name()?));
                        } else {
                            return self.err("expected import target");
                        }
                    }
                    self.expect_kw("from")?;
                    let path = self.strlit()?;
                    defs.push(ExecDef::Import(Import { p: t.p, targets, path }));
                }
                TK::Punct if t.text == "{" => {
                    let sels = self.selection_set()?;
                    defs.push(ExecDef::Op(OpDef { p: t.p, kind: OpKind::Query, name: None, vars: vec![], vars_p: P::none(), dirs: vec![], sels, shorthand: true }));
                }
                TK::Name if matches!(t.text.as_str(), "query" | "mutation" | "subscription") => {
                    self.i += 1;
                    let kind = match t.text.as_str() {
                        "query" => OpKind::Query,
                        "mutation" => OpKind::Mutation,
                        _ => OpKind::Subscription,
                    };
                    let name = if self.t().kind == TK::Name { Some(self.name()?) } else { None };
                    let mut vars = vec![];
                    let mut vars_p = P::none();
                    if self.is_p("(") {
                        vars_p = self.t().p;
                        self.i += 1;
                        loop {
                            let p = self.expect_p("$")?;
                            let n = self.name()?;
                            self.expect_p(":")?;
                            let ty = self.ty()?;
                            let default = if self.eat_p("=") { Some(self.value(true)?) } else { None };
                            let dirs = self.directives(true)?;
                            vars.push(VarDef { p, name: Name { s: n.s, p }, ty, default, dirs });
                            if self.eat_p(")") {
                                break;
                            }
                        }
                    }
                    let dirs = self.directives(false)?;
                    let sels = self.selection_set()?;
                    defs.push(ExecDef::Op(OpDef { p: t.p, kind, name, vars, vars_p, dirs, sels, shorthand: false }));
                }
                TK::Name if t.text == "fragment" => {
                    self.i += 1;
                    if self.is_kw("on") {
                        return self.err("fragment name must not be 'on'");
                    }
                    let name = self.name()?;
                    self.expect_kw("on")?;
                    let cond = self.name()?;
                    let dirs = self.directives(false)?;
                    let sels = self.selection_set()?;
                    defs.push(ExecDef::Frag(FragDef { p: t.p, name, cond, dirs, sels }));
                }
                _ => return self.err("expected executable definition"),
            }
        }
        if defs.is_empty() {
            return self.err("empty document");
        }
        Ok(ExecDoc { defs })
    }

    // ------------------------------------------------------------ type system

    fn description(&mut self) -> R<Option<StrLit>> {
        if matches!(self.t().kind, TK::Str | TK::BlockStr) { Ok(Some(self.strlit()?)) } else { Ok(None) }
    }

    fn input_value_defs(&mut self, open: &str, close: &str) -> R<Vec<InputValueDef>> {
        if !self.is_p(open) {
            return Ok(vec![]);
        }
        self.i += 1;
        let mut out = vec![];
        loop {
            let desc = self.description()?;
            let name = self.name()?;
            self.expect_p(":")?;
            let ty = self.ty()?;
            let default = if self.eat_p("=") { Some(self.value(true)?) } else { None };
            let dirs = self.directives(true)?;
            out.push(InputValueDef { desc, name, ty, default, dirs });
            if self.eat_p(close) {
                break;
            }
        }
        Ok(out)
    }

    fn field_defs(&mut self) -> R<Vec<FieldDef>> {
        if !self.is_p("{") {
            return Ok(vec![]);
        }
        self.i += 1;
        let mut out = vec![];
        loop {
            let desc = self.description()?;
            let name = self.name()?;
            let args = self.input_value_defs("(", ")")?;
            self.expect_p(":")?;
            let ty = self.ty()?;
            let dirs = self.directives(true)?;
            out.push(FieldDef { desc, name, args, ty, dirs });
            if self.eat_p("}") {
                break;
            }
        }
        Ok(out)
    }

    fn implements(&mut self) -> R<Vec<Name>> {
        let mut out = vec![];
        if self.is_kw("implements") {
            self.i += 1;
            self.eat_p("&");
            loop {
                out.push(self.name()?);
                if !self.eat_p("&") {
                    break;
                }
            }
        }
        Ok(out)
    }

    fn roots(&mut self) -> R<Vec<(OpKind, Name)>> {
        let mut roots = vec![];
        self.expect_p("{")?;
        loop {
            let k = self.name()?;
            let kind = match k.s.as_str() {
                "query" => OpKind::Query,
                "mutation" => OpKind::Mutation,
                "subscription" => OpKind::Subscription,
                _ => return self.err("expected operation type"),
            };
            self.expect_p(":")?;
            roots.push((kind, self.name()?));
            if self.eat_p("}") {
                break;
            }
        }
        Ok(roots)
    }

    pub fn type_system_document(&mut self) -> R<TsDoc> {
        let mut defs = vec![];
        while self.t().kind != TK::Eof {
            let start_p = self.t().p;
            let ext = self.is_kw("extend");
            if ext {
                self.i += 1;
            }
            let desc = if ext { None } else { self.description()? };
            let kwt = self.t().clone();
            if kwt.kind != TK::Name {
                return self.err("expected type system definition");
            }
            let p = if ext { start_p } else { kwt.p };
            match kwt.text.as_str() {
                "schema" => {
                    self.i += 1;
                    let dirs = self.directives(true)?;
                    let roots = if self.is_p("{") {
                        self.roots()?
                    } else if ext && !dirs.is_empty() {
                        vec![]
                    } else {
                        return self.err("expected root operation types");
                    };
                    // nitrogql reports the start of the whole definition (description included)
                    let p = if ext { start_p } else { kwt.p };
                    defs.push(TsDef::Schema(SchemaDef { ext, desc, p, dirs, roots }));
                }
                "directive" => {
                    if ext {
                        return self.err("directive definitions cannot be extended");
                    }
                    self.i += 1;
                    self.expect_p("@")?;
                    let name = self.name()?;
                    let args = self.input_value_defs("(", ")")?;
                    let mut repeatable = false;
                    let mut repeatable_p = P::none();
                    if self.is_kw("repeatable") {
                        repeatable = true;
                        repeatable_p = self.t().p;
                        self.i += 1;
                    }
                    self.expect_kw("on")?;
                    self.eat_p("|");
                    let mut locations = vec![];
                    loop {
                        let l = self.name()?;
                        const LOCS: &[&str] = &[
                            "QUERY", "MUTATION", "SUBSCRIPTION", "FIELD", "FRAGMENT_DEFINITION", "FRAGMENT_SPREAD", "INLINE_FRAGMENT", "VARIABLE_DEFINITION", "SCHEMA", "SCALAR", "OBJECT",
                            "FIELD_DEFINITION", "ARGUMENT_DEFINITION", "INTERFACE", "UNION", "ENUM", "ENUM_VALUE", "INPUT_OBJECT", "INPUT_FIELD_DEFINITION",
                        ];
                        if !LOCS.contains(&l.s.as_str()) {
                            self.i -= 1;
                            return self.err("unknown directive location");
                        }
                        locations.push(l);
                        if !self.eat_p("|") {
                            break;
                        }
                    }
                    defs.push(TsDef::Directive(DirectiveDef { desc, p, name, args, repeatable, repeatable_p, locations }));
                }
                kw @ ("scalar" | "type" | "interface" | "union" | "enum" | "input") => {
                    self.i += 1;
                    let kind = match kw {
                        "scalar" => TKind::Scalar,
                        "type" => TKind::Object,
                        "interface" => TKind::Interface,
                        "union" => TKind::Union,
                        "enum" => TKind::Enum,
                        _ => TKind::Input,
                    };
                    let name = self.name()?;
                    let mut td = TypeDef::new(kind, &name.s);
                    td.name = name;
                    td.ext = ext;
                    td.desc = desc;
                    td.p = p;
                    if matches!(kind, TKind::Object | TKind::Interface) {
                        td.implements = self.implements()?;
                    }
                    td.dirs = self.directives(true)?;
                    match kind {
                        TKind::Scalar => {}
                        TKind::Object | TKind::Interface => td.fields = self.field_defs()?,
                        TKind::Union => {
                            if self.eat_p("=") {
                                self.eat_p("|");
                                loop {
                                    td.members.push(self.name()?);
                                    if !self.eat_p("|") {
                                        break;
                                    }
                                }
                            }
                        }
                        TKind::Enum => {
                            if self.is_p("{") {
                                self.i += 1;
                                loop {
                                    let desc = self.description()?;
                                    let name = self.name()?;
                                    if matches!(name.s.as_str(), "true" | "false" | "null") {
                                        return self.err("enum value must not be true/false/null");
                                    }
                                    let dirs = self.directives(true)?;
                                    td.values.push(EnumValDef { desc, name, dirs });
                                    if self.eat_p("}") {
                                        break;
                                    }
                                }
                            }
                        }
                        TKind::Input => td.input_fields = self.input_value_defs("{", "}")?,
                    }
                    if ext && td.implements.is_empty() && td.dirs.is_empty() && td.fields.is_empty() && td.members.is_empty() && td.values.is_empty() && td.input_fields.is_empty() {
                        return self.err("extension without content");
                    }
                    defs.push(TsDef::Type(td));
                }
                _ => return self.err("expected type system definition"),
            }
        }
        if defs.is_empty() {
            return self.err("empty document");
        }
        Ok(TsDoc { defs })
    }
}

pub fn parse_exec(src: &str) -> R<ExecDoc> {
    Parser::new(src)?.executable_document()
}

pub fn parse_ts(src: &str) -> R<TsDoc> {
    Parser::new(src)?.type_system_document()
}

/// token start table of a GraphQL text: (line, col chars, col utf16, text, kind); lexing errors give the tokens so far
pub fn token_table(src: &str) -> Vec<Tok> {
    match lex(src) {
        Ok(t) => t,
        Err(_) => {
            // lex progressively: cut at the failing point by retrying on prefixes is expensive; return empty
            vec![]
        }
    }
}
