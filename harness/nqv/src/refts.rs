//! Reference TypeScript denotations of schema types, per target, as canonical strings in the
//! syntax of `ts::canon` (so they can be compared with evaluated emitted types).

use std::collections::BTreeMap;

use crate::model::*;
use crate::schema_ix::SchemaIx;
use crate::ts;

#[derive(Clone, Copy, Debug, PartialEq, Eq, PartialOrd, Ord)]
pub enum Target {
    OperationInput,
    OperationOutput,
    ResolverInput,
    ResolverOutput,
}

impl Target {
    pub fn all() -> [Target; 4] {
        [Target::OperationInput, Target::OperationOutput, Target::ResolverInput, Target::ResolverOutput]
    }
    pub fn ns(&self) -> &'static str {
        match self {
            Target::OperationInput => "__OperationInput",
            Target::OperationOutput => "__OperationOutput",
            Target::ResolverInput => "__ResolverInput",
            Target::ResolverOutput => "__ResolverOutput",
        }
    }
    pub fn is_input(&self) -> bool {
        matches!(self, Target::OperationInput | Target::ResolverInput)
    }
    /// index into the four-way scalar mapping [resolverOutput, resolverInput, operationOutput, operationInput]
    fn slot(&self) -> usize {
        match self {
            Target::ResolverOutput => 0,
            Target::ResolverInput => 1,
            Target::OperationOutput => 2,
            Target::OperationInput => 3,
        }
    }
}

pub struct ScalarMap {
    /// scalar name -> [resolverOutput, resolverInput, operationOutput, operationInput] TypeScript text
    pub map: BTreeMap<String, [String; 4]>,
}

impl ScalarMap {
    /// built-ins + config entries ("a", "send||receive", "ro||ri||oo||oi") + @nitrogql_ts_type directives (config wins)
    pub fn new(ix: &SchemaIx, config: &[(String, String)]) -> ScalarMap {
        let mut map = BTreeMap::new();
        let four = |s: &str| [s.to_string(), s.to_string(), s.to_string(), s.to_string()];
        map.insert("Int".into(), four("number"));
        map.insert("Float".into(), four("number"));
        map.insert("String".into(), four("string"));
        map.insert("Boolean".into(), four("boolean"));
        // ID: send = string | number, receive = string
        map.insert("ID".into(), ["string | number".into(), "string".into(), "string".into(), "string | number".into()]);
        for (name, t) in &ix.types {
            // the built-in scalars always have a configuration entry (the defaults), and the configuration wins
            if t.kind == TKind::Scalar && !crate::schema_ix::BUILTIN_SCALARS.contains(&name.as_str()) {
                if let Some(d) = t.dirs.iter().find(|d| d.name.s == "nitrogql_ts_type") {
                    let g = |k: &str| match d.arg(k) {
                        Some(Val::Str(s)) => Some(s.value.clone()),
                        _ => None,
                    };
                    if let (Some(ri), Some(ro), Some(oi), Some(oo)) = (g("resolverInput"), g("resolverOutput"), g("operationInput"), g("operationOutput")) {
                        map.insert(name.clone(), [ro, ri, oo, oi]);
                    }
                }
            }
        }
        for (name, v) in config {
            let parts: Vec<&str> = v.split("||").collect();
            let e = match parts.len() {
                // send -> resolverOutput & operationInput ; receive -> resolverInput & operationOutput
                2 => [parts[0].to_string(), parts[1].to_string(), parts[1].to_string(), parts[0].to_string()],
                4 => [parts[0].to_string(), parts[1].to_string(), parts[2].to_string(), parts[3].to_string()],
                _ => four(v),
            };
            map.insert(name.clone(), e);
        }
        ScalarMap { map }
    }
    pub fn text(&self, scalar: &str, t: Target) -> Option<&str> {
        self.map.get(scalar).map(|a| a[t.slot()].as_str())
    }
}

/// canonical text of a TypeScript type written in a scalar mapping, evaluated where no schema alias is in scope
pub fn scalar_text_canon(text: &str) -> Result<String, String> {
    let ty = ts::parse_type(text)?;
    let prog = ts::Program { scopes: vec![ts::Scope::default()], modules: vec![0], imports: vec![vec![]] };
    let ev = ts::Eval::new(&prog);
    let nf = ev.eval(0, &ty, &std::rc::Rc::new(BTreeMap::new()));
    Ok(ts::canon(&ev, &nf))
}

pub fn union_canon(mut items: Vec<String>) -> String {
    // flatten textual unions (items may themselves be unions)
    let mut flat: Vec<String> = vec![];
    for i in items.drain(..) {
        for part in split_top_union(&i) {
            flat.push(part);
        }
    }
    flat.retain(|x| x != "never");
    if flat.iter().any(|x| x == "unknown") {
        return "unknown".into();
    }
    flat.sort();
    flat.dedup();
    if flat.is_empty() { "never".into() } else { flat.join(" | ") }
}

/// split a canonical union text at top level
fn split_top_union(s: &str) -> Vec<String> {
    let mut out = vec![];
    let mut depth = 0i32;
    let mut cur = String::new();
    let b: Vec<char> = s.chars().collect();
    let mut i = 0;
    let mut in_str = false;
    while i < b.len() {
        let c = b[i];
        if in_str {
            cur.push(c);
            if c == '\\' && i + 1 < b.len() {
                cur.push(b[i + 1]);
                i += 2;
                continue;
            }
            if c == '"' {
                in_str = false;
            }
            i += 1;
            continue;
        }
        match c {
            '"' => {
                in_str = true;
                cur.push(c);
            }
            '(' | '{' | '<' | '[' => {
                depth += 1;
                cur.push(c);
            }
            ')' | '}' | '>' | ']' => {
                depth -= 1;
                cur.push(c);
            }
            '|' if depth == 0 && i > 0 && b[i - 1] == ' ' && b.get(i + 1) == Some(&' ') => {
                out.push(cur.trim().to_string());
                cur = String::new();
            }
            _ => cur.push(c),
        }
        i += 1;
    }
    if !cur.trim().is_empty() {
        out.push(cur.trim().to_string());
    }
    out
}

pub struct RefCx<'a> {
    pub ix: &'a SchemaIx,
    pub scalars: &'a ScalarMap,
    pub allow_undefined_as_optional_input: bool,
}

impl RefCx<'_> {
    /// canon of a named type as seen from namespace `t` (what the alias of that name denotes, object aliases by reference)
    pub fn named(&self, name: &str, t: Target) -> Result<String, String> {
        match self.ix.kind(name) {
            None => Err(format!("unknown type {name}")),
            Some(TKind::Scalar) => match self.scalars.text(name, t) {
                Some(text) => scalar_text_canon(text),
                None => Err(format!("no TypeScript type configured for scalar {name}")),
            },
            Some(TKind::Enum) => Ok(union_canon(self.ix.enum_values(name).iter().map(|v| format!("{v:?}")).collect())),
            Some(TKind::Object) | Some(TKind::Input) => Ok(format!("@{}.{name}", t.ns())),
            Some(TKind::Interface) | Some(TKind::Union) => Ok(union_canon(self.ix.possible(name).iter().map(|o| format!("@{}.{o}", t.ns())).collect())),
        }
    }

    /// canon of a GraphQL type expression in namespace `t` (inner positions: nullable = `| null`)
    pub fn ty(&self, ty: &Ty, t: Target) -> Result<String, String> {
        match ty {
            Ty::NonNull(inner) => self.ty_nn(inner, t),
            other => Ok(union_canon(vec![self.ty_nn(other, t)?, "null".into()])),
        }
    }
    fn ty_nn(&self, ty: &Ty, t: Target) -> Result<String, String> {
        match ty {
            Ty::NonNull(inner) => self.ty_nn(inner, t),
            Ty::List(inner, _) => Ok(format!("({})[]", self.ty(inner, t)?)),
            Ty::Named(n) => self.named(&n.s, t),
        }
    }
    /// input lists are readonly
    fn ty_in(&self, ty: &Ty, t: Target) -> Result<String, String> {
        match ty {
            Ty::NonNull(inner) => self.ty_in_nn(inner, t),
            other => Ok(union_canon(vec![self.ty_in_nn(other, t)?, "null".into()])),
        }
    }
    fn ty_in_nn(&self, ty: &Ty, t: Target) -> Result<String, String> {
        match ty {
            Ty::NonNull(inner) => self.ty_in_nn(inner, t),
            Ty::List(inner, _) => Ok(format!("readonly ({})[]", self.ty_in(inner, t)?)),
            Ty::Named(n) => self.named(&n.s, t),
        }
    }

    /// canon of the *definition* of an object / input object alias (the object type itself)
    pub fn object_body(&self, name: &str, t: Target) -> Result<String, String> {
        let def = self.ix.ty(name).ok_or("unknown type")?;
        let mut props: BTreeMap<String, String> = BTreeMap::new();
        match def.kind {
            TKind::Object => {
                props.insert("__typename".into(), format!("__typename: {name:?}; "));
                for f in &def.fields {
                    props.insert(f.name.s.clone(), format!("{}: {}; ", f.name.s, self.ty(&f.ty, t)?));
                }
            }
            TKind::Input => {
                for f in &def.input_fields {
                    let nullable = !f.ty.is_non_null();
                    let (opt, tyc) = if nullable && self.allow_undefined_as_optional_input { ("?", union_canon(vec![self.ty_in(&f.ty, t)?, "undefined".into()])) } else { ("", self.ty_in(&f.ty, t)?) };
                    props.insert(f.name.s.clone(), format!("readonly {}{opt}: {tyc}; ", f.name.s));
                }
            }
            _ => return Err("not an object-like type".into()),
        }
        let mut s = String::from("{");
        for v in props.values() {
            s.push_str(v);
        }
        s.push('}');
        Ok(s)
    }

    /// names that namespace `t` must export
    pub fn names_in(&self, t: Target) -> Vec<String> {
        self.ix
            .order
            .iter()
            .filter(|n| match self.ix.kind(n) {
                Some(TKind::Scalar) | Some(TKind::Enum) => true,
                Some(TKind::Input) => t.is_input(),
                Some(_) => !t.is_input(),
                None => false,
            })
            .cloned()
            .collect()
    }
}
