//! Valid-by-construction schema models (spec-valid type system documents).

use crate::gen_syntax::gen_text;
use crate::model::*;
use crate::rng::Rng;
use crate::schema_ix::SchemaIx;

#[derive(Clone, Debug)]
pub struct SchemaOpts {
    pub max_objects: usize,
    pub hostile_text: bool,
    pub descriptions: bool,
    pub custom_directives: bool,
    /// `schema { ... }` block with renamed roots
    pub schema_block: bool,
    /// literals that rely on input coercion (Int for Float / ID, single value for list) in defaults and directive args
    pub coercing_literals: bool,
    /// block-string descriptions
    pub block_strings: bool,
    pub mutation: bool,
    pub subscription: bool,
    /// interfaces implementing interfaces
    pub interface_chains: bool,
    /// empty unions / interfaces without implementers are allowed to appear
    pub lonely_abstracts: bool,
}

impl SchemaOpts {
    pub fn default_for(rng: &mut Rng) -> SchemaOpts {
        SchemaOpts {
            max_objects: 5,
            hostile_text: false,
            descriptions: rng.coin(),
            custom_directives: rng.coin(),
            schema_block: rng.chance(1, 4),
            coercing_literals: false,
            block_strings: false,
            mutation: rng.coin(),
            subscription: rng.chance(1, 3),
            interface_chains: rng.coin(),
            lonely_abstracts: true,
        }
    }
}

const OBJECTS: &[&str] = &["User", "Post", "Comment", "Tag", "Org", "Team", "Item", "_Service", "_Draft", "lowerCaseType"];
const INTERFACES: &[&str] = &["Node", "Entity", "Named", "_Shared"];
const UNIONS: &[&str] = &["SearchResult", "Media", "_Entity"];
const ENUMS: &[&str] = &["Role", "Status", "Color", "_Kind"];
const ENUM_VALUES: &[&str] = &["ADMIN", "USER", "GUEST", "ACTIVE", "DONE", "RED", "GREEN", "lower", "Mixed_1"];
const INPUTS: &[&str] = &["Filter", "Page", "Sort", "_Input"];
const SCALARS: &[&str] = &["Date", "JSON", "URL", "_Any"];
const DIRECTIVES: &[&str] = &["auth", "tag", "cost"];
const FIELDS: &[&str] = &["id", "name", "title", "body", "count", "score", "flag", "items", "owner", "author", "tags", "parent", "child", "kind", "at", "meta", "link"];
const ARGS: &[&str] = &["first", "after", "filter", "sort", "id", "ids", "q", "role", "when"];

fn pick_subset(rng: &mut Rng, pool: &[&str], min: usize, max: usize) -> Vec<String> {
    let n = rng.range(min, max.min(pool.len()));
    let mut v: Vec<&str> = pool.to_vec();
    rng.shuffle(&mut v);
    v.truncate(n);
    v.into_iter().map(|s| s.to_string()).collect()
}

fn wrap(rng: &mut Rng, base: Ty, allow_list: bool) -> Ty {
    let mut t = base;
    if rng.chance(2, 5) {
        t = Ty::non_null(t);
    }
    if allow_list && rng.chance(1, 3) {
        t = Ty::list(t);
        if rng.coin() {
            t = Ty::non_null(t);
        }
        if rng.chance(1, 5) {
            t = Ty::list(t);
            if rng.coin() {
                t = Ty::non_null(t);
            }
            if rng.chance(1, 4) {
                t = Ty::list(t);
            }
        }
    }
    t
}

struct Names {
    scalars: Vec<String>,
    enums: Vec<String>,
    inputs: Vec<String>,
    interfaces: Vec<String>,
    objects: Vec<String>,
    unions: Vec<String>,
}

fn desc(rng: &mut Rng, o: &SchemaOpts) -> Option<StrLit> {
    if !o.descriptions || !rng.chance(1, 3) {
        return None;
    }
    if o.block_strings && rng.chance(1, 3) {
        return Some(crate::gen_syntax::gen_block_lit(rng, o.hostile_text));
    }
    Some(StrLit::plain(&gen_text(rng, o.hostile_text)))
}

fn output_base(rng: &mut Rng, n: &Names, leaf_bias: bool) -> String {
    let mut pool: Vec<&String> = vec![];
    let builtins: Vec<String> = ["Int", "Float", "String", "Boolean", "ID"].iter().map(|s| s.to_string()).collect();
    for b in &builtins {
        pool.push(b);
    }
    pool.extend(n.scalars.iter());
    pool.extend(n.enums.iter());
    let reps = if leaf_bias { 1 } else { 2 };
    for _ in 0..reps {
        pool.extend(n.objects.iter());
        pool.extend(n.interfaces.iter());
        pool.extend(n.unions.iter());
    }
    pool[rng.below(pool.len())].clone()
}

fn input_base(rng: &mut Rng, n: &Names) -> String {
    let mut pool: Vec<String> = ["Int", "Float", "String", "Boolean", "ID"].iter().map(|s| s.to_string()).collect();
    pool.extend(n.scalars.iter().cloned());
    pool.extend(n.enums.iter().cloned());
    pool.extend(n.inputs.iter().cloned());
    pool[rng.below(pool.len())].clone()
}

fn gen_args(rng: &mut Rng, n: &Names, o: &SchemaOpts) -> Vec<InputValueDef> {
    if rng.chance(3, 5) {
        return vec![];
    }
    let names = pick_subset(rng, ARGS, 1, 3);
    names
        .into_iter()
        .map(|a| {
            let base = input_base(rng, n);
            InputValueDef { desc: desc(rng, o), name: nm(&a), ty: wrap(rng, Ty::named(&base), true), default: None, dirs: vec![] }
        })
        .collect()
}

fn gen_own_fields(rng: &mut Rng, n: &Names, o: &SchemaOpts, taken: &[String], min: usize, max: usize) -> Vec<FieldDef> {
    let mut pool: Vec<&str> = FIELDS.iter().copied().filter(|f| !taken.iter().any(|t| t == f)).collect();
    rng.shuffle(&mut pool);
    let k = rng.range(min, max).min(pool.len());
    pool.truncate(k);
    pool.into_iter()
        .map(|f| {
            let base = output_base(rng, n, false);
            FieldDef { desc: desc(rng, o), name: nm(f), args: gen_args(rng, n, o), ty: wrap(rng, Ty::named(&base), true), dirs: vec![] }
        })
        .collect()
}

/// fields an implementer must carry for interface `iface`, possibly narrowed covariantly
fn inherit_fields(rng: &mut Rng, iface: &TypeDef, implementer: &str, existing: &mut Vec<FieldDef>) {
    for f in &iface.fields {
        if existing.iter().any(|e| e.name.s == f.name.s) {
            continue;
        }
        let mut nf = f.clone();
        nf.desc = None;
        // covariance: nullable -> non-null, and the interface itself -> the implementer
        if rng.chance(1, 4) {
            nf.ty = match nf.ty {
                Ty::NonNull(t) => Ty::NonNull(t),
                t => Ty::non_null(t),
            };
        }
        if f.ty.base() == iface.name.s && rng.coin() {
            nf.ty = nf.ty.with_base(implementer);
        }
        // an implementer may add extra arguments if they are nullable
        if rng.chance(1, 6) && !nf.args.iter().any(|a| a.name.s == "extra") {
            nf.args.push(InputValueDef { desc: None, name: nm("extra"), ty: Ty::named("Int"), default: None, dirs: vec![] });
        }
        existing.push(nf);
    }
}

/// a constant value acceptable for `ty`
pub fn gen_const(rng: &mut Rng, ix: &SchemaIx, ty: &Ty, depth: usize, coercing: bool) -> Val {
    match ty {
        Ty::NonNull(t) => gen_const_nn(rng, ix, t, depth, coercing),
        t => {
            if rng.chance(1, 6) {
                Val::null()
            } else {
                gen_const_nn(rng, ix, t, depth, coercing)
            }
        }
    }
}

fn gen_const_nn(rng: &mut Rng, ix: &SchemaIx, ty: &Ty, depth: usize, coercing: bool) -> Val {
    match ty {
        Ty::NonNull(t) => gen_const_nn(rng, ix, t, depth, coercing),
        Ty::List(t, _) => {
            if coercing && rng.chance(1, 4) && !matches!(**t, Ty::List(..)) {
                // single value coerces to a list of one
                return gen_const_nn(rng, ix, t, depth, coercing);
            }
            let n = if depth == 0 { 0 } else { rng.below(3) };
            Val::list((0..n).map(|_| gen_const(rng, ix, t, depth.saturating_sub(1), coercing)).collect())
        }
        Ty::Named(n) => match n.s.as_str() {
            "Int" => Val::int(rng.s(&["0", "1", "42", "-7"])),
            "Float" => {
                if coercing && rng.chance(1, 3) {
                    Val::int(rng.s(&["1", "0", "-3"]))
                } else {
                    Val::float(rng.s(&["1.5", "-0.25", "1e3", "2.0"]))
                }
            }
            "String" => Val::str(if crate::gen_syntax::allow_quotes() { rng.s(&["", "x", "hello world", "a\"b"]) } else { rng.s(&["", "x", "hello world", "a'b"]) }),
            "Boolean" => Val::boolean(rng.coin()),
            "ID" => {
                if coercing && rng.chance(1, 3) {
                    Val::int(rng.s(&["1", "23"]))
                } else {
                    Val::str(rng.s(&["id1", "42"]))
                }
            }
            name => match ix.kind(name) {
                Some(TKind::Enum) => {
                    let vs = ix.enum_values(name);
                    Val::enumv(&vs[rng.below(vs.len())])
                }
                Some(TKind::Input) => {
                    let t = ix.ty(name).unwrap();
                    let mut fields = vec![];
                    for f in &t.input_fields {
                        let required = f.ty.is_non_null() && f.default.is_none();
                        if required || (depth > 0 && rng.coin()) {
                            fields.push((nm(&f.name.s), gen_const(rng, ix, &f.ty, depth.saturating_sub(1), coercing)));
                        }
                    }
                    Val::Obj(fields, P::none())
                }
                // custom scalar: any literal
                _ => match rng.below(3) {
                    0 => Val::str("2020-01-01"),
                    1 => Val::int("7"),
                    _ => Val::boolean(true),
                },
            },
        },
    }
}

const LOCATIONS_TS: &[&str] = &["SCHEMA", "SCALAR", "OBJECT", "FIELD_DEFINITION", "ARGUMENT_DEFINITION", "INTERFACE", "UNION", "ENUM", "ENUM_VALUE", "INPUT_OBJECT", "INPUT_FIELD_DEFINITION"];
const LOCATIONS_EXEC: &[&str] = &["QUERY", "MUTATION", "SUBSCRIPTION", "FIELD", "FRAGMENT_DEFINITION", "FRAGMENT_SPREAD", "INLINE_FRAGMENT", "VARIABLE_DEFINITION"];

/// directive applications that are legal at `location`
pub fn gen_applications(rng: &mut Rng, ix: &SchemaIx, location: &str, coercing: bool, p_num: u32, p_den: u32) -> Vec<Dir> {
    let mut out = vec![];
    let cands: Vec<&DirectiveDef> = ix.directives.values().filter(|d| d.locations.iter().any(|l| l.s == location) && d.name.s != "specifiedBy" && d.name.s != "nitrogql_ts_type" && d.name.s != "skip" && d.name.s != "include").collect();
    for d in cands {
        if !rng.chance(p_num, p_den) {
            continue;
        }
        let reps = if d.repeatable && rng.chance(1, 3) { 2 } else { 1 };
        for _ in 0..reps {
            let mut args = vec![];
            for a in &d.args {
                let required = a.ty.is_non_null() && a.default.is_none();
                if required || rng.coin() {
                    args.push((nm(&a.name.s), gen_const(rng, ix, &a.ty, 2, coercing)));
                }
            }
            out.push(Dir { name: nm(&d.name.s), p: P::none(), args, args_p: P::none() });
        }
    }
    out
}

pub fn gen_schema(rng: &mut Rng, o: &SchemaOpts) -> TsDoc {
    let root_names: (String, String, String) = if o.schema_block && rng.coin() { ("RootQ".into(), "RootM".into(), "RootS".into()) } else { ("Query".into(), "Mutation".into(), "Subscription".into()) };
    let mut n = Names {
        scalars: pick_subset(rng, SCALARS, 0, 2),
        enums: pick_subset(rng, ENUMS, 1, 3),
        inputs: pick_subset(rng, INPUTS, 0, 3),
        interfaces: pick_subset(rng, INTERFACES, 0, 3),
        objects: pick_subset(rng, OBJECTS, 1, o.max_objects),
        unions: pick_subset(rng, UNIONS, 0, 2),
    };
    n.objects.push(root_names.0.clone());
    if o.mutation {
        n.objects.push(root_names.1.clone());
    }
    if o.subscription {
        n.objects.push(root_names.2.clone());
    }
    let mut defs: Vec<TsDef> = vec![];
    // scalars / enums
    for s in &n.scalars {
        let mut t = TypeDef::new(TKind::Scalar, s);
        t.desc = desc(rng, o);
        defs.push(TsDef::Type(t));
    }
    for e in &n.enums {
        let mut t = TypeDef::new(TKind::Enum, e);
        t.desc = desc(rng, o);
        for v in pick_subset(rng, ENUM_VALUES, 1, 4) {
            t.values.push(EnumValDef { desc: desc(rng, o), name: nm(&v), dirs: vec![] });
        }
        defs.push(TsDef::Type(t));
    }
    // inputs
    for i in &n.inputs {
        let mut t = TypeDef::new(TKind::Input, i);
        t.desc = desc(rng, o);
        let names = pick_subset(rng, FIELDS, 1, 4);
        for f in names {
            let base = input_base(rng, &n);
            let mut ty = wrap(rng, Ty::named(&base), true);
            // a reference to an input object must be breakable: nullable or behind a list
            if n.inputs.contains(&base) {
                if let Ty::NonNull(inner) = &ty {
                    if !matches!(**inner, Ty::List(..)) {
                        ty = (**inner).clone();
                    }
                }
            }
            t.input_fields.push(InputValueDef { desc: desc(rng, o), name: nm(&f), ty, default: None, dirs: vec![] });
        }
        defs.push(TsDef::Type(t));
    }
    // interfaces (later ones may implement earlier ones)
    let mut iface_defs: Vec<TypeDef> = vec![];
    for (k, i) in n.interfaces.clone().iter().enumerate() {
        let mut t = TypeDef::new(TKind::Interface, i);
        t.desc = desc(rng, o);
        let mut fields: Vec<FieldDef> = vec![];
        if o.interface_chains && k > 0 && rng.coin() {
            let parent = iface_defs[rng.below(k)].clone();
            // transitive closure of implements
            let mut impls: Vec<String> = parent.implements.iter().map(|x| x.s.clone()).collect();
            impls.push(parent.name.s.clone());
            for p in &impls {
                let pd = iface_defs.iter().find(|d| d.name.s == *p).unwrap().clone();
                inherit_fields(rng, &pd, i, &mut fields);
            }
            t.implements = impls.iter().map(|s| nm(s)).collect();
        }
        let taken: Vec<String> = fields.iter().map(|f| f.name.s.clone()).collect();
        fields.extend(gen_own_fields(rng, &n, o, &taken, 1, 3));
        t.fields = fields;
        iface_defs.push(t);
    }
    // objects
    let mut obj_defs: Vec<TypeDef> = vec![];
    for ob in n.objects.clone().iter() {
        let mut t = TypeDef::new(TKind::Object, ob);
        t.desc = desc(rng, o);
        let mut fields: Vec<FieldDef> = vec![];
        let is_root = *ob == root_names.0 || *ob == root_names.1 || *ob == root_names.2;
        if !iface_defs.is_empty() && !is_root && rng.chance(2, 3) {
            let k = rng.range(1, 2.min(iface_defs.len()));
            let mut impls: Vec<String> = vec![];
            for _ in 0..k {
                let d = &iface_defs[rng.below(iface_defs.len())];
                for p in d.implements.iter().map(|x| x.s.clone()).chain(std::iter::once(d.name.s.clone())) {
                    if !impls.contains(&p) {
                        impls.push(p);
                    }
                }
            }
            // two interfaces may both declare a field of the same name with different types: keep only compatible sets
            let mut ok = true;
            let mut probe: Vec<FieldDef> = vec![];
            for p in &impls {
                let pd = iface_defs.iter().find(|d| d.name.s == *p).unwrap();
                for f in &pd.fields {
                    if let Some(e) = probe.iter().find(|e| e.name.s == f.name.s) {
                        if !e.ty.same(&f.ty) || e.args.len() != f.args.len() || e.args.iter().zip(f.args.iter()).any(|(a, b)| a.name.s != b.name.s || !a.ty.same(&b.ty)) {
                            ok = false;
                        }
                    } else {
                        probe.push(f.clone());
                    }
                }
            }
            if ok {
                rng.shuffle(&mut impls);
                for p in &impls {
                    let pd = iface_defs.iter().find(|d| d.name.s == *p).unwrap().clone();
                    inherit_fields(rng, &pd, ob, &mut fields);
                }
                t.implements = impls.iter().map(|s| nm(s)).collect();
            }
        }
        let taken: Vec<String> = fields.iter().map(|f| f.name.s.clone()).collect();
        fields.extend(gen_own_fields(rng, &n, o, &taken, if fields.is_empty() { 1 } else { 0 }, if is_root { 5 } else { 4 }));
        rng.shuffle(&mut fields);
        t.fields = fields;
        obj_defs.push(t);
    }
    // covariant narrowing may have produced an object whose field narrows differently from a second interface: re-validate cheaply later
    // unions
    let mut union_defs = vec![];
    for u in &n.unions {
        let mut t = TypeDef::new(TKind::Union, u);
        t.desc = desc(rng, o);
        let non_root: Vec<String> = n.objects.iter().filter(|x| **x != root_names.0 && **x != root_names.1 && **x != root_names.2).cloned().collect();
        let pool = if non_root.is_empty() { n.objects.clone() } else { non_root };
        let refs: Vec<&str> = pool.iter().map(|s| s.as_str()).collect();
        t.members = pick_subset(rng, &refs, 1, 3).iter().map(|s| nm(s)).collect();
        union_defs.push(t);
    }
    // subscription roots: keep their fields simple (single root field rule concerns operations only)
    defs.extend(iface_defs.into_iter().map(TsDef::Type));
    defs.extend(obj_defs.into_iter().map(TsDef::Type));
    defs.extend(union_defs.into_iter().map(TsDef::Type));
    // directive definitions
    if o.custom_directives {
        for d in pick_subset(rng, DIRECTIVES, 1, 3) {
            let mut locs: Vec<String> = pick_subset(rng, LOCATIONS_TS, 1, 4);
            locs.extend(pick_subset(rng, LOCATIONS_EXEC, 0, 4));
            let mut args = vec![];
            if rng.coin() {
                for a in pick_subset(rng, &["level", "name", "roles", "opt"], 1, 2) {
                    let base = input_base(rng, &n);
                    args.push(InputValueDef { desc: desc(rng, o), name: nm(&a), ty: wrap(rng, Ty::named(&base), true), default: None, dirs: vec![] });
                }
            }
            defs.push(TsDef::Directive(DirectiveDef { desc: desc(rng, o), p: P::none(), name: nm(&d), args, repeatable: rng.chance(1, 3), repeatable_p: P::none(), locations: locs.iter().map(|l| nm(l)).collect() }));
        }
    }
    if o.schema_block || root_names.0 != "Query" {
        let mut roots = vec![(OpKind::Query, nm(&root_names.0))];
        if o.mutation {
            roots.push((OpKind::Mutation, nm(&root_names.1)));
        }
        if o.subscription {
            roots.push((OpKind::Subscription, nm(&root_names.2)));
        }
        defs.push(TsDef::Schema(SchemaDef { ext: false, desc: desc(rng, o), p: P::none(), dirs: vec![], roots }));
    }
    let mut doc = TsDoc { defs };
    // phase 2: defaults and directive applications, now that every name resolves
    let ix = SchemaIx::new(&doc);
    let coercing = o.coercing_literals;
    for d in doc.defs.iter_mut() {
        match d {
            TsDef::Schema(s) => s.dirs = gen_applications(rng, &ix, "SCHEMA", coercing, 1, 2),
            TsDef::Directive(dd) => {
                for a in dd.args.iter_mut() {
                    if rng.chance(1, 3) {
                        a.default = Some(gen_const(rng, &ix, &a.ty, 2, coercing));
                    }
                    // directives on directive arguments could make the definition recursive: only @deprecated here
                    if !a.ty.is_non_null() && rng.chance(1, 5) {
                        a.dirs = vec![Dir::new("deprecated", vec![])];
                    }
                }
            }
            TsDef::Type(t) => {
                let loc = match t.kind {
                    TKind::Scalar => "SCALAR",
                    TKind::Object => "OBJECT",
                    TKind::Interface => "INTERFACE",
                    TKind::Union => "UNION",
                    TKind::Enum => "ENUM",
                    TKind::Input => "INPUT_OBJECT",
                };
                t.dirs = gen_applications(rng, &ix, loc, coercing, 1, 3);
                for f in t.fields.iter_mut() {
                    f.dirs = gen_applications(rng, &ix, "FIELD_DEFINITION", coercing, 1, 5);
                    for a in f.args.iter_mut() {
                        if rng.chance(1, 3) {
                            a.default = Some(gen_const(rng, &ix, &a.ty, 2, coercing));
                        }
                        a.dirs = gen_applications(rng, &ix, "ARGUMENT_DEFINITION", coercing, 1, 6);
                        // @deprecated on a required argument is not allowed
                        if a.ty.is_non_null() && a.default.is_none() {
                            a.dirs.retain(|d| d.name.s != "deprecated");
                        }
                    }
                }
                for v in t.values.iter_mut() {
                    v.dirs = gen_applications(rng, &ix, "ENUM_VALUE", coercing, 1, 5);
                }
                for f in t.input_fields.iter_mut() {
                    if rng.chance(1, 3) {
                        f.default = Some(gen_const(rng, &ix, &f.ty, 2, coercing));
                    }
                    f.dirs = gen_applications(rng, &ix, "INPUT_FIELD_DEFINITION", coercing, 1, 6);
                    if f.ty.is_non_null() && f.default.is_none() {
                        f.dirs.retain(|d| d.name.s != "deprecated");
                    }
                }
            }
        }
    }
    // interface fields' argument defaults must not differ in type; implementers copied args before defaults were drawn — fine (types equal)
    rng.shuffle(&mut doc.defs);
    doc
}

/// Move components of definitions into `extend` items (0-3 per type); the merged document is unchanged up to order.
pub fn split_extensions(doc: &TsDoc, rng: &mut Rng) -> TsDoc {
    let mut out: Vec<TsDef> = vec![];
    for d in &doc.defs {
        match d {
            TsDef::Type(t) if rng.chance(1, 3) => {
                let mut base = t.clone();
                let mut exts: Vec<TypeDef> = vec![];
                let k = rng.range(1, 3);
                for _ in 0..k {
                    let mut e = TypeDef::new(t.kind, &t.name.s);
                    e.ext = true;
                    exts.push(e);
                }
                // keep at least one field / value / input field in the definition when it had any (empty bodies are legal only for some kinds)
                macro_rules! spread {
                    ($field:ident, $keep:expr) => {{
                        let items = std::mem::take(&mut base.$field);
                        let mut kept = vec![];
                        let mut moved: Vec<Vec<_>> = (0..k).map(|_| vec![]).collect();
                        for (i, it) in items.into_iter().enumerate() {
                            if i < $keep || rng.coin() {
                                kept.push(it);
                            } else {
                                let j = rng.below(k);
                                moved[j].push(it);
                            }
                        }
                        base.$field = kept;
                        for (j, m) in moved.into_iter().enumerate() {
                            exts[j].$field = m;
                        }
                    }};
                }
                spread!(fields, 1);
                spread!(values, 1);
                spread!(input_fields, 1);
                spread!(members, 1);
                spread!(dirs, 0);
                // interfaces: moving `implements` keeps validity because merge restores it
                spread!(implements, 0);
                // directive order matters for repeatable directives only semantically; merged order = definition ++ extensions, which
                // may reorder applications relative to the unsplit document. Consumers compare after merging the split document.
                let before = rng.coin();
                let exts: Vec<TsDef> = exts.into_iter().filter(|e| !(e.implements.is_empty() && e.dirs.is_empty() && e.fields.is_empty() && e.members.is_empty() && e.values.is_empty() && e.input_fields.is_empty())).map(TsDef::Type).collect();
                if before {
                    out.extend(exts.clone());
                    out.push(TsDef::Type(base));
                } else {
                    out.push(TsDef::Type(base));
                    out.extend(exts);
                }
            }
            d => out.push(d.clone()),
        }
    }
    TsDoc { defs: out }
}

/// a schema the reference validator accepts (generation is retried otherwise); returns the number of rejected drafts too
pub fn gen_valid_schema(rng: &mut Rng, o: &SchemaOpts) -> (TsDoc, usize) {
    let mut rejected = 0;
    loop {
        let doc = gen_schema(rng, o);
        let issues = crate::validate::validate_type_system(&doc);
        if issues.is_empty() {
            return (doc, rejected);
        }
        rejected += 1;
        if rejected > 50 {
            // fall back to a tiny fixed schema rather than spinning
            let t = crate::refparse::parse_ts("type Query { a: Int }").unwrap();
            return (t, rejected);
        }
    }
}


/// the four-way expansion [resolverOutput, resolverInput, operationOutput, operationInput] of a scalar config value
/// ("a", "send||receive", "ro||ri||oo||oi")
pub fn four_way(v: &str) -> [String; 4] {
    let parts: Vec<&str> = v.split("||").collect();
    match parts.len() {
        2 => [parts[0].to_string(), parts[1].to_string(), parts[1].to_string(), parts[0].to_string()],
        4 => [parts[0].to_string(), parts[1].to_string(), parts[2].to_string(), parts[3].to_string()],
        _ => [v.to_string(), v.to_string(), v.to_string(), v.to_string()],
    }
}

/// types scalar `name` through the schema directive `@nitrogql_ts_type` (arguments in random order), on the definition or
/// through an `extend scalar` (always the latter for built-in scalars, which is what the graphql-scalars plugin emits)
pub fn add_ts_type_directive(doc: &mut TsDoc, name: &str, four: &[String; 4], rng: &mut Rng) {
    let mut args = vec![("resolverOutput", Val::str(&four[0])), ("resolverInput", Val::str(&four[1])), ("operationOutput", Val::str(&four[2])), ("operationInput", Val::str(&four[3]))];
    rng.shuffle(&mut args);
    let dir = Dir::new("nitrogql_ts_type", args);
    let builtin = crate::schema_ix::BUILTIN_SCALARS.contains(&name);
    if !builtin && rng.coin() {
        for d in doc.defs.iter_mut() {
            if let TsDef::Type(t) = d {
                if !t.ext && t.kind == TKind::Scalar && t.name.s == name {
                    let at = rng.below(t.dirs.len() + 1);
                    t.dirs.insert(at, dir);
                    return;
                }
            }
        }
    }
    let mut e = TypeDef::new(TKind::Scalar, name);
    e.ext = true;
    e.dirs.push(dir);
    let at = rng.below(doc.defs.len() + 1);
    doc.defs.insert(at, TsDef::Type(e));
}

/// moves some entries of a scalar configuration into `@nitrogql_ts_type` applications; an entry that stays in the
/// configuration *and* gets a (different) directive exercises "the configuration wins"
pub fn scalars_via_directive(doc: &mut TsDoc, scalars: &mut Vec<(String, String)>, pool: &[&str], rng: &mut Rng) {
    let mut keep = vec![];
    for (name, v) in scalars.drain(..) {
        if !rng.chance(2, 5) {
            keep.push((name, v));
            continue;
        }
        if rng.chance(1, 4) {
            // directive says something else; configuration wins
            let other = [rng.s(pool).to_string(), rng.s(pool).to_string(), rng.s(pool).to_string(), rng.s(pool).to_string()];
            add_ts_type_directive(doc, &name, &other, rng);
            keep.push((name, v));
        } else {
            add_ts_type_directive(doc, &name, &four_way(&v), rng);
        }
    }
    *scalars = keep;
}
