//! The library route of a whole project: what `nitrogql check` / `generate` do, stage by stage,
//! at the public boundary of the repository crates, every stage guarded against panics.

use std::borrow::Cow;
use std::collections::HashMap;
use std::path::{Path, PathBuf};

use nitrogql_ast::{TypeSystemOrExtensionDocument, set_current_file_of_pos};
use nitrogql_checker::{CheckError, OperationCheckContext, check_operation_document, check_type_system_document};
use nitrogql_config_file::{Config, GenerateMode, parse_config};
use nitrogql_error::{PositionedError, print_positioned_error};
use nitrogql_parser::{parse_operation_document, parse_type_system_document};
use nitrogql_plugin::Plugin;

thread_local! {
    /// which plugins the resolver type printer gets (see run_project)
    pub static RESOLVER_PLUGINS: std::cell::Cell<u8> = const { std::cell::Cell::new(0) };
}
use nitrogql_printer::{
    GraphQLPrinter, OperationJSPrinterOptions, OperationTypePrinterOptions, ResolverTypePrinter, ResolverTypePrinterOptions, SchemaTypePrinter, SchemaTypePrinterOptions, print_js_for_operation_document,
    print_types_for_operation_document,
};
use nitrogql_semantics::{ast_to_type_system, resolve_operation_extensions, resolve_operation_imports, resolve_schema_extensions};
use sourcemap_writer::{JustWriter, SourceWriter};

use crate::extract;
use crate::model::{ExecDoc, TsDoc};
use crate::panicguard::{Panicked, guarded};
use crate::real::MemResolver;

#[derive(Clone, Debug)]
pub struct Diag {
    /// variant name of CheckErrorMessage or a stage-specific class ("ParseError", "ExtensionError", ...)
    pub kind: String,
    pub message: String,
    /// (file index, line, column)
    pub pos: Option<(usize, usize, usize)>,
    pub builtin_pos: bool,
    pub additional: Vec<(Option<(usize, usize, usize)>, String)>,
    /// rendering by print_positioned_error (None if that panicked)
    pub rendered: Option<String>,
}

#[derive(Clone, Debug, Default)]
pub struct OpOutputs {
    pub path: String,
    /// .d.graphql.ts / .graphql.ts text (per mode of the config)
    pub dts: String,
    pub dts_map: String,
    pub dts_names: Vec<String>,
    /// loader JS for the same resolved document
    pub js: String,
    /// the resolved (imports included) document as the harness model
    pub resolved: ExecDoc,
    /// print_graphql of the resolved document
    pub printed: String,
}

#[derive(Clone, Debug, Default)]
pub struct Outputs {
    pub schema_dts: String,
    pub schema_map: String,
    pub schema_names: Vec<String>,
    pub resolvers_dts: String,
    pub server_graphql: String,
    pub ops: Vec<OpOutputs>,
    /// the resolved schema (extensions merged, builtins included) as the harness model
    pub resolved_schema: TsDoc,
}

#[derive(Clone, Debug, Default)]
pub struct PipelineResult {
    /// (stage, panic)
    pub panics: Vec<(String, Panicked)>,
    pub config_ok: bool,
    /// diagnostics against schema files: file index = index into schema_files
    pub schema_diags: Vec<Diag>,
    /// diagnostics against operation files: file index = schema_files.len() + index into op_files
    pub op_diags: Vec<Diag>,
    pub check_passed: bool,
    /// errors returned by the generators (e.g. a scalar without a configured TypeScript type)
    pub generate_errors: Vec<String>,
    pub outputs: Option<Outputs>,
    pub stages_run: Vec<&'static str>,
}

fn variant_name(dbg: &str) -> String {
    dbg.chars().take_while(|c| c.is_alphanumeric() || *c == '_').collect()
}

pub struct Files<'a> {
    pub all: Vec<(PathBuf, &'a str, ())>,
}

fn diag_from_positioned(kind: &str, e: PositionedError, files: &[(PathBuf, String, ())], panics: &mut Vec<(String, Panicked)>) -> Diag {
    let pos = e.position();
    let rendered = match guarded(|| print_positioned_error(&e, &files.to_vec())) {
        Ok(s) => Some(s),
        Err(p) => {
            panics.push(("print_positioned_error".into(), p));
            None
        }
    };
    let additional = vec![];
    Diag { kind: kind.to_string(), pos: pos.filter(|p| !p.builtin).map(|p| (p.file, p.line, p.column)), builtin_pos: pos.is_some_and(|p| p.builtin), message: format!("{}", e.into_inner()), additional, rendered }
}

fn diag_from_check(e: CheckError, files: &[(PathBuf, String, ())], panics: &mut Vec<(String, Panicked)>) -> Diag {
    let kind = variant_name(&format!("{:?}", e.message));
    let additional: Vec<(Option<(usize, usize, usize)>, String)> = e.additional_info.iter().map(|(p, m)| (if p.builtin { None } else { Some((p.file, p.line, p.column)) }, variant_name(&format!("{m:?}")))).collect();
    let pe: PositionedError = e.into();
    let mut d = diag_from_positioned(&kind, pe, files, panics);
    d.additional = additional;
    d
}

pub struct ProjectInput<'a> {
    /// (absolute path, text)
    pub schema_files: &'a [(String, String)],
    pub op_files: &'a [(String, String)],
    /// graphql-config YAML/JSON text
    pub config: &'a str,
    /// run the generators even if check reports diagnostics (never done by the CLI; used by no monitor by default)
    pub generate: bool,
    /// stop after `check` (what `nitrogql check` does)
    pub check_only: bool,
}

/// Runs the whole library route. Never panics itself; every repository call is guarded.
pub fn run_project(input: &ProjectInput) -> PipelineResult {
    let mut res = PipelineResult::default();
    let nschema = input.schema_files.len();
    // file table as the CLI's FileStore: schema files first, then operation files
    let files: Vec<(PathBuf, String, ())> = input.schema_files.iter().chain(input.op_files.iter()).map(|(p, t)| (PathBuf::from(p), t.clone(), ())).collect();

    // ---- config
    res.stages_run.push("parse_config");
    let config: Config = match guarded(|| parse_config(input.config)) {
        Err(p) => {
            res.panics.push(("parse_config".into(), p));
            Config::default()
        }
        Ok(None) => Config::default(),
        Ok(Some(c)) => {
            res.config_ok = true;
            c
        }
    };

    // ---- schema: parse, merge, builtins, resolve, check
    res.stages_run.push("parse_type_system_document");
    let mut docs = vec![];
    let mut schema_parse_failed = false;
    for (i, (_, text)) in input.schema_files.iter().enumerate() {
        let r = guarded(|| {
            set_current_file_of_pos(i);
            parse_type_system_document(text)
        });
        match r {
            Err(p) => {
                res.panics.push(("parse_type_system_document".into(), p));
                schema_parse_failed = true;
            }
            Ok(Err(e)) => {
                let pe: PositionedError = e.into();
                let d = diag_from_positioned("ParseError", pe, &files, &mut res.panics);
                res.schema_diags.push(d);
                schema_parse_failed = true;
            }
            Ok(Ok(d)) => docs.push(d),
        }
    }
    // ---- operations: parse
    res.stages_run.push("parse_operation_document");
    let mut op_docs = vec![];
    let mut op_parse_failed = false;
    for (i, (_, text)) in input.op_files.iter().enumerate() {
        let r = guarded(|| {
            set_current_file_of_pos(nschema + i);
            parse_operation_document(text)
        });
        match r {
            Err(p) => {
                res.panics.push(("parse_operation_document".into(), p));
                op_parse_failed = true;
            }
            Ok(Err(e)) => {
                let pe: PositionedError = e.into();
                let d = diag_from_positioned("ParseError", pe, &files, &mut res.panics);
                res.op_diags.push(d);
                op_parse_failed = true;
            }
            Ok(Ok(d)) => op_docs.push((i, d)),
        }
    }
    if schema_parse_failed || op_parse_failed {
        return res;
    }

    res.stages_run.push("resolve_schema_extensions");
    let resolved = match guarded(|| {
        let mut merged = TypeSystemOrExtensionDocument::merge(docs);
        merged.extend(graphql_builtins::generate_builtins());
        merged.extend(nitrogql_builtins());
        resolve_schema_extensions(merged)
    }) {
        Err(p) => {
            res.panics.push(("resolve_schema_extensions".into(), p));
            return res;
        }
        Ok(Err(e)) => {
            let d = diag_from_positioned("ExtensionError", e.into(), &files, &mut res.panics);
            res.schema_diags.push(d);
            return res;
        }
        Ok(Ok(d)) => d,
    };
    res.stages_run.push("check_type_system_document");
    match guarded(|| check_type_system_document(&resolved)) {
        Err(p) => {
            res.panics.push(("check_type_system_document".into(), p));
            return res;
        }
        Ok(errors) => {
            for e in errors {
                let d = diag_from_check(e, &files, &mut res.panics);
                res.schema_diags.push(d);
            }
        }
    }
    if !res.schema_diags.is_empty() {
        return res;
    }
    let schema = match guarded(|| ast_to_type_system(&resolved)) {
        Err(p) => {
            res.panics.push(("ast_to_type_system".into(), p));
            return res;
        }
        Ok(s) => s,
    };
    let schema: graphql_type_system::Schema<Cow<str>, nitrogql_ast::base::Pos> = schema;

    // ---- operations: extensions, imports, check
    res.stages_run.push("resolve_operation_extensions");
    let mut ext_resolved = vec![];
    for (i, d) in op_docs {
        match guarded(|| resolve_operation_extensions(d)) {
            Err(p) => {
                res.panics.push(("resolve_operation_extensions".into(), p));
                return res;
            }
            Ok(Err(e)) => {
                let d = diag_from_positioned("OperationExtensionError", e.into(), &files, &mut res.panics);
                res.op_diags.push(d);
            }
            Ok(Ok(x)) => ext_resolved.push((i, x)),
        }
    }
    if !res.op_diags.is_empty() {
        return res;
    }
    res.stages_run.push("resolve_operation_imports");
    let resolver = MemResolver { by_path: ext_resolved.iter().map(|(i, (d, e))| (PathBuf::from(&input.op_files[*i].0), (d, e))).collect::<HashMap<_, _>>() };
    let mut import_resolved = vec![];
    for (i, (d, e)) in ext_resolved.iter() {
        let path = PathBuf::from(&input.op_files[*i].0);
        match guarded(|| resolve_operation_imports((Path::new(&path), d, e), &resolver)) {
            Err(p) => {
                res.panics.push(("resolve_operation_imports".into(), p));
                return res;
            }
            Ok(Err(err)) => {
                let dg = diag_from_positioned("ImportError", err.into(), &files, &mut res.panics);
                res.op_diags.push(dg);
            }
            Ok(Ok(doc)) => import_resolved.push((*i, doc)),
        }
    }
    if !res.op_diags.is_empty() {
        return res;
    }
    res.stages_run.push("check_operation_document");
    let ctx = OperationCheckContext::new(&schema);
    for (_, doc) in import_resolved.iter() {
        match guarded(|| check_operation_document(doc, &ctx)) {
            Err(p) => {
                res.panics.push(("check_operation_document".into(), p));
                return res;
            }
            Ok(errors) => {
                for e in errors {
                    let d = diag_from_check(e, &files, &mut res.panics);
                    res.op_diags.push(d);
                }
            }
        }
    }
    res.check_passed = res.op_diags.is_empty();
    if (!res.check_passed && !input.generate) || input.check_only {
        return res;
    }

    // ---- generate
    let mut out = Outputs { resolved_schema: extract::ts_doc(&resolved), ..Default::default() };
    res.stages_run.push("SchemaTypePrinter");
    let file_indices: Vec<usize> = (0..files.len()).map(|i| if i < nschema { i } else { usize::MAX }).collect();
    match guarded(|| {
        let mut writer = SourceWriter::new();
        writer.set_file_index_mapper(file_indices.clone());
        let mut printer = SchemaTypePrinter::new(SchemaTypePrinterOptions::from_config(&config), &mut writer);
        let r = printer.print_document(&resolved).map_err(|e| format!("{e}"));
        (r, writer.into_buffers())
    }) {
        Err(p) => res.panics.push(("SchemaTypePrinter".into(), p)),
        Ok((r, b)) => {
            if let Err(e) = r {
                res.generate_errors.push(format!("SchemaTypePrinter: {e}"));
            }
            out.schema_dts = b.buffer;
            out.schema_map = b.source_map;
            out.schema_names = b.names;
        }
    }
    res.stages_run.push("ResolverTypePrinter");
    match guarded(|| {
        let mut writer = SourceWriter::new();
        writer.set_file_index_mapper(file_indices.clone());
        let mut options = ResolverTypePrinterOptions::from_config(&config);
        options.schema_source = config.generate.schema_module_specifier.clone().unwrap_or_else(|| "./schema.js".into());
        let mut printer = ResolverTypePrinter::new(options, &mut writer);
        // plugins of the resolver printer, chosen by the monitor (thread-local): 0 none, 1 model, 2 model then
        // graphql-scalars, 3 graphql-scalars then model
        let mk = |n: &str| -> Plugin { if n == "model" { Plugin::new(Box::new(nitrogql_plugin::ModelPlugin {})) } else { Plugin::new(Box::<nitrogql_plugin::GraphQLScalarsPlugin>::default()) } };
        let plugins: Vec<Plugin> = match RESOLVER_PLUGINS.with(|c| c.get()) {
            1 => vec![mk("model")],
            2 => vec![mk("model"), mk("scalars")],
            3 => vec![mk("scalars"), mk("model")],
            _ => vec![],
        };
        let r = printer.print_document(&resolved, &plugins).map_err(|e| format!("{e}"));
        (r, writer.into_buffers())
    }) {
        Err(p) => res.panics.push(("ResolverTypePrinter".into(), p)),
        Ok((r, b)) => {
            if let Err(e) = r {
                res.generate_errors.push(format!("ResolverTypePrinter: {e}"));
            }
            out.resolvers_dts = b.buffer;
        }
    }
    res.stages_run.push("print_graphql(schema)");
    match guarded(|| {
        let stripped = remove_builtins(&resolved);
        let mut buffer = String::new();
        let mut w = JustWriter::new(&mut buffer);
        stripped.print_graphql(&mut w);
        buffer
    }) {
        Err(p) => res.panics.push(("print_graphql(schema)".into(), p)),
        Ok(b) => out.server_graphql = b,
    }
    res.stages_run.push("print_types_for_operation_document");
    for (i, doc) in import_resolved.iter() {
        let mut oo = OpOutputs { path: input.op_files[*i].0.clone(), resolved: extract::exec_doc(doc), ..Default::default() };
        let file_index = nschema + *i;
        // as crates/cli/src/generate.rs: the file itself and the files its definitions come from get consecutive source indices
        let used: Vec<usize> = {
            use nitrogql_ast::base::HasPos;
            doc.definitions.iter().map(|d| d.position()).filter(|p| !p.builtin).map(|p| p.file).collect()
        };
        let mut next = nschema;
        let idx: Vec<usize> = (0..files.len())
            .map(|k| {
                if k < nschema {
                    k
                } else if k == file_index || used.contains(&k) {
                    next += 1;
                    next - 1
                } else {
                    usize::MAX
                }
            })
            .collect();
        match guarded(|| {
            let mut writer = SourceWriter::new();
            writer.set_file_index_mapper(idx.clone());
            let mut options = OperationTypePrinterOptions::from_config(&config);
            options.schema_source = config.generate.schema_module_specifier.clone().unwrap_or_else(|| "./schema.js".into());
            print_types_for_operation_document(options, &schema, doc, &mut writer);
            writer.into_buffers()
        }) {
            Err(p) => res.panics.push((format!("print_types_for_operation_document#{i}"), p)),
            Ok(b) => {
                oo.dts = b.buffer;
                oo.dts_map = b.source_map;
                oo.dts_names = b.names;
            }
        }
        match guarded(|| {
            let mut writer = SourceWriter::new();
            print_js_for_operation_document(OperationJSPrinterOptions::from_config(&config), doc, &mut writer);
            writer.into_buffers().buffer
        }) {
            Err(p) => res.panics.push((format!("print_js_for_operation_document#{i}"), p)),
            Ok(b) => oo.js = b,
        }
        match guarded(|| {
            let mut buffer = String::new();
            let mut w = JustWriter::new(&mut buffer);
            doc.print_graphql(&mut w);
            buffer
        }) {
            Err(p) => res.panics.push((format!("print_graphql(operation)#{i}"), p)),
            Ok(b) => oo.printed = b,
        }
        out.ops.push(oo);
    }
    let _ = GenerateMode::WithLoaderTS5_0;
    res.outputs = Some(out);
    res
}

// ---- the CLI's private helpers, mirrored (crates/cli/src/builtins.rs): the nitrogql_ts_type directive

use nitrogql_ast::{
    TypeSystemDocument,
    base::{Ident, Keyword, Pos},
    r#type::{NamedType, NonNullType, Type},
    type_system::{ArgumentsDefinition, DirectiveDefinition, InputValueDefinition, ScalarTypeDefinition, TypeDefinition, TypeSystemDefinition, TypeSystemDefinitionOrExtension},
};

fn ident(name: &str) -> Ident {
    Ident { name, position: Pos::builtin() }
}

pub fn nitrogql_builtins() -> Vec<TypeSystemDefinitionOrExtension<'static>> {
    vec![TypeSystemDefinitionOrExtension::DirectiveDefinition(DirectiveDefinition {
        directive_keyword: Keyword { name: "directive", position: Pos::builtin() },
        position: Pos::builtin(),
        name: ident("nitrogql_ts_type"),
        description: None,
        arguments: Some(ArgumentsDefinition {
            input_values: ["resolverInput", "resolverOutput", "operationInput", "operationOutput"]
                .into_iter()
                .map(|name| InputValueDefinition {
                    description: None,
                    position: Pos::builtin(),
                    name: ident(name),
                    r#type: Type::NonNull(Box::new(NonNullType { r#type: Type::Named(NamedType { name: ident("String") }) })),
                    default_value: None,
                    directives: vec![],
                })
                .collect(),
        }),
        repeatable: None,
        locations: vec![ident("SCALAR")],
    })]
}

pub fn remove_builtins<'src>(schema: &TypeSystemDocument<'src>) -> TypeSystemDocument<'src> {
    let definitions = schema
        .definitions
        .iter()
        .cloned()
        .filter_map(|d| match d {
            TypeSystemDefinition::DirectiveDefinition(def) => (def.name.name != "nitrogql_ts_type").then_some(TypeSystemDefinition::DirectiveDefinition(def)),
            TypeSystemDefinition::SchemaDefinition(_) => Some(d),
            TypeSystemDefinition::TypeDefinition(def) => {
                if let TypeDefinition::Scalar(def) = def {
                    return Some(TypeSystemDefinition::TypeDefinition(TypeDefinition::Scalar(ScalarTypeDefinition { directives: def.directives.into_iter().filter(|d| d.name.name != "nitrogql_ts_type").collect(), ..def })));
                }
                Some(TypeSystemDefinition::TypeDefinition(def))
            }
        })
        .collect();
    TypeSystemDocument { definitions }
}
