//! Spec-valid operation documents over a schema index (valid by construction, confirmed by
//! the reference validator — generation is retried when the validator objects).

use std::collections::BTreeMap;

use crate::gen_schema::gen_const;
use crate::model::*;
use crate::rng::Rng;
use crate::schema_ix::SchemaIx;
use crate::validate::{validate_operations, validate_unimplemented_rules};

#[derive(Clone, Debug)]
pub struct OpOpts {
    pub coercing_literals: bool,
    pub custom_directives: bool,
    pub skip_include: bool,
    pub fragments: bool,
    pub variables: bool,
    pub shorthand: bool,
    pub max_depth: usize,
    /// nullable variable with a default used in a non-null position
    pub nullable_var_with_default: bool,
    pub max_ops: usize,
    /// alias every selected field uniquely: no duplicate response keys anywhere
    pub unique_response_keys: bool,
    /// now and then a fragment carries the name of an operation (separate name spaces: legal)
    pub shared_names: bool,
}

impl OpOpts {
    pub fn standard() -> OpOpts {
        OpOpts { coercing_literals: false, custom_directives: true, skip_include: true, fragments: true, variables: true, shorthand: false, max_depth: 3, nullable_var_with_default: false, max_ops: 3, unique_response_keys: false, shared_names: false }
    }
}

struct G<'a> {
    ix: &'a SchemaIx,
    o: &'a OpOpts,
    /// fragments generated so far (acyclic: a fragment only spreads earlier ones), with the variables each needs
    frags: Vec<(FragDef, Vec<VarDef>)>,
    alias_n: usize,
    var_n: usize,
}

struct Scope {
    vars: Vec<VarDef>,
}

impl<'a> G<'a> {
    fn alias(&mut self) -> String {
        self.alias_n += 1;
        format!("a{}", self.alias_n)
    }

    fn typename(&mut self, sc: &mut Scope, rng: &mut Rng) -> Sel {
        let mut f = Field::leaf("__typename");
        // the meta field takes directives like any other field (@skip / @include on it make it conditional)
        f.dirs = self.exec_dirs(sc, rng, "FIELD");
        if self.o.unique_response_keys {
            f.alias = Some(nm(&self.alias()));
        }
        Sel::Field(f)
    }

    fn new_var(&mut self, sc: &mut Scope, ty: Ty, rng: &mut Rng, loc_has_default: bool) -> String {
        self.var_n += 1;
        let name = format!("v{}", self.var_n);
        // variable type: the location type, or stricter (non-null / with default)
        let mut vty = ty.clone();
        // ... also *inside* list wrappers: `[T!]!` may flow into `[T]` (AreTypesCompatible is covariant in non-null at every level)
        if vty.list_depth() > 0 && rng.chance(1, 2) {
            vty = stricten_inner(&vty, rng);
        }
        let mut default = None;
        if !vty.is_non_null() && rng.chance(1, 4) {
            vty = Ty::non_null(vty);
        } else if vty.is_non_null() && self.o.nullable_var_with_default && rng.chance(1, 3) {
            // nullable variable with a non-null default in a non-null position (spec allows it)
            vty = vty.nullable().clone();
            default = Some(force_non_null(gen_const(rng, self.ix, &Ty::non_null(vty.clone()), 2, self.o.coercing_literals)));
        } else if vty.is_non_null() && loc_has_default && self.o.nullable_var_with_default && rng.chance(1, 4) {
            vty = vty.nullable().clone();
        }
        if default.is_none() && rng.chance(1, 4) {
            default = Some(gen_const(rng, self.ix, &vty, 2, self.o.coercing_literals));
        }
        let dirs = if self.o.custom_directives { crate::gen_schema::gen_applications(rng, self.ix, "VARIABLE_DEFINITION", self.o.coercing_literals, 1, 4) } else { vec![] };
        sc.vars.push(VarDef { p: P::none(), name: nm(&name), ty: vty, default, dirs });
        name
    }

    fn bool_var(&mut self, sc: &mut Scope, rng: &mut Rng) -> String {
        // reuse a Boolean variable of this scope with probability (shared variables across merged fields)
        let existing: Vec<String> = sc.vars.iter().filter(|v| v.ty.base() == "Boolean" && v.ty.list_depth() == 0 && (v.ty.is_non_null() || v.default.as_ref().is_some_and(|d| !matches!(d, Val::Null(_))))).map(|v| v.name.s.clone()).collect();
        if !existing.is_empty() && rng.chance(2, 3) {
            return existing[rng.below(existing.len())].clone();
        }
        self.var_n += 1;
        let name = format!("b{}", self.var_n);
        let (ty, default) = if rng.chance(1, 4) { (Ty::named("Boolean"), Some(Val::boolean(rng.coin()))) } else { (Ty::non_null(Ty::named("Boolean")), None) };
        sc.vars.push(VarDef { p: P::none(), name: nm(&name), ty, default, dirs: vec![] });
        name
    }

    /// a value for an input position of type `ty`, possibly using variables
    fn value(&mut self, sc: &mut Scope, rng: &mut Rng, ty: &Ty, depth: usize, loc_has_default: bool) -> Val {
        if self.o.variables && rng.chance(1, 4) {
            let v = self.new_var(sc, ty.clone(), rng, loc_has_default);
            return Val::var(&v);
        }
        if !ty.is_non_null() && rng.chance(1, 8) {
            return Val::null();
        }
        match ty.nullable() {
            Ty::List(inner, _) => {
                if self.o.coercing_literals && rng.chance(1, 5) && !matches!(**inner, Ty::List(..)) {
                    return force_non_null(self.value_nn(sc, rng, inner, depth));
                }
                let n = if depth == 0 { 0 } else { rng.below(3) };
                Val::list((0..n).map(|_| self.value(sc, rng, inner, depth.saturating_sub(1), false)).collect())
            }
            t => self.value_nn(sc, rng, t, depth),
        }
    }

    fn value_nn(&mut self, sc: &mut Scope, rng: &mut Rng, ty: &Ty, depth: usize) -> Val {
        let t = ty.nullable();
        if let Ty::Named(n) = t {
            if self.ix.kind(&n.s) == Some(TKind::Input) {
                let def = self.ix.ty(&n.s).unwrap().clone();
                let mut fields = vec![];
                for f in &def.input_fields {
                    let required = f.ty.is_non_null() && f.default.is_none();
                    if required || (depth > 0 && rng.coin()) {
                        fields.push((nm(&f.name.s), self.value(sc, rng, &f.ty, depth.saturating_sub(1), f.default.is_some())));
                    }
                }
                return Val::Obj(fields, P::none());
            }
        }
        if let Ty::List(..) = t {
            return self.value(sc, rng, &Ty::non_null(t.clone()), depth, false);
        }
        force_non_null(gen_const(rng, self.ix, &Ty::non_null(t.clone()), depth, self.o.coercing_literals))
    }

    fn args(&mut self, sc: &mut Scope, rng: &mut Rng, defs: &[InputValueDef]) -> Vec<(Name, Val)> {
        let mut out = vec![];
        for d in defs {
            let required = d.ty.is_non_null() && d.default.is_none();
            if required || rng.chance(1, 2) {
                out.push((nm(&d.name.s), self.value(sc, rng, &d.ty, 2, d.default.is_some())));
            }
        }
        rng.shuffle(&mut out);
        out
    }

    fn exec_dirs(&mut self, sc: &mut Scope, rng: &mut Rng, location: &str) -> Vec<Dir> {
        let mut out = vec![];
        if self.o.skip_include && matches!(location, "FIELD" | "FRAGMENT_SPREAD" | "INLINE_FRAGMENT") && rng.chance(1, 4) {
            let which = if rng.coin() { "skip" } else { "include" };
            let v = if rng.chance(1, 3) { Val::boolean(rng.coin()) } else { Val::var(&self.bool_var(sc, rng)) };
            out.push(Dir::new(which, vec![("if", v)]));
            if rng.chance(1, 6) {
                let other = if which == "skip" { "include" } else { "skip" };
                let v = if rng.coin() { Val::boolean(rng.coin()) } else { Val::var(&self.bool_var(sc, rng)) };
                out.push(Dir::new(other, vec![("if", v)]));
            }
        }
        if self.o.custom_directives {
            let cands: Vec<DirectiveDef> = self.ix.directives.values().filter(|d| d.locations.iter().any(|l| l.s == location) && !matches!(d.name.s.as_str(), "skip" | "include")).cloned().collect();
            for d in cands {
                if !rng.chance(1, 4) {
                    continue;
                }
                let reps = if d.repeatable && rng.chance(1, 3) { 2 } else { 1 };
                for _ in 0..reps {
                    let a = self.args(sc, rng, &d.args);
                    out.push(Dir { name: nm(&d.name.s), p: P::none(), args: a, args_p: P::none() });
                }
            }
        }
        out
    }

    fn selset(&mut self, sc: &mut Scope, rng: &mut Rng, parent: &str, depth: usize, frag_limit: usize) -> SelSet {
        let ix = self.ix;
        let mut items = vec![];
        let n = rng.range(1, 4);
        let kind = ix.kind(parent).unwrap();
        let fields: Vec<FieldDef> = if kind == TKind::Union { vec![] } else { ix.ty(parent).unwrap().fields.clone() };
        for _ in 0..n {
            let r = rng.below(10);
            if (r < 6 || depth == 0) && !fields.is_empty() {
                let fd = fields[rng.below(fields.len())].clone();
                let base = fd.ty.base().to_string();
                let composite = ix.is_composite(&base);
                if composite && depth == 0 {
                    // cannot descend further: select __typename instead
                    let t = self.typename(sc, rng);
                    items.push(t);
                    continue;
                }
                let args = self.args(sc, rng, &fd.args);
                // a selection with arguments always gets a unique alias (keeps overlapping fields mergeable)
                let alias = if self.o.unique_response_keys || !args.is_empty() || rng.chance(1, 5) { Some(nm(&self.alias())) } else { None };
                let dirs = self.exec_dirs(sc, rng, "FIELD");
                let sels = if composite { Some(self.selset(sc, rng, &base, depth - 1, frag_limit)) } else { None };
                items.push(Sel::Field(Field { alias, name: nm(&fd.name.s), args, args_p: P::none(), dirs, sels }));
            } else if r < 7 {
                let t = self.typename(sc, rng);
                items.push(t);
            } else if r < 9 && depth > 0 {
                // inline fragment
                let cond = if rng.chance(1, 4) {
                    None
                } else {
                    let cands: Vec<String> = ix.order.iter().filter(|t| ix.is_composite(t) && ix.spread_possible(parent, t)).cloned().collect();
                    if cands.is_empty() { None } else { Some(cands[rng.below(cands.len())].clone()) }
                };
                let target = cond.clone().unwrap_or_else(|| parent.to_string());
                let dirs = self.exec_dirs(sc, rng, "INLINE_FRAGMENT");
                let sels = self.selset(sc, rng, &target, depth - 1, frag_limit);
                items.push(Sel::Inline { p: P::none(), cond: cond.map(|c| nm(&c)), dirs, sels });
            } else if self.o.fragments {
                // spread of an earlier fragment that can apply here
                let cands: Vec<usize> = (0..frag_limit.min(self.frags.len())).filter(|i| ix.spread_possible(parent, &self.frags[*i].0.cond.s)).collect();
                if let Some(&i) = rng.pick_opt(&cands) {
                    let (fr, vars) = self.frags[i].clone();
                    for v in vars {
                        if !sc.vars.iter().any(|x| x.name.s == v.name.s) {
                            sc.vars.push(v);
                        }
                    }
                    let dirs = self.exec_dirs(sc, rng, "FRAGMENT_SPREAD");
                    items.push(Sel::Spread { p: P::none(), name: nm(&fr.name.s), dirs });
                } else {
                    let t = self.typename(sc, rng);
                    items.push(t);
                }
            } else {
                let t = self.typename(sc, rng);
                items.push(t);
            }
        }
        if kind == TKind::Union && items.iter().all(|s| matches!(s, Sel::Field(_))) && depth > 0 {
            // make union selections interesting: one member branch
            let members = ix.possible(parent);
            if let Some(m) = rng.pick_opt(&members) {
                let sels = self.selset(sc, rng, m, depth - 1, frag_limit);
                items.push(Sel::Inline { p: P::none(), cond: Some(nm(m)), dirs: vec![], sels });
            }
        }
        SelSet { p: P::none(), items }
    }
}

/// a subtype of `t` obtained by making some nullable positions below a list wrapper non-null (the outermost level is left alone)
fn stricten_inner(t: &Ty, rng: &mut Rng) -> Ty {
    fn go(t: &Ty, rng: &mut Rng, top: bool) -> Ty {
        match t {
            Ty::NonNull(i) => Ty::non_null(go(i, rng, true)),
            Ty::List(i, p) => {
                let inner = go(i, rng, false);
                let l = Ty::List(Box::new(inner), p.clone());
                if !top && rng.coin() { Ty::non_null(l) } else { l }
            }
            Ty::Named(n) => {
                if !top && rng.coin() { Ty::non_null(Ty::Named(n.clone())) } else { Ty::Named(n.clone()) }
            }
        }
    }
    // `top` = this node is the outermost type or sits directly under a NonNull wrapper (already strict)
    match t {
        Ty::NonNull(i) => Ty::non_null(go(i, rng, true)),
        t => go(t, rng, true),
    }
}

fn force_non_null(v: Val) -> Val {
    match v {
        Val::Null(_) => Val::int("0"),
        v => v,
    }
}

/// One valid document (operations + the fragments they use). None if no valid document was found in a few tries.
pub fn gen_valid_doc(rng: &mut Rng, ix: &SchemaIx, o: &OpOpts) -> Option<ExecDoc> {
    for _ in 0..12 {
        let doc = gen_doc_once(rng, ix, o);
        if doc.ops().count() == 0 {
            continue;
        }
        if validate_operations(ix, &doc).is_empty() && validate_unimplemented_rules(ix, &doc).is_empty() {
            return Some(doc);
        }
    }
    None
}

pub fn gen_doc_once(rng: &mut Rng, ix: &SchemaIx, o: &OpOpts) -> ExecDoc {
    let mut g = G { ix, o, frags: vec![], alias_n: 0, var_n: 0 };
    // name styles: lower-case initials and underscores are legal names too (the generators capitalise some of them)
    let op_prefix = rng.s(&["Op", "Op", "Op", "op", "my_op_", "_Op"]);
    let frag_prefix = if o.shared_names && rng.chance(1, 4) { op_prefix } else { rng.s(&["F", "F", "F", "f", "frag_", "_F"]) };
    // fragment pool
    if o.fragments {
        let composites: Vec<String> = ix.order.iter().filter(|t| ix.is_composite(t)).cloned().collect();
        let nf = if rng.chance(1, 4) { 3 + rng.below(4) } else { rng.below(4) };
        for k in 0..nf {
            let cond = composites[rng.below(composites.len())].clone();
            let mut sc = Scope { vars: vec![] };
            let limit = g.frags.len();
            let fdepth = rng.range(0, o.max_depth.saturating_sub(1));
            let sels = g.selset(&mut sc, rng, &cond, fdepth, limit);
            let dirs = g.exec_dirs(&mut sc, rng, "FRAGMENT_DEFINITION");
            g.frags.push((FragDef { p: P::none(), name: nm(&format!("{frag_prefix}{}", k + 1)), cond: nm(&cond), dirs, sels }, sc.vars));
        }
    }
    let mut defs = vec![];
    let nops = rng.range(1, o.max_ops);
    let kinds: Vec<OpKind> = [OpKind::Query, OpKind::Mutation, OpKind::Subscription].into_iter().filter(|k| ix.root(*k).is_some()).collect();
    let mut used_frags: Vec<String> = vec![];
    for k in 0..nops {
        let kind = if k == 0 && ix.root(OpKind::Query).is_some() { OpKind::Query } else { kinds[rng.below(kinds.len())] };
        let root = ix.root(kind).unwrap().clone();
        let mut sc = Scope { vars: vec![] };
        let limit = g.frags.len();
        let mut sels = g.selset(&mut sc, rng, &root, o.max_depth, limit);
        if kind == OpKind::Subscription {
            // exactly one root field
            let first_field = sels.items.iter().find(|s| matches!(s, Sel::Field(f) if f.name.s != "__typename")).cloned();
            match first_field {
                Some(f) => sels.items = vec![f],
                None => {
                    let fd = ix.ty(&root).unwrap().fields[0].clone();
                    let base = fd.ty.base().to_string();
                    let args = g.args(&mut sc, rng, &fd.args);
                    let sub = if ix.is_composite(&base) { Some(SelSet { p: P::none(), items: vec![Sel::Field(Field::leaf("__typename"))] }) } else { None };
                    sels.items = vec![Sel::Field(Field { alias: None, name: nm(&fd.name.s), args, args_p: P::none(), dirs: vec![], sels: sub })];
                }
            }
            // variables introduced by dropped selections are no longer used: recompute below
        }
        let dirs = g.exec_dirs(&mut sc, rng, match kind {
            OpKind::Query => "QUERY",
            OpKind::Mutation => "MUTATION",
            OpKind::Subscription => "SUBSCRIPTION",
        });
        let name = if nops == 1 && rng.chance(1, 4) { None } else { Some(nm(&format!("{op_prefix}{}", k + 1))) };
        let mut op = OpDef { p: P::none(), kind, name, vars: sc.vars, vars_p: P::none(), dirs, sels, shorthand: false };
        // keep only the variables that are really used (transitively through fragments)
        let tmp_doc = ExecDoc { defs: g.frags.iter().map(|(f, _)| ExecDef::Frag(f.clone())).chain(std::iter::once(ExecDef::Op(op.clone()))).collect() };
        let used = used_vars_of(&tmp_doc, &op);
        op.vars.retain(|v| used.contains(&v.name.s));
        // variables needed by spread fragments but dropped from the scope (subscription trimming) are re-added
        let mut reached = std::collections::BTreeSet::new();
        crate::validate::frags_reached(&tmp_doc, &op.sels, &mut reached);
        for (f, vars) in &g.frags {
            if reached.contains(&f.name.s) {
                for v in vars {
                    if used.contains(&v.name.s) && !op.vars.iter().any(|x| x.name.s == v.name.s) {
                        op.vars.push(v.clone());
                    }
                }
                if !used_frags.contains(&f.name.s) {
                    used_frags.push(f.name.s.clone());
                }
            }
        }
        if o.shorthand && op.name.is_none() && op.vars.is_empty() && op.dirs.is_empty() && kind == OpKind::Query && rng.coin() {
            op.shorthand = true;
        }
        defs.push(ExecDef::Op(op));
    }
    // only fragments that are used; definitions in random order
    for (f, _) in &g.frags {
        if used_frags.contains(&f.name.s) {
            defs.push(ExecDef::Frag(f.clone()));
        }
    }
    rng.shuffle(&mut defs);
    ExecDoc { defs }
}

fn used_vars_of(doc: &ExecDoc, op: &OpDef) -> std::collections::BTreeSet<String> {
    let mut used = std::collections::BTreeSet::new();
    fn dir_vars(dirs: &[Dir], used: &mut std::collections::BTreeSet<String>) {
        for d in dirs {
            for (_, v) in &d.args {
                let mut u = vec![];
                v.vars(&mut u);
                used.extend(u);
            }
        }
    }
    fn walk(doc: &ExecDoc, ss: &SelSet, used: &mut std::collections::BTreeSet<String>, seen: &mut Vec<String>) {
        for s in &ss.items {
            dir_vars(s.dirs(), used);
            match s {
                Sel::Field(f) => {
                    for (_, v) in &f.args {
                        let mut u = vec![];
                        v.vars(&mut u);
                        used.extend(u);
                    }
                    if let Some(ss) = &f.sels {
                        walk(doc, ss, used, seen);
                    }
                }
                Sel::Inline { sels, .. } => walk(doc, sels, used, seen),
                Sel::Spread { name, .. } => {
                    if !seen.contains(&name.s) {
                        seen.push(name.s.clone());
                        if let Some(f) = doc.frag(&name.s) {
                            dir_vars(&f.dirs, used);
                            walk(doc, &f.sels, used, seen);
                        }
                    }
                }
            }
        }
    }
    dir_vars(&op.dirs, &mut used);
    walk(doc, &op.sels, &mut used, &mut vec![]);
    used
}

/// Split a valid single-file document into a main file plus fragment files connected by `#import` lines.
/// Returns (path, document) pairs; index 0 is the main file. Paths are relative to a project root.
pub fn split_into_files(doc: &ExecDoc, rng: &mut Rng) -> Vec<(String, ExecDoc)> {
    split_into_files_at(doc, rng, "ops/main.graphql", ["ops/frag_a.graphql", "ops/sub/frag_b.graphql", "shared/frag_c.graphql"])
}

/// the same with the file names given (none may start with `..`: relative import paths are computed between them)
pub fn split_into_files_at(doc: &ExecDoc, rng: &mut Rng, main: &str, paths: [&str; 3]) -> Vec<(String, ExecDoc)> {
    let frags: Vec<FragDef> = doc.frags().cloned().collect();
    if frags.is_empty() || rng.chance(1, 3) {
        return vec![(main.into(), doc.clone())];
    }
    let nfiles = rng.range(1, paths.len().min(frags.len()));
    let minimal = rng.coin();
    // assign each fragment to main (index 0) or one of the fragment files
    let mut home: BTreeMap<String, usize> = BTreeMap::new();
    for f in &frags {
        home.insert(f.name.s.clone(), rng.below(nfiles + 1));
    }
    let all_paths: Vec<String> = std::iter::once(main.to_string()).chain(paths.iter().take(nfiles).map(|s| s.to_string())).collect();
    let mut files: Vec<ExecDoc> = (0..=nfiles).map(|_| ExecDoc::default()).collect();
    for d in &doc.defs {
        match d {
            ExecDef::Op(_) => files[0].defs.push(d.clone()),
            ExecDef::Frag(f) => files[home[&f.name.s]].defs.push(d.clone()),
            ExecDef::Import(_) => {}
        }
    }
    // imports: every file imports the fragments its definitions need *transitively* and that live elsewhere
    // (importing F does not bring the fragments F spreads, unless the imported file imports them itself)
    for i in 0..files.len() {
        let mut direct: Vec<String> = vec![];
        for d in &files[i].defs {
            let ss = match d {
                ExecDef::Op(o) => &o.sels,
                ExecDef::Frag(f) => &f.sels,
                _ => continue,
            };
            direct_spreads(ss, &mut direct);
        }
        // transitive closure through fragment bodies -- or, in the minimal mode, only what this file's own definitions
        // spread: the fragments *those* need arrive through the imports of the files they live in (diamonds arise
        // when two imported files need different fragments of a third one)
        let mut k = 0;
        while k < direct.len() {
            let g = direct[k].clone();
            if let Some(f) = doc.frag(&g) {
                let mut more = vec![];
                direct_spreads(&f.sels, &mut more);
                for m in more {
                    // minimal mode: a fragment spread by an imported fragment is needed here only when it lives in the
                    // same file as that fragment (a specific import does not bring its siblings); one that lives
                    // elsewhere arrives through the imports of the file that spreads it
                    let follow = !minimal || (home.get(&g) == home.get(&m) && home.get(&g) != Some(&i));
                    if follow && !direct.contains(&m) {
                        direct.push(m);
                    }
                }
            }
            k += 1;
        }
        direct.sort();
        direct.dedup();
        let mut by_file: BTreeMap<usize, Vec<String>> = BTreeMap::new();
        for n in direct {
            if let Some(&h) = home.get(&n) {
                if h != i {
                    by_file.entry(h).or_default().push(n);
                }
            }
        }
        let mut imports = vec![];
        for (h, names) in by_file {
            let rel = rel_path(&all_paths[i], &all_paths[h]);
            let targets: Vec<Option<Name>> = if rng.chance(1, 4) { vec![None] } else { names.iter().map(|n| Some(nm(n))).collect() };
            imports.push(ExecDef::Import(Import { p: P::none(), targets, path: StrLit::plain(&rel) }));
        }
        let mut defs = imports;
        defs.append(&mut files[i].defs);
        files[i].defs = defs;
    }
    let mut out: Vec<(String, ExecDoc)> = all_paths.into_iter().zip(files).collect();
    // a fragment file that ended up empty is dropped (nothing refers to it)
    let keep: Vec<bool> = out.iter().enumerate().map(|(i, (_, d))| i == 0 || d.defs.iter().any(|x| !matches!(x, ExecDef::Import(_)))).collect();
    let mut i = 0;
    out.retain(|_| {
        let k = keep[i];
        i += 1;
        k
    });
    out
}

fn direct_spreads(ss: &SelSet, out: &mut Vec<String>) {
    for s in &ss.items {
        match s {
            Sel::Field(f) => {
                if let Some(ss) = &f.sels {
                    direct_spreads(ss, out);
                }
            }
            Sel::Inline { sels, .. } => direct_spreads(sels, out),
            Sel::Spread { name, .. } => out.push(name.s.clone()),
        }
    }
}

pub fn rel_path(from: &str, to: &str) -> String {
    let fd: Vec<&str> = from.split('/').collect();
    let td: Vec<&str> = to.split('/').collect();
    let fdir = &fd[..fd.len() - 1];
    let common = fdir.iter().zip(td.iter()).take_while(|(a, b)| a == b).count();
    let mut parts: Vec<String> = vec![];
    for _ in common..fdir.len() {
        parts.push("..".into());
    }
    for c in &td[common..] {
        parts.push(c.to_string());
    }
    let s = parts.join("/");
    if s.starts_with("..") { s } else { format!("./{s}") }
}
