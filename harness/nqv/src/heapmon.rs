//! Shadow-heap monitor: a `GlobalAlloc` wrapper that remembers every live block and checks
//! that each dealloc / realloc hits a live block with the identical layout. Installed by the
//! `nqv-loader` binary only. Tracking can be switched off (sanitizer / valgrind runs, where an
//! address-remembering monitor would hide leaks and double frees from the tool).

use std::alloc::{GlobalAlloc, Layout, System};
use std::sync::atomic::{AtomicBool, AtomicU64, AtomicUsize, Ordering};

const SLOTS: usize = 1 << 21;

struct Table {
    keys: *mut usize,
    vals: *mut u64,
}

// tracking is on from the first allocation of the process (so that every later dealloc can be judged)
static ENABLED: AtomicBool = AtomicBool::new(!cfg!(miri));
static LOCK: AtomicBool = AtomicBool::new(false);
static TABLE_KEYS: AtomicUsize = AtomicUsize::new(0);
static TABLE_VALS: AtomicUsize = AtomicUsize::new(0);
pub static LIVE_BLOCKS: AtomicU64 = AtomicU64::new(0);
pub static LIVE_BYTES: AtomicU64 = AtomicU64::new(0);
pub static ALLOCS: AtomicU64 = AtomicU64::new(0);
pub static DEALLOCS: AtomicU64 = AtomicU64::new(0);
pub static VIOLATIONS: AtomicU64 = AtomicU64::new(0);
/// first violation: kind (1 = dealloc of unknown block, 2 = layout mismatch), ptr, expected, actual
pub static FIRST: [AtomicU64; 4] = [AtomicU64::new(0), AtomicU64::new(0), AtomicU64::new(0), AtomicU64::new(0)];

pub struct Monitor;

fn lock() {
    while LOCK.compare_exchange_weak(false, true, Ordering::Acquire, Ordering::Relaxed).is_err() {
        std::hint::spin_loop();
    }
}
fn unlock() {
    LOCK.store(false, Ordering::Release);
}

fn table() -> Table {
    let mut k = TABLE_KEYS.load(Ordering::Relaxed);
    if k == 0 {
        unsafe {
            let kp = System.alloc_zeroed(Layout::from_size_align(SLOTS * 8, 8).unwrap());
            let vp = System.alloc_zeroed(Layout::from_size_align(SLOTS * 8, 8).unwrap());
            TABLE_KEYS.store(kp as usize, Ordering::Relaxed);
            TABLE_VALS.store(vp as usize, Ordering::Relaxed);
            k = kp as usize;
        }
    }
    Table { keys: k as *mut usize, vals: TABLE_VALS.load(Ordering::Relaxed) as *mut u64 }
}

fn pack(l: Layout) -> u64 {
    ((l.size() as u64) << 8) | (l.align().trailing_zeros() as u64)
}

const TOMB: usize = 1;

unsafe fn insert(p: usize, v: u64) {
    let t = table();
    let mut i = (p.wrapping_mul(0x9E3779B97F4A7C15) >> 20) & (SLOTS - 1);
    loop {
        let k = unsafe { *t.keys.add(i) };
        if k == 0 || k == TOMB || k == p {
            unsafe {
                *t.keys.add(i) = p;
                *t.vals.add(i) = v;
            }
            return;
        }
        i = (i + 1) & (SLOTS - 1);
    }
}

unsafe fn remove(p: usize) -> Option<u64> {
    let t = table();
    let mut i = (p.wrapping_mul(0x9E3779B97F4A7C15) >> 20) & (SLOTS - 1);
    loop {
        let k = unsafe { *t.keys.add(i) };
        if k == 0 {
            return None;
        }
        if k == p {
            unsafe {
                *t.keys.add(i) = TOMB;
                return Some(*t.vals.add(i));
            }
        }
        i = (i + 1) & (SLOTS - 1);
    }
}

fn violation(kind: u64, p: usize, expected: u64, actual: u64) {
    if VIOLATIONS.fetch_add(1, Ordering::Relaxed) == 0 {
        FIRST[0].store(kind, Ordering::Relaxed);
        FIRST[1].store(p as u64, Ordering::Relaxed);
        FIRST[2].store(expected, Ordering::Relaxed);
        FIRST[3].store(actual, Ordering::Relaxed);
    }
}

fn on_alloc(p: *mut u8, l: Layout) {
    if p.is_null() || !ENABLED.load(Ordering::Relaxed) {
        return;
    }
    lock();
    unsafe { insert(p as usize, pack(l)) };
    unlock();
    ALLOCS.fetch_add(1, Ordering::Relaxed);
    LIVE_BLOCKS.fetch_add(1, Ordering::Relaxed);
    LIVE_BYTES.fetch_add(l.size() as u64, Ordering::Relaxed);
}

/// returns false when the block must NOT be handed to the system allocator (unknown block)
fn on_dealloc(p: *mut u8, l: Layout) -> bool {
    if !ENABLED.load(Ordering::Relaxed) {
        return true;
    }
    lock();
    let r = unsafe { remove(p as usize) };
    unlock();
    DEALLOCS.fetch_add(1, Ordering::Relaxed);
    match r {
        None => {
            // blocks allocated before tracking was switched on are unknown: only blocks allocated while
            // tracking is on are judged, so the driver enables tracking before the first ABI call
            if TRACK_STRICT.load(Ordering::Relaxed) {
                violation(1, p as usize, 0, pack(l));
                return false;
            }
            true
        }
        Some(v) => {
            LIVE_BLOCKS.fetch_sub(1, Ordering::Relaxed);
            LIVE_BYTES.fetch_sub(v >> 8, Ordering::Relaxed);
            if v != pack(l) {
                violation(2, p as usize, v, pack(l));
            }
            true
        }
    }
}

/// when strict, a dealloc of a block that the monitor never saw allocated is a violation (and is not
/// forwarded to the system allocator). Only sound if tracking was on since process start.
static TRACK_STRICT: AtomicBool = AtomicBool::new(true);

pub fn enable(strict: bool) {
    TRACK_STRICT.store(strict, Ordering::Relaxed);
    ENABLED.store(true, Ordering::SeqCst);
}
pub fn disable() {
    ENABLED.store(false, Ordering::SeqCst);
}
pub fn enabled() -> bool {
    ENABLED.load(Ordering::Relaxed)
}

pub fn first_violation() -> Option<String> {
    if VIOLATIONS.load(Ordering::Relaxed) == 0 {
        return None;
    }
    let k = FIRST[0].load(Ordering::Relaxed);
    let un = |v: u64| format!("size {} align {}", v >> 8, 1u64 << (v & 0xff));
    Some(match k {
        1 => format!("dealloc of a block the allocator never handed out (or already freed): ptr {:#x}, layout {}", FIRST[1].load(Ordering::Relaxed), un(FIRST[3].load(Ordering::Relaxed))),
        _ => format!("dealloc with a different layout: ptr {:#x} allocated as {} freed as {}", FIRST[1].load(Ordering::Relaxed), un(FIRST[2].load(Ordering::Relaxed)), un(FIRST[3].load(Ordering::Relaxed))),
    })
}

pub fn violation_kind() -> &'static str {
    match FIRST[0].load(Ordering::Relaxed) {
        1 => "unknown-or-double-free",
        2 => "layout-mismatch",
        _ => "none",
    }
}

pub fn reset_violations() {
    VIOLATIONS.store(0, Ordering::Relaxed);
}

unsafe impl GlobalAlloc for Monitor {
    unsafe fn alloc(&self, l: Layout) -> *mut u8 {
        let p = unsafe { System.alloc(l) };
        on_alloc(p, l);
        p
    }
    unsafe fn alloc_zeroed(&self, l: Layout) -> *mut u8 {
        let p = unsafe { System.alloc_zeroed(l) };
        on_alloc(p, l);
        p
    }
    unsafe fn dealloc(&self, p: *mut u8, l: Layout) {
        if on_dealloc(p, l) {
            unsafe { System.dealloc(p, l) }
        }
    }
    unsafe fn realloc(&self, p: *mut u8, l: Layout, new_size: usize) -> *mut u8 {
        let ok = on_dealloc(p, l);
        if !ok {
            // unknown block: allocate fresh, do not touch the old one
            let nl = Layout::from_size_align(new_size, l.align()).unwrap();
            let np = unsafe { System.alloc(nl) };
            on_alloc(np, nl);
            return np;
        }
        let np = unsafe { System.realloc(p, l, new_size) };
        if !np.is_null() {
            on_alloc(np, Layout::from_size_align(new_size, l.align()).unwrap());
        } else {
            on_alloc(p, l);
        }
        np
    }
}
