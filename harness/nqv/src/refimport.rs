//! Reference `#import` closure over a set of in-memory files.

use std::collections::{BTreeMap, BTreeSet};

use crate::model::*;

/// reference path algebra: resolve `rel` against the directory of `from` (absolute, '/' separated)
pub fn resolve_path(from: &str, rel: &str) -> String {
    let mut st: Vec<&str> = vec![];
    let joined;
    let full = if rel.starts_with('/') {
        rel
    } else {
        let dir = match from.rfind('/') {
            Some(i) => &from[..i],
            None => "",
        };
        joined = format!("{dir}/{rel}");
        joined.as_str()
    };
    for c in full.split('/') {
        match c {
            "" | "." => {}
            ".." => {
                st.pop();
            }
            n => st.push(n),
        }
    }
    format!("/{}", st.join("/"))
}

#[derive(Debug, Clone, PartialEq, Eq, PartialOrd, Ord)]
pub struct Offender {
    pub file: usize,
    pub line: u32,
    pub kind: &'static str,
}

pub struct Closure {
    /// imported fragments (file index, name), own definitions of the root excluded
    pub imported: BTreeSet<(usize, String)>,
    pub offenders: Vec<Offender>,
    pub reachable: BTreeSet<usize>,
}

pub fn closure(files: &[(String, ExecDoc)], root: usize) -> Closure {
    let index: BTreeMap<&str, usize> = files.iter().enumerate().map(|(i, (p, _))| (p.as_str(), i)).collect();
    let mut reachable = BTreeSet::new();
    let mut work = vec![root];
    let mut imported = BTreeSet::new();
    let mut offenders = vec![];
    reachable.insert(root);
    while let Some(f) = work.pop() {
        let (path, doc) = &files[f];
        for imp in doc.imports() {
            let target = resolve_path(path, &imp.path.value);
            let Some(&t) = index.get(target.as_str()) else {
                offenders.push(Offender { file: f, line: imp.p.line, kind: "dangling-file" });
                continue;
            };
            for tg in &imp.targets {
                match tg {
                    None => {
                        for fr in files[t].1.frags() {
                            imported.insert((t, fr.name.s.clone()));
                        }
                    }
                    Some(n) => {
                        if files[t].1.frag(&n.s).is_some() {
                            imported.insert((t, n.s.clone()));
                        } else {
                            offenders.push(Offender { file: f, line: imp.p.line, kind: "missing-fragment" });
                        }
                    }
                }
            }
            if reachable.insert(t) {
                work.push(t);
            }
        }
    }
    // own definitions of the root are present anyway and must not be duplicated
    let own: Vec<(usize, String)> = files[root].1.frags().map(|f| (root, f.name.s.clone())).collect();
    for o in own {
        imported.remove(&o);
    }
    Closure { imported, offenders, reachable }
}
