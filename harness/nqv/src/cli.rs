//! E2: the real `nitrogql-cli` binary as a subprocess over a generated project directory.

use std::collections::BTreeMap;
use std::io::Read;
use std::path::{Path, PathBuf};
use std::process::{Command, Stdio};
use std::time::{Duration, Instant};

use crate::rng::hash_str;

#[derive(Debug, Clone, Default)]
pub struct CliRun {
    pub status: Option<i32>,
    pub signal: Option<i32>,
    pub timed_out: bool,
    pub stdout: String,
    pub stderr: String,
}

impl CliRun {
    /// a panic message anywhere in stderr (the CLI catches panics of its task and may still exit 0)
    pub fn panicked(&self) -> Option<String> {
        self.stderr.lines().find(|l| l.contains("panicked at")).map(|l| l.to_string())
    }
    /// the panic message (the line after "panicked at file:line:col:")
    pub fn panic_message(&self) -> Option<String> {
        let mut it = self.stderr.lines().skip_while(|l| !l.contains("panicked at"));
        it.next()?;
        it.next().map(|l| l.to_string())
    }
    /// site of the panic ("crates/..../file.rs") if printed
    pub fn panic_site(&self) -> Option<String> {
        let l = self.panicked()?;
        let i = l.find("panicked at ")? + "panicked at ".len();
        let rest = &l[i..];
        let file = rest.split(':').next()?.to_string();
        Some(match file.find("crates/") {
            Some(k) => file[k..].to_string(),
            None => file,
        })
    }
}

pub fn write_project(dir: &Path, files: &[(String, String)]) -> std::io::Result<()> {
    for (rel, text) in files {
        let p = dir.join(rel);
        if let Some(parent) = p.parent() {
            std::fs::create_dir_all(parent)?;
        }
        std::fs::write(p, text)?;
    }
    Ok(())
}

/// path -> content hash of every file under dir
pub fn snapshot(dir: &Path) -> BTreeMap<String, u64> {
    fn walk(base: &Path, d: &Path, out: &mut BTreeMap<String, u64>) {
        if let Ok(rd) = std::fs::read_dir(d) {
            for e in rd.flatten() {
                let p = e.path();
                if p.is_dir() {
                    walk(base, &p, out);
                } else if let Ok(bytes) = std::fs::read(&p) {
                    let rel = p.strip_prefix(base).unwrap_or(&p).to_string_lossy().to_string();
                    out.insert(rel, hash_str(&String::from_utf8_lossy(&bytes)) ^ (bytes.len() as u64).rotate_left(32));
                }
            }
        }
    }
    let mut out = BTreeMap::new();
    walk(dir, dir, &mut out);
    out
}

/// Runs the CLI on the project under `dir/root` in one of three invocation styles chosen from the project's own text
/// (so that a replay takes the same one): from the project directory; from the directory above with
/// `--config-file root/<config>`; from a sub-directory with `--config-file ../<config>`. All three name the same project.
pub fn run_cli_any_style(cli: &str, dir: &Path, root: &str, files: &[(String, String)], args: &[&str], timeout: Duration) -> (CliRun, &'static str) {
    let cfg = files.iter().map(|(p, _)| p.as_str()).find(|p| p.starts_with(&format!("{root}/")) && p.contains("graphql.config"));
    let h = files.iter().fold(0u64, |a, (p, t)| a.wrapping_mul(31).wrapping_add(crate::rng::hash_str(p) ^ crate::rng::hash_str(t)));
    let sub = files.iter().filter_map(|(p, _)| p.strip_prefix(&format!("{root}/"))).filter_map(|p| p.split_once('/').map(|x| x.0.to_string())).find(|d| !d.starts_with('.'));
    match (h % 3, cfg, sub) {
        (1, Some(c), _) => {
            let mut a: Vec<&str> = vec!["--config-file", c];
            a.extend_from_slice(args);
            (run_cli(cli, dir, &a, timeout), "from-parent-directory")
        }
        (2, Some(c), Some(sd)) => {
            let rel = format!("../{}", c.rsplit('/').next().unwrap_or(c));
            let mut a: Vec<&str> = vec!["--config-file", &rel];
            a.extend_from_slice(args);
            (run_cli(cli, &dir.join(root).join(sd), &a, timeout), "from-sub-directory")
        }
        _ => (run_cli(cli, &dir.join(root), args, timeout), "from-project-directory"),
    }
}

pub fn run_cli(cli: &str, cwd: &Path, args: &[&str], timeout: Duration) -> CliRun {
    let mut cmd = Command::new(cli);
    cmd.args(args).current_dir(cwd).env_clear().env("PATH", "/usr/bin:/bin").env("HOME", "/tmp").stdin(Stdio::null()).stdout(Stdio::piped()).stderr(Stdio::piped());
    let mut child = match cmd.spawn() {
        Ok(c) => c,
        Err(e) => return CliRun { stderr: format!("spawn failed: {e}"), ..Default::default() },
    };
    let mut so = child.stdout.take().unwrap();
    let mut se = child.stderr.take().unwrap();
    let t1 = std::thread::spawn(move || {
        let mut s = Vec::new();
        let _ = so.read_to_end(&mut s);
        String::from_utf8_lossy(&s).into_owned()
    });
    let t2 = std::thread::spawn(move || {
        let mut s = Vec::new();
        let _ = se.read_to_end(&mut s);
        String::from_utf8_lossy(&s).into_owned()
    });
    let t0 = Instant::now();
    let mut timed_out = false;
    let status = loop {
        match child.try_wait() {
            Ok(Some(st)) => break Some(st),
            Ok(None) => {
                if t0.elapsed() > timeout {
                    let _ = child.kill();
                    timed_out = true;
                    break child.wait().ok();
                }
                std::thread::sleep(Duration::from_millis(2));
            }
            Err(_) => break None,
        }
    };
    let stdout = t1.join().unwrap_or_default();
    let stderr = t2.join().unwrap_or_default();
    #[cfg(unix)]
    let signal = {
        use std::os::unix::process::ExitStatusExt;
        status.and_then(|s| s.signal())
    };
    CliRun { status: status.and_then(|s| s.code()), signal, timed_out, stdout, stderr }
}

/// fresh scratch directory below `base` (removed by the caller with `cleanup`)
pub fn scratch_dir(base: &str, tag: &str, n: u64) -> PathBuf {
    let p = PathBuf::from(base).join(format!("proj-{tag}-{}-{n}", std::process::id()));
    let _ = std::fs::remove_dir_all(&p);
    let _ = std::fs::create_dir_all(&p);
    p
}

pub fn cleanup(dir: &Path) {
    let _ = std::fs::remove_dir_all(dir);
}
