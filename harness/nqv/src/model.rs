//! The harness' own document model (independent of nitrogql's AST), produced by three
//! independent sources: the generators, the reference parser and the extractor that walks
//! nitrogql's public AST. Comparison happens on a generic node tree (`Node`).

use std::fmt::Write;

/// position of the first token of a construct
#[derive(Clone, Copy, Debug, Default, PartialEq, Eq)]
pub struct P {
    pub line: u32,
    /// column in Unicode scalar values
    pub col: u32,
    /// column in UTF-16 code units
    pub col16: u32,
    pub set: bool,
}

impl P {
    pub fn at(line: usize, col: usize, col16: usize) -> P {
        P { line: line as u32, col: col as u32, col16: col16 as u32, set: true }
    }
    pub fn none() -> P {
        P::default()
    }
}

#[derive(Clone, Debug, Default, PartialEq, Eq)]
pub struct Name {
    pub s: String,
    pub p: P,
}
impl Name {
    pub fn new(s: &str) -> Name {
        Name { s: s.to_string(), p: P::none() }
    }
}
pub fn nm(s: &str) -> Name {
    Name::new(s)
}

#[derive(Clone, Debug, PartialEq, Eq)]
pub enum Ty {
    Named(Name),
    List(Box<Ty>, P),
    NonNull(Box<Ty>),
}

impl Ty {
    pub fn named(s: &str) -> Ty {
        Ty::Named(Name::new(s))
    }
    pub fn list(t: Ty) -> Ty {
        Ty::List(Box::new(t), P::none())
    }
    pub fn non_null(t: Ty) -> Ty {
        match t {
            Ty::NonNull(_) => t,
            t => Ty::NonNull(Box::new(t)),
        }
    }
    pub fn base(&self) -> &str {
        match self {
            Ty::Named(n) => &n.s,
            Ty::List(t, _) => t.base(),
            Ty::NonNull(t) => t.base(),
        }
    }
    pub fn is_non_null(&self) -> bool {
        matches!(self, Ty::NonNull(_))
    }
    pub fn nullable(&self) -> &Ty {
        match self {
            Ty::NonNull(t) => t,
            t => t,
        }
    }
    pub fn show(&self) -> String {
        match self {
            Ty::Named(n) => n.s.clone(),
            Ty::List(t, _) => format!("[{}]", t.show()),
            Ty::NonNull(t) => format!("{}!", t.show()),
        }
    }
    /// same type ignoring positions
    pub fn same(&self, o: &Ty) -> bool {
        self.show() == o.show()
    }
    pub fn with_base(&self, base: &str) -> Ty {
        match self {
            Ty::Named(_) => Ty::named(base),
            Ty::List(t, p) => Ty::List(Box::new(t.with_base(base)), *p),
            Ty::NonNull(t) => Ty::NonNull(Box::new(t.with_base(base))),
        }
    }
    pub fn list_depth(&self) -> usize {
        match self {
            Ty::Named(_) => 0,
            Ty::List(t, _) => 1 + t.list_depth(),
            Ty::NonNull(t) => t.list_depth(),
        }
    }
}

#[derive(Clone, Debug, PartialEq, Eq)]
pub struct StrLit {
    /// the denoted (decoded) value
    pub value: String,
    pub p: P,
    /// written as a block string
    pub block: bool,
    /// exact source token, when the producer fixed it (renderer uses it verbatim)
    pub raw: Option<String>,
}
impl StrLit {
    pub fn plain(v: &str) -> StrLit {
        StrLit { value: v.to_string(), p: P::none(), block: false, raw: None }
    }
}

#[derive(Clone, Debug, PartialEq, Eq)]
pub enum Val {
    Var(Name),
    Int(String, P),
    Float(String, P),
    Str(StrLit),
    Bool(bool, P),
    Null(P),
    Enum(String, P),
    List(Vec<Val>, P),
    Obj(Vec<(Name, Val)>, P),
}

impl Val {
    pub fn int(s: &str) -> Val {
        Val::Int(s.to_string(), P::none())
    }
    pub fn float(s: &str) -> Val {
        Val::Float(s.to_string(), P::none())
    }
    pub fn str(s: &str) -> Val {
        Val::Str(StrLit::plain(s))
    }
    pub fn boolean(b: bool) -> Val {
        Val::Bool(b, P::none())
    }
    pub fn null() -> Val {
        Val::Null(P::none())
    }
    pub fn enumv(s: &str) -> Val {
        Val::Enum(s.to_string(), P::none())
    }
    pub fn var(s: &str) -> Val {
        Val::Var(Name::new(s))
    }
    pub fn list(v: Vec<Val>) -> Val {
        Val::List(v, P::none())
    }
    pub fn obj(v: Vec<(&str, Val)>) -> Val {
        Val::Obj(v.into_iter().map(|(k, v)| (Name::new(k), v)).collect(), P::none())
    }
    pub fn kind(&self) -> &'static str {
        match self {
            Val::Var(_) => "Variable",
            Val::Int(..) => "IntValue",
            Val::Float(..) => "FloatValue",
            Val::Str(_) => "StringValue",
            Val::Bool(..) => "BooleanValue",
            Val::Null(_) => "NullValue",
            Val::Enum(..) => "EnumValue",
            Val::List(..) => "ListValue",
            Val::Obj(..) => "ObjectValue",
        }
    }
    pub fn vars(&self, out: &mut Vec<String>) {
        match self {
            Val::Var(n) => out.push(n.s.clone()),
            Val::List(v, _) => v.iter().for_each(|x| x.vars(out)),
            Val::Obj(v, _) => v.iter().for_each(|(_, x)| x.vars(out)),
            _ => {}
        }
    }
}

#[derive(Clone, Debug, Default, PartialEq, Eq)]
pub struct Dir {
    pub name: Name,
    /// position of '@'
    pub p: P,
    pub args: Vec<(Name, Val)>,
    /// position of '(' when there are arguments
    pub args_p: P,
}
impl Dir {
    pub fn new(name: &str, args: Vec<(&str, Val)>) -> Dir {
        Dir { name: Name::new(name), p: P::none(), args: args.into_iter().map(|(k, v)| (Name::new(k), v)).collect(), args_p: P::none() }
    }
    pub fn arg(&self, k: &str) -> Option<&Val> {
        self.args.iter().find(|(n, _)| n.s == k).map(|(_, v)| v)
    }
}

#[derive(Clone, Copy, Debug, PartialEq, Eq, Hash, PartialOrd, Ord)]
pub enum OpKind {
    Query,
    Mutation,
    Subscription,
}
impl OpKind {
    pub fn as_str(&self) -> &'static str {
        match self {
            OpKind::Query => "query",
            OpKind::Mutation => "mutation",
            OpKind::Subscription => "subscription",
        }
    }
}

#[derive(Clone, Debug, PartialEq, Eq)]
pub struct VarDef {
    pub p: P,
    pub name: Name,
    pub ty: Ty,
    pub default: Option<Val>,
    pub dirs: Vec<Dir>,
}

#[derive(Clone, Debug, PartialEq, Eq)]
pub struct Field {
    pub alias: Option<Name>,
    pub name: Name,
    pub args: Vec<(Name, Val)>,
    pub args_p: P,
    pub dirs: Vec<Dir>,
    pub sels: Option<SelSet>,
}
impl Field {
    pub fn key(&self) -> &str {
        self.alias.as_ref().map(|a| a.s.as_str()).unwrap_or(&self.name.s)
    }
    pub fn leaf(name: &str) -> Field {
        Field { alias: None, name: Name::new(name), args: vec![], args_p: P::none(), dirs: vec![], sels: None }
    }
}

#[derive(Clone, Debug, Default, PartialEq, Eq)]
pub struct SelSet {
    pub p: P,
    pub items: Vec<Sel>,
}

#[derive(Clone, Debug, PartialEq, Eq)]
pub enum Sel {
    Field(Field),
    Spread { p: P, name: Name, dirs: Vec<Dir> },
    Inline { p: P, cond: Option<Name>, dirs: Vec<Dir>, sels: SelSet },
}
impl Sel {
    pub fn dirs(&self) -> &Vec<Dir> {
        match self {
            Sel::Field(f) => &f.dirs,
            Sel::Spread { dirs, .. } => dirs,
            Sel::Inline { dirs, .. } => dirs,
        }
    }
    pub fn dirs_mut(&mut self) -> &mut Vec<Dir> {
        match self {
            Sel::Field(f) => &mut f.dirs,
            Sel::Spread { dirs, .. } => dirs,
            Sel::Inline { dirs, .. } => dirs,
        }
    }
}

#[derive(Clone, Debug, PartialEq, Eq)]
pub struct OpDef {
    pub p: P,
    pub kind: OpKind,
    pub name: Option<Name>,
    pub vars: Vec<VarDef>,
    pub vars_p: P,
    pub dirs: Vec<Dir>,
    pub sels: SelSet,
    /// written as the `{ ... }` shorthand
    pub shorthand: bool,
}

#[derive(Clone, Debug, PartialEq, Eq)]
pub struct FragDef {
    pub p: P,
    pub name: Name,
    pub cond: Name,
    pub dirs: Vec<Dir>,
    pub sels: SelSet,
}

#[derive(Clone, Debug, PartialEq, Eq)]
pub struct Import {
    pub p: P,
    /// None = wildcard
    pub targets: Vec<Option<Name>>,
    pub path: StrLit,
}

#[derive(Clone, Debug, PartialEq, Eq)]
pub enum ExecDef {
    Op(OpDef),
    Frag(FragDef),
    Import(Import),
}

#[derive(Clone, Debug, Default, PartialEq, Eq)]
pub struct ExecDoc {
    pub defs: Vec<ExecDef>,
}

impl ExecDoc {
    pub fn ops(&self) -> impl Iterator<Item = &OpDef> {
        self.defs.iter().filter_map(|d| if let ExecDef::Op(o) = d { Some(o) } else { None })
    }
    pub fn frags(&self) -> impl Iterator<Item = &FragDef> {
        self.defs.iter().filter_map(|d| if let ExecDef::Frag(o) = d { Some(o) } else { None })
    }
    pub fn imports(&self) -> impl Iterator<Item = &Import> {
        self.defs.iter().filter_map(|d| if let ExecDef::Import(o) = d { Some(o) } else { None })
    }
    pub fn frag(&self, name: &str) -> Option<&FragDef> {
        self.frags().find(|f| f.name.s == name)
    }
}

// ---------------------------------------------------------------- type system

#[derive(Clone, Debug, PartialEq, Eq)]
pub struct InputValueDef {
    pub desc: Option<StrLit>,
    pub name: Name,
    pub ty: Ty,
    pub default: Option<Val>,
    pub dirs: Vec<Dir>,
}

#[derive(Clone, Debug, PartialEq, Eq)]
pub struct FieldDef {
    pub desc: Option<StrLit>,
    pub name: Name,
    pub args: Vec<InputValueDef>,
    pub ty: Ty,
    pub dirs: Vec<Dir>,
}

#[derive(Clone, Debug, PartialEq, Eq)]
pub struct EnumValDef {
    pub desc: Option<StrLit>,
    pub name: Name,
    pub dirs: Vec<Dir>,
}

#[derive(Clone, Copy, Debug, PartialEq, Eq, Hash, PartialOrd, Ord)]
pub enum TKind {
    Scalar,
    Object,
    Interface,
    Union,
    Enum,
    Input,
}
impl TKind {
    pub fn keyword(&self) -> &'static str {
        match self {
            TKind::Scalar => "scalar",
            TKind::Object => "type",
            TKind::Interface => "interface",
            TKind::Union => "union",
            TKind::Enum => "enum",
            TKind::Input => "input",
        }
    }
    pub fn all() -> [TKind; 6] {
        [TKind::Scalar, TKind::Object, TKind::Interface, TKind::Union, TKind::Enum, TKind::Input]
    }
}

/// A type definition or a type extension (`ext`), all kinds in one shape.
#[derive(Clone, Debug, PartialEq, Eq)]
pub struct TypeDef {
    pub ext: bool,
    pub kind: TKind,
    pub desc: Option<StrLit>,
    /// position of the keyword (definitions) / of `extend` (extensions)
    pub p: P,
    pub name: Name,
    pub implements: Vec<Name>,
    pub dirs: Vec<Dir>,
    pub fields: Vec<FieldDef>,
    pub members: Vec<Name>,
    pub values: Vec<EnumValDef>,
    pub input_fields: Vec<InputValueDef>,
}

impl TypeDef {
    pub fn new(kind: TKind, name: &str) -> TypeDef {
        TypeDef { ext: false, kind, desc: None, p: P::none(), name: Name::new(name), implements: vec![], dirs: vec![], fields: vec![], members: vec![], values: vec![], input_fields: vec![] }
    }
    pub fn field(&self, name: &str) -> Option<&FieldDef> {
        self.fields.iter().find(|f| f.name.s == name)
    }
}

#[derive(Clone, Debug, PartialEq, Eq)]
pub struct SchemaDef {
    pub ext: bool,
    pub desc: Option<StrLit>,
    pub p: P,
    pub dirs: Vec<Dir>,
    pub roots: Vec<(OpKind, Name)>,
}

#[derive(Clone, Debug, PartialEq, Eq)]
pub struct DirectiveDef {
    pub desc: Option<StrLit>,
    pub p: P,
    pub name: Name,
    pub args: Vec<InputValueDef>,
    pub repeatable: bool,
    pub repeatable_p: P,
    pub locations: Vec<Name>,
}

#[derive(Clone, Debug, PartialEq, Eq)]
pub enum TsDef {
    Schema(SchemaDef),
    Type(TypeDef),
    Directive(DirectiveDef),
}

#[derive(Clone, Debug, Default, PartialEq, Eq)]
pub struct TsDoc {
    pub defs: Vec<TsDef>,
}

impl TsDoc {
    pub fn types(&self) -> impl Iterator<Item = &TypeDef> {
        self.defs.iter().filter_map(|d| if let TsDef::Type(t) = d { Some(t) } else { None })
    }
    pub fn directives(&self) -> impl Iterator<Item = &DirectiveDef> {
        self.defs.iter().filter_map(|d| if let TsDef::Directive(t) = d { Some(t) } else { None })
    }
    pub fn type_def(&self, name: &str) -> Option<&TypeDef> {
        self.types().find(|t| !t.ext && t.name.s == name)
    }
}

// ---------------------------------------------------------------- generic tree

#[derive(Clone, Debug, PartialEq, Eq)]
pub struct Node {
    pub kind: &'static str,
    pub label: String,
    pub p: P,
    /// alternative acceptable position (e.g. description start vs keyword)
    pub alt_p: Option<P>,
    /// extra classification used only in signatures ("block" for block strings)
    pub tag: &'static str,
    /// for block strings: the raw text between the delimiters
    pub raw_inner: Option<String>,
    pub kids: Vec<Node>,
}

pub fn node(kind: &'static str, label: &str, p: P, kids: Vec<Node>) -> Node {
    Node { kind, label: label.to_string(), p, alt_p: None, tag: "", raw_inner: None, kids }
}

fn name_node(kind: &'static str, n: &Name) -> Node {
    node(kind, &n.s, n.p, vec![])
}

pub fn ty_node(t: &Ty) -> Node {
    match t {
        Ty::Named(n) => name_node("NamedType", n),
        Ty::List(t, p) => node("ListType", "", *p, vec![ty_node(t)]),
        Ty::NonNull(t) => node("NonNullType", "", P::none(), vec![ty_node(t)]),
    }
}

pub fn str_node(kind: &'static str, s: &StrLit) -> Node {
    let mut n = node(kind, &s.value, s.p, vec![]);
    if s.block {
        n.tag = "block";
        if let Some(r) = &s.raw {
            if r.len() >= 6 {
                n.raw_inner = Some(r[3..r.len() - 3].to_string());
            }
        }
    }
    n
}

pub fn val_node(v: &Val) -> Node {
    match v {
        Val::Var(n) => name_node("Variable", n),
        Val::Int(s, p) => node("IntValue", s, *p, vec![]),
        Val::Float(s, p) => node("FloatValue", s, *p, vec![]),
        Val::Str(s) => str_node("StringValue", s),
        Val::Bool(b, p) => node("BooleanValue", if *b { "true" } else { "false" }, *p, vec![]),
        Val::Null(p) => node("NullValue", "", *p, vec![]),
        Val::Enum(s, p) => node("EnumValue", s, *p, vec![]),
        Val::List(vs, p) => node("ListValue", "", *p, vs.iter().map(val_node).collect()),
        Val::Obj(fs, p) => node("ObjectValue", "", *p, fs.iter().map(|(k, v)| node("ObjectField", &k.s, k.p, vec![val_node(v)])).collect()),
    }
}

fn args_node(args: &[(Name, Val)], p: P) -> Node {
    node("Arguments", "", p, args.iter().map(|(k, v)| node("Argument", &k.s, k.p, vec![val_node(v)])).collect())
}

pub fn dir_node(d: &Dir) -> Node {
    let mut kids = vec![name_node("DirectiveName", &d.name)];
    if !d.args.is_empty() {
        kids.push(args_node(&d.args, d.args_p));
    }
    node("Directive", &d.name.s, d.p, kids)
}

fn dirs_node(ds: &[Dir]) -> Node {
    node("Directives", "", P::none(), ds.iter().map(dir_node).collect())
}

pub fn selset_node(s: &SelSet) -> Node {
    node("SelectionSet", "", s.p, s.items.iter().map(sel_node).collect())
}

pub fn sel_node(s: &Sel) -> Node {
    match s {
        Sel::Field(f) => {
            let mut kids = vec![];
            if let Some(a) = &f.alias {
                kids.push(name_node("Alias", a));
            }
            kids.push(name_node("FieldName", &f.name));
            if !f.args.is_empty() {
                kids.push(args_node(&f.args, f.args_p));
            }
            kids.push(dirs_node(&f.dirs));
            if let Some(ss) = &f.sels {
                kids.push(selset_node(ss));
            }
            node("Field", f.key(), P::none(), kids)
        }
        Sel::Spread { p, name, dirs } => node("FragmentSpread", &name.s, *p, vec![name_node("FragmentName", name), dirs_node(dirs)]),
        Sel::Inline { p, cond, dirs, sels } => {
            let mut kids = vec![];
            if let Some(c) = cond {
                kids.push(name_node("TypeCondition", c));
            }
            kids.push(dirs_node(dirs));
            kids.push(selset_node(sels));
            node("InlineFragment", "", *p, kids)
        }
    }
}

pub fn vardef_node(v: &VarDef) -> Node {
    let mut kids = vec![name_node("Variable", &v.name), ty_node(&v.ty)];
    if let Some(d) = &v.default {
        kids.push(node("DefaultValue", "", P::none(), vec![val_node(d)]));
    }
    kids.push(dirs_node(&v.dirs));
    node("VariableDefinition", &v.name.s, v.p, kids)
}

pub fn execdef_node(d: &ExecDef) -> Node {
    match d {
        ExecDef::Op(o) => {
            let mut kids = vec![];
            if let Some(n) = &o.name {
                kids.push(name_node("OperationName", n));
            }
            if !o.vars.is_empty() {
                kids.push(node("VariablesDefinition", "", o.vars_p, o.vars.iter().map(vardef_node).collect()));
            }
            kids.push(dirs_node(&o.dirs));
            kids.push(selset_node(&o.sels));
            node("OperationDefinition", o.kind.as_str(), o.p, kids)
        }
        ExecDef::Frag(f) => node("FragmentDefinition", &f.name.s, f.p, vec![name_node("FragmentName", &f.name), name_node("TypeCondition", &f.cond), dirs_node(&f.dirs), selset_node(&f.sels)]),
        ExecDef::Import(i) => {
            let mut kids: Vec<Node> = i
                .targets
                .iter()
                .map(|t| match t {
                    None => node("ImportWildcard", "*", P::none(), vec![]),
                    Some(n) => name_node("ImportName", n),
                })
                .collect();
            kids.push(str_node("ImportPath", &i.path));
            node("Import", "", i.p, kids)
        }
    }
}

pub fn execdoc_node(d: &ExecDoc) -> Node {
    node("ExecutableDocument", "", P::none(), d.defs.iter().map(execdef_node).collect())
}

fn desc_node(d: &Option<StrLit>, kids: &mut Vec<Node>) {
    if let Some(d) = d {
        kids.push(str_node("Description", d));
    }
}

pub fn ivd_node(kind: &'static str, v: &InputValueDef) -> Node {
    let mut kids = vec![];
    desc_node(&v.desc, &mut kids);
    kids.push(name_node("Name", &v.name));
    kids.push(ty_node(&v.ty));
    if let Some(d) = &v.default {
        kids.push(node("DefaultValue", "", P::none(), vec![val_node(d)]));
    }
    kids.push(dirs_node(&v.dirs));
    node(kind, &v.name.s, v.name.p, kids)
}

pub fn fielddef_node(f: &FieldDef) -> Node {
    let mut kids = vec![];
    desc_node(&f.desc, &mut kids);
    kids.push(name_node("Name", &f.name));
    if !f.args.is_empty() {
        kids.push(node("ArgumentsDefinition", "", P::none(), f.args.iter().map(|a| ivd_node("ArgumentDefinition", a)).collect()));
    }
    kids.push(ty_node(&f.ty));
    kids.push(dirs_node(&f.dirs));
    node("FieldDefinition", &f.name.s, P::none(), kids)
}

pub fn tsdef_node(d: &TsDef) -> Node {
    match d {
        TsDef::Schema(s) => {
            let mut kids = vec![];
            desc_node(&s.desc, &mut kids);
            kids.push(dirs_node(&s.dirs));
            for (k, n) in &s.roots {
                kids.push(node("RootOperationType", k.as_str(), P::none(), vec![name_node("NamedType", n)]));
            }
            let mut nd = node(if s.ext { "SchemaExtension" } else { "SchemaDefinition" }, "", s.p, kids);
            if let Some(d) = &s.desc {
                nd.alt_p = Some(d.p);
            }
            nd
        }
        TsDef::Type(t) => {
            let mut kids = vec![];
            desc_node(&t.desc, &mut kids);
            kids.push(name_node("Name", &t.name));
            if !t.implements.is_empty() {
                kids.push(node("ImplementsInterfaces", "", P::none(), t.implements.iter().map(|n| name_node("NamedType", n)).collect()));
            }
            kids.push(dirs_node(&t.dirs));
            if !t.fields.is_empty() {
                kids.push(node("FieldsDefinition", "", P::none(), t.fields.iter().map(fielddef_node).collect()));
            }
            if !t.members.is_empty() {
                kids.push(node("UnionMemberTypes", "", P::none(), t.members.iter().map(|n| name_node("NamedType", n)).collect()));
            }
            if !t.values.is_empty() {
                kids.push(node(
                    "EnumValuesDefinition",
                    "",
                    P::none(),
                    t.values
                        .iter()
                        .map(|v| {
                            let mut k = vec![];
                            desc_node(&v.desc, &mut k);
                            k.push(name_node("EnumValue", &v.name));
                            k.push(dirs_node(&v.dirs));
                            node("EnumValueDefinition", &v.name.s, P::none(), k)
                        })
                        .collect(),
                ));
            }
            if !t.input_fields.is_empty() {
                kids.push(node("InputFieldsDefinition", "", P::none(), t.input_fields.iter().map(|a| ivd_node("InputFieldDefinition", a)).collect()));
            }
            let kind: &'static str = match (t.ext, t.kind) {
                (false, TKind::Scalar) => "ScalarTypeDefinition",
                (false, TKind::Object) => "ObjectTypeDefinition",
                (false, TKind::Interface) => "InterfaceTypeDefinition",
                (false, TKind::Union) => "UnionTypeDefinition",
                (false, TKind::Enum) => "EnumTypeDefinition",
                (false, TKind::Input) => "InputObjectTypeDefinition",
                (true, TKind::Scalar) => "ScalarTypeExtension",
                (true, TKind::Object) => "ObjectTypeExtension",
                (true, TKind::Interface) => "InterfaceTypeExtension",
                (true, TKind::Union) => "UnionTypeExtension",
                (true, TKind::Enum) => "EnumTypeExtension",
                (true, TKind::Input) => "InputObjectTypeExtension",
            };
            let mut nd = node(kind, &t.name.s, t.p, kids);
            if let Some(d) = &t.desc {
                nd.alt_p = Some(d.p);
            }
            nd
        }
        TsDef::Directive(d) => {
            let mut kids = vec![];
            desc_node(&d.desc, &mut kids);
            kids.push(name_node("Name", &d.name));
            if !d.args.is_empty() {
                kids.push(node("ArgumentsDefinition", "", P::none(), d.args.iter().map(|a| ivd_node("ArgumentDefinition", a)).collect()));
            }
            if d.repeatable {
                kids.push(node("Repeatable", "repeatable", d.repeatable_p, vec![]));
            }
            kids.push(node("DirectiveLocations", "", P::none(), d.locations.iter().map(|n| name_node("DirectiveLocation", n)).collect()));
            let mut nd = node("DirectiveDefinition", &d.name.s, d.p, kids);
            if let Some(ds) = &d.desc {
                nd.alt_p = Some(ds.p);
            }
            nd
        }
    }
}

pub fn tsdoc_node(d: &TsDoc) -> Node {
    node("TypeSystemDocument", "", P::none(), d.defs.iter().map(tsdef_node).collect())
}

// ---------------------------------------------------------------- diff

#[derive(Clone, Debug)]
pub struct Diff {
    /// kinds from the root to the differing node
    pub path: Vec<&'static str>,
    /// "label" | "kind" | "arity" | "position"
    pub what: &'static str,
    pub detail: String,
    /// tag of the expected node
    pub tag: &'static str,
    /// label of the expected node
    pub want_label: String,
}

impl Diff {
    /// short class of the location: the last two kinds on the path
    pub fn site(&self) -> String {
        let n = self.path.len();
        let from = n.saturating_sub(2);
        self.path[from..].join(">")
    }
}

pub struct DiffOpts {
    pub positions: bool,
    /// compare order of definitions at the top level as a multiset instead of a sequence
    pub max: usize,
}

/// Structural diff of `got` (what nitrogql produced) against `want` (what the text denotes).
pub fn diff(want: &Node, got: &Node, opts: &DiffOpts, path: &mut Vec<&'static str>, out: &mut Vec<Diff>) {
    if out.len() >= opts.max {
        return;
    }
    path.push(want.kind);
    if want.kind != got.kind {
        out.push(Diff { path: path.clone(), what: "kind", tag: want.tag, want_label: want.label.clone(), detail: format!("expected {} {:?}, got {} {:?}", want.kind, want.label, got.kind, got.label) });
        path.pop();
        return;
    }
    if want.label != got.label {
        let tag = if want.tag == "block" { if want.raw_inner.as_deref() == Some(got.label.as_str()) { "block-raw-returned" } else { "block-other" } } else { want.tag };
        out.push(Diff { path: path.clone(), what: "label", tag, want_label: want.label.clone(), detail: format!("{}: expected {:?}, got {:?}", want.kind, want.label, got.label) });
    }
    if opts.positions && want.p.set {
        let ok = |w: &P| got.p.set && got.p.line == w.line && (got.p.col == w.col || got.p.col == w.col16);
        let good = ok(&want.p) || want.alt_p.as_ref().is_some_and(|a| a.set && ok(a));
        if !good {
            out.push(Diff { path: path.clone(), what: "position", tag: want.tag, want_label: want.label.clone(), detail: format!("{} {:?}: token starts at line {} col {} (utf16 {}), reported line {} col {}", want.kind, want.label, want.p.line, want.p.col, want.p.col16, got.p.line, got.p.col) });
        }
    }
    if want.kids.len() != got.kids.len() {
        let mut s = String::new();
        let _ = write!(s, "{}: expected children [", want.kind);
        for k in &want.kids {
            let _ = write!(s, "{}:{} ", k.kind, crate::report::clip(&k.label, 20));
        }
        s.push_str("] got [");
        for k in &got.kids {
            let _ = write!(s, "{}:{} ", k.kind, crate::report::clip(&k.label, 20));
        }
        s.push(']');
        out.push(Diff { path: path.clone(), what: "arity", tag: want.tag, want_label: want.label.clone(), detail: s });
        path.pop();
        return;
    }
    for (w, g) in want.kids.iter().zip(got.kids.iter()) {
        diff(w, g, opts, path, out);
    }
    path.pop();
}

pub fn diff_nodes(want: &Node, got: &Node, positions: bool) -> Vec<Diff> {
    let mut out = vec![];
    diff(want, got, &DiffOpts { positions, max: 8 }, &mut vec![], &mut out);
    out
}

/// canonical text of a node tree without positions (for digests / equality)
pub fn canon(n: &Node) -> String {
    fn go(n: &Node, s: &mut String) {
        s.push_str(n.kind);
        if !n.label.is_empty() {
            s.push(':');
            s.push_str(&format!("{:?}", n.label));
        }
        if !n.kids.is_empty() {
            s.push('(');
            for k in &n.kids {
                go(k, s);
                s.push(' ');
            }
            s.push(')');
        }
    }
    let mut s = String::new();
    go(n, &mut s);
    s
}

/// kinds from the root to the deepest node whose first token is at (line, col); col may be chars or UTF-16 units
pub fn find_path(n: &Node, line: usize, col: usize) -> Option<Vec<&'static str>> {
    let mut best: Option<Vec<&'static str>> = None;
    fn go(n: &Node, line: usize, col: usize, path: &mut Vec<&'static str>, best: &mut Option<Vec<&'static str>>) {
        path.push(n.kind);
        let hit = |p: &P| p.set && p.line as usize == line && (p.col as usize == col || p.col16 as usize == col);
        if hit(&n.p) || n.alt_p.as_ref().is_some_and(hit) {
            if best.as_ref().is_none_or(|b| b.len() <= path.len()) {
                *best = Some(path.clone());
            }
        }
        for k in &n.kids {
            go(k, line, col, path, best);
        }
        path.pop();
    }
    go(n, line, col, &mut vec![], &mut best);
    best
}

/// short site class of a position in a document: the last three kinds on the path
pub fn site_class(n: &Node, line: usize, col: usize) -> String {
    match find_path(n, line, col) {
        None => "no-node-at-position".into(),
        Some(p) => {
            let from = p.len().saturating_sub(3);
            p[from..].join(">")
        }
    }
}
