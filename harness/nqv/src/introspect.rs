//! Reference introspection: the JSON result of the standard introspection query for a schema model
//! (written from the GraphQL spec's Introspection section and the shape graphql-js produces).

use serde_json::{Map, Value, json};

use crate::model::*;
use crate::render::{Feat, Out};
use crate::rng::Rng;
use crate::schema_ix::SchemaIx;

#[derive(Clone, Copy, Debug)]
pub struct IntroStyle {
    /// every key of the standard query present (null when empty), as graphql-js prints it; otherwise optional keys are left out
    pub full: bool,
    /// include the introspection meta types (__Schema, __Type, ...), as every real server does
    pub meta_types: bool,
    /// shuffle `types`, `directives`
    pub shuffle: bool,
}

fn kind_name(k: TKind) -> &'static str {
    match k {
        TKind::Scalar => "SCALAR",
        TKind::Object => "OBJECT",
        TKind::Interface => "INTERFACE",
        TKind::Union => "UNION",
        TKind::Enum => "ENUM",
        TKind::Input => "INPUT_OBJECT",
    }
}

pub fn val_text(v: &Val) -> String {
    let mut o = Out::new(None, Feat::plain());
    o.val(v);
    o.finish().trim().to_string()
}

struct Cx<'a> {
    ix: &'a SchemaIx,
    st: IntroStyle,
}

impl Cx<'_> {
    fn put(&self, m: &mut Map<String, Value>, k: &str, v: Value) {
        if self.st.full || !v.is_null() {
            m.insert(k.into(), v);
        }
    }
    fn named_ref(&self, name: &str) -> Value {
        let kind = if name.starts_with("__") { meta_kind(name) } else { self.ix.kind(name).map(kind_name).unwrap_or("SCALAR") };
        let mut m = Map::new();
        m.insert("kind".into(), json!(kind));
        m.insert("name".into(), json!(name));
        self.put(&mut m, "ofType", Value::Null);
        Value::Object(m)
    }
    fn ty(&self, t: &Ty) -> Value {
        match t {
            Ty::Named(n) => self.named_ref(&n.s),
            Ty::List(inner, _) => {
                let mut m = Map::new();
                m.insert("kind".into(), json!("LIST"));
                self.put(&mut m, "name", Value::Null);
                m.insert("ofType".into(), self.ty(inner));
                Value::Object(m)
            }
            Ty::NonNull(inner) => {
                let mut m = Map::new();
                m.insert("kind".into(), json!("NON_NULL"));
                self.put(&mut m, "name", Value::Null);
                m.insert("ofType".into(), self.ty(inner));
                Value::Object(m)
            }
        }
    }
    fn desc(&self, m: &mut Map<String, Value>, d: &Option<StrLit>) {
        self.put(m, "description", d.as_ref().map(|s| json!(s.value)).unwrap_or(Value::Null));
    }
    fn deprecation(&self, m: &mut Map<String, Value>, dirs: &[Dir]) {
        match dirs.iter().find(|d| d.name.s == "deprecated") {
            Some(d) => {
                m.insert("isDeprecated".into(), json!(true));
                let reason = match d.arg("reason") {
                    Some(Val::Str(s)) => json!(s.value),
                    Some(Val::Null(_)) => Value::Null,
                    Some(other) => json!(val_text(other)),
                    None => json!("No longer supported"),
                };
                self.put(m, "deprecationReason", reason);
            }
            None => {
                if self.st.full {
                    m.insert("isDeprecated".into(), json!(false));
                    m.insert("deprecationReason".into(), Value::Null);
                }
            }
        }
    }
    fn input_value(&self, v: &InputValueDef) -> Value {
        let mut m = Map::new();
        m.insert("name".into(), json!(v.name.s));
        self.desc(&mut m, &v.desc);
        m.insert("type".into(), self.ty(&v.ty));
        self.put(&mut m, "defaultValue", v.default.as_ref().map(|d| json!(val_text(d))).unwrap_or(Value::Null));
        self.deprecation(&mut m, &v.dirs);
        Value::Object(m)
    }
    fn field(&self, f: &FieldDef) -> Value {
        let mut m = Map::new();
        m.insert("name".into(), json!(f.name.s));
        self.desc(&mut m, &f.desc);
        m.insert("args".into(), Value::Array(f.args.iter().map(|a| self.input_value(a)).collect()));
        m.insert("type".into(), self.ty(&f.ty));
        self.deprecation(&mut m, &f.dirs);
        Value::Object(m)
    }
    fn type_def(&self, t: &TypeDef) -> Value {
        let mut m = Map::new();
        m.insert("kind".into(), json!(kind_name(t.kind)));
        m.insert("name".into(), json!(t.name.s));
        self.desc(&mut m, &t.desc);
        if t.kind == TKind::Scalar {
            let url = t.dirs.iter().find(|d| d.name.s == "specifiedBy").and_then(|d| d.arg("url")).and_then(|v| if let Val::Str(s) = v { Some(json!(s.value)) } else { None });
            self.put(&mut m, "specifiedByURL", url.unwrap_or(Value::Null));
        }
        let has_fields = matches!(t.kind, TKind::Object | TKind::Interface);
        self.put(&mut m, "fields", if has_fields { Value::Array(t.fields.iter().map(|f| self.field(f)).collect()) } else { Value::Null });
        self.put(&mut m, "inputFields", if t.kind == TKind::Input { Value::Array(t.input_fields.iter().map(|f| self.input_value(f)).collect()) } else { Value::Null });
        self.put(&mut m, "interfaces", if has_fields { Value::Array(t.implements.iter().map(|n| self.named_ref(&n.s)).collect()) } else { Value::Null });
        let ev = if t.kind == TKind::Enum {
            Value::Array(
                t.values
                    .iter()
                    .map(|v| {
                        let mut e = Map::new();
                        e.insert("name".into(), json!(v.name.s));
                        self.desc(&mut e, &v.desc);
                        self.deprecation(&mut e, &v.dirs);
                        Value::Object(e)
                    })
                    .collect(),
            )
        } else {
            Value::Null
        };
        self.put(&mut m, "enumValues", ev);
        let possible = match t.kind {
            TKind::Union => Value::Array(t.members.iter().map(|n| self.named_ref(&n.s)).collect()),
            TKind::Interface => Value::Array(self.ix.possible(&t.name.s).iter().map(|n| self.named_ref(n)).collect()),
            _ => Value::Null,
        };
        self.put(&mut m, "possibleTypes", possible);
        Value::Object(m)
    }
    fn directive(&self, d: &DirectiveDef) -> Value {
        let mut m = Map::new();
        m.insert("name".into(), json!(d.name.s));
        self.desc(&mut m, &d.desc);
        if self.st.full || d.repeatable {
            m.insert("isRepeatable".into(), json!(d.repeatable));
        }
        m.insert("locations".into(), Value::Array(d.locations.iter().map(|l| json!(l.s)).collect()));
        m.insert("args".into(), Value::Array(d.args.iter().map(|a| self.input_value(a)).collect()));
        Value::Object(m)
    }
}

fn meta_kind(name: &str) -> &'static str {
    match name {
        "__TypeKind" | "__DirectiveLocation" => "ENUM",
        _ => "OBJECT",
    }
}

/// the introspection meta types, as type definitions of the harness model
fn meta_types() -> Vec<TypeDef> {
    let f = |name: &str, ty: Ty| FieldDef { desc: None, name: nm(name), args: vec![], ty, dirs: vec![] };
    let fa = |name: &str, ty: Ty| FieldDef {
        desc: None,
        name: nm(name),
        args: vec![InputValueDef { desc: None, name: nm("includeDeprecated"), ty: Ty::named("Boolean"), default: Some(Val::boolean(false)), dirs: vec![] }],
        ty,
        dirs: vec![],
    };
    let nn = |s: &str| Ty::non_null(Ty::named(s));
    let lnn = |s: &str| Ty::list(Ty::non_null(Ty::named(s)));
    let nlnn = |s: &str| Ty::non_null(Ty::list(Ty::non_null(Ty::named(s))));
    let obj = |name: &str, fields: Vec<FieldDef>| {
        let mut t = TypeDef::new(TKind::Object, name);
        t.fields = fields;
        t
    };
    let en = |name: &str, vals: &[&str]| {
        let mut t = TypeDef::new(TKind::Enum, name);
        t.values = vals.iter().map(|v| EnumValDef { desc: None, name: nm(v), dirs: vec![] }).collect();
        t
    };
    vec![
        obj("__Schema", vec![f("description", Ty::named("String")), f("types", nlnn("__Type")), f("queryType", nn("__Type")), f("mutationType", Ty::named("__Type")), f("subscriptionType", Ty::named("__Type")), f("directives", nlnn("__Directive"))]),
        obj(
            "__Type",
            vec![
                f("kind", nn("__TypeKind")),
                f("name", Ty::named("String")),
                f("description", Ty::named("String")),
                f("specifiedByURL", Ty::named("String")),
                fa("fields", lnn("__Field")),
                f("interfaces", lnn("__Type")),
                f("possibleTypes", lnn("__Type")),
                fa("enumValues", lnn("__EnumValue")),
                fa("inputFields", lnn("__InputValue")),
                f("ofType", Ty::named("__Type")),
            ],
        ),
        en("__TypeKind", &["SCALAR", "OBJECT", "INTERFACE", "UNION", "ENUM", "INPUT_OBJECT", "LIST", "NON_NULL"]),
        obj("__Field", vec![f("name", nn("String")), f("description", Ty::named("String")), fa("args", nlnn("__InputValue")), f("type", nn("__Type")), f("isDeprecated", nn("Boolean")), f("deprecationReason", Ty::named("String"))]),
        obj("__InputValue", vec![f("name", nn("String")), f("description", Ty::named("String")), f("type", nn("__Type")), f("defaultValue", Ty::named("String")), f("isDeprecated", nn("Boolean")), f("deprecationReason", Ty::named("String"))]),
        obj("__EnumValue", vec![f("name", nn("String")), f("description", Ty::named("String")), f("isDeprecated", nn("Boolean")), f("deprecationReason", Ty::named("String"))]),
        obj("__Directive", vec![f("name", nn("String")), f("description", Ty::named("String")), f("isRepeatable", nn("Boolean")), f("locations", nlnn("__DirectiveLocation")), fa("args", nlnn("__InputValue"))]),
        en(
            "__DirectiveLocation",
            &["QUERY", "MUTATION", "SUBSCRIPTION", "FIELD", "FRAGMENT_DEFINITION", "FRAGMENT_SPREAD", "INLINE_FRAGMENT", "VARIABLE_DEFINITION", "SCHEMA", "SCALAR", "OBJECT", "FIELD_DEFINITION", "ARGUMENT_DEFINITION", "INTERFACE", "UNION", "ENUM", "ENUM_VALUE", "INPUT_OBJECT", "INPUT_FIELD_DEFINITION"],
        ),
    ]
}

/// `ix` must be built from the merged schema (no extensions left)
pub fn introspect(ix: &SchemaIx, schema_desc: Option<&StrLit>, st: IntroStyle, rng: &mut Rng) -> Value {
    let cx = Cx { ix, st };
    let mut types: Vec<Value> = ix.order.iter().filter_map(|n| ix.ty(n)).map(|t| cx.type_def(t)).collect();
    if st.meta_types {
        types.extend(meta_types().iter().map(|t| cx.type_def(t)));
    }
    let mut directives: Vec<Value> = ix.directives.values().map(|d| cx.directive(d)).collect();
    if st.shuffle {
        rng.shuffle(&mut types);
        rng.shuffle(&mut directives);
    }
    let mut s = Map::new();
    cx.put(&mut s, "description", schema_desc.map(|d| json!(d.value)).unwrap_or(Value::Null));
    s.insert("queryType".into(), json!({"name": ix.query.clone().unwrap_or_else(|| "Query".into())}));
    cx.put(&mut s, "mutationType", ix.mutation.as_ref().map(|n| json!({"name": n})).unwrap_or(Value::Null));
    cx.put(&mut s, "subscriptionType", ix.subscription.as_ref().map(|n| json!({"name": n})).unwrap_or(Value::Null));
    s.insert("types".into(), Value::Array(types));
    s.insert("directives".into(), Value::Array(directives));
    json!({"__schema": Value::Object(s)})
}
