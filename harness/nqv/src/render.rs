//! Renderers (the harness' own, not nitrogql's printer): model -> GraphQL text with a
//! configurable trivia policy.

use crate::model::*;
use crate::refparse::block_string_value;
use crate::rng::Rng;

#[derive(Clone, Debug)]
pub struct Feat {
    /// random whitespace / commas / comments between tokens
    pub trivia: bool,
    /// `\r\n` line ends among the trivia
    pub crlf: bool,
    /// leading BOM
    pub bom: bool,
    /// final `# comment` on the last line without a newline
    pub eof_comment: bool,
    /// escape characters in strings at random (\uXXXX, surrogate pairs, \u{...})
    pub escapes: bool,
    /// surrogate pair escapes for astral characters
    pub surrogate_escapes: bool,
    /// leading `|` / `&` in unions / implements / directive locations
    pub leading_seps: bool,
    /// render eligible operations in shorthand form (taken from OpDef.shorthand)
    pub shorthand: bool,
}

impl Feat {
    pub fn plain() -> Feat {
        Feat { trivia: false, crlf: false, bom: false, eof_comment: false, escapes: false, surrogate_escapes: false, leading_seps: false, shorthand: true }
    }
    pub fn hostile() -> Feat {
        Feat { trivia: true, crlf: true, bom: true, eof_comment: false, escapes: true, surrogate_escapes: false, leading_seps: true, shorthand: true }
    }
}

#[derive(Clone, Copy, PartialEq, Eq, Debug)]
enum K {
    Start,
    Punct,
    Word,
    Str,
}

pub struct Out<'r> {
    pub s: String,
    rng: Option<&'r mut Rng>,
    feat: Feat,
    last: K,
    /// while rendering an import line no newline/comment may be inserted
    inline_only: bool,
    depth: usize,
}

const COMMENTS: &[&str] = &["# c", "#", "# a comment, with \"quotes\" { } and 𝒳", "#x", "#   type Foo { a: Int }", "# query"];

impl<'r> Out<'r> {
    pub fn new(rng: Option<&'r mut Rng>, feat: Feat) -> Out<'r> {
        let mut o = Out { s: String::new(), rng, feat, last: K::Start, inline_only: false, depth: 0 };
        if o.feat.bom && o.rng.as_mut().is_some_and(|r| r.chance(1, 4)) {
            o.s.push('\u{FEFF}');
        }
        o
    }
    fn sep(&mut self, next: K) {
        let need = match (self.last, next) {
            (K::Start, _) => false,
            (K::Word, K::Word) => true,
            (K::Str, K::Str) => true,
            (K::Word, K::Str) | (K::Str, K::Word) => false,
            _ => false,
        };
        let feat_trivia = self.feat.trivia;
        let crlf = self.feat.crlf;
        let inline_only = self.inline_only;
        match self.rng.as_mut() {
            Some(rng) if feat_trivia => {
                let n = if need { rng.range(1, 2) } else if rng.chance(1, 3) { 0 } else { rng.range(1, 2) };
                let mut wrote_any = false;
                for _ in 0..n {
                    let r = rng.below(if inline_only { 4 } else { 12 });
                    match r {
                        0 | 1 => self.s.push(' '),
                        2 => self.s.push_str("  "),
                        3 => self.s.push('\t'),
                        4 | 5 => self.s.push('\n'),
                        6 => self.s.push_str(if crlf { "\r\n" } else { "\n" }),
                        7 => self.s.push_str(", "),
                        8 => self.s.push(','),
                        9 => {
                            let c = COMMENTS[rng.below(COMMENTS.len())];
                            self.s.push(' ');
                            self.s.push_str(c);
                            self.s.push('\n');
                        }
                        10 => self.s.push_str("\n    "),
                        _ => self.s.push_str(" \n"),
                    }
                    wrote_any = true;
                }
                if need && !wrote_any {
                    self.s.push(' ');
                }
            }
            _ => {
                // canonical: one space between tokens except after '(' '[' '$' '@' '...' and before ')' ']' ':' '!' etc.
                if self.last != K::Start {
                    self.s.push(' ');
                }
            }
        }
    }
    pub fn word(&mut self, w: &str) {
        self.sep(K::Word);
        self.s.push_str(w);
        self.last = K::Word;
    }
    pub fn punct(&mut self, p: &str) {
        self.sep(K::Punct);
        self.s.push_str(p);
        self.last = K::Punct;
    }
    pub fn raw_str(&mut self, s: &str) {
        self.sep(K::Str);
        self.s.push_str(s);
        self.last = K::Str;
    }
    pub fn nl(&mut self) {
        if !self.feat.trivia {
            self.s.push('\n');
            for _ in 0..self.depth {
                self.s.push_str("  ");
            }
            self.last = K::Start;
        }
    }
    fn coin(&mut self) -> bool {
        self.rng.as_mut().is_some_and(|r| r.coin())
    }
    fn chance(&mut self, n: u32, d: u32) -> bool {
        self.rng.as_mut().is_some_and(|r| r.chance(n, d))
    }

    pub fn strlit(&mut self, s: &StrLit) {
        if let Some(raw) = &s.raw {
            self.raw_str(raw);
            return;
        }
        if s.block {
            if let Some(raw) = encode_block(&s.value, 0) {
                self.raw_str(&raw);
                return;
            }
        }
        let esc = self.feat.escapes;
        let sur = self.feat.surrogate_escapes;
        let mut out = String::from("\"");
        for c in s.value.chars() {
            match c {
                '"' => out.push_str("\\\""),
                '\\' => out.push_str("\\\\"),
                '\n' => out.push_str("\\n"),
                '\r' => out.push_str("\\r"),
                '\t' => out.push_str(if esc && self.coin() { "\\u0009" } else { "\\t" }),
                '\u{8}' => out.push_str("\\b"),
                '\u{c}' => out.push_str("\\f"),
                c if (c as u32) < 0x20 => out.push_str(&format!("\\u{:04X}", c as u32)),
                '/' if esc && self.chance(1, 3) => out.push_str("\\/"),
                c => {
                    if esc && self.chance(1, 6) {
                        let cp = c as u32;
                        if cp < 0x10000 {
                            if self.coin() {
                                out.push_str(&format!("\\u{:04x}", cp));
                            } else {
                                // leading zeros are legal in the braced form
                                let zeros = if self.chance(1, 3) { "0".repeat(1 + (cp as usize % 3)) } else { String::new() };
                                out.push_str(&format!("\\u{{{zeros}{:X}}}", cp));
                            }
                        } else if sur && self.coin() {
                            let v = cp - 0x10000;
                            out.push_str(&format!("\\u{:04X}\\u{:04X}", 0xD800 + (v >> 10), 0xDC00 + (v & 0x3FF)));
                        } else {
                            let zeros = if self.chance(1, 3) { "0".repeat(1 + (cp as usize % 2)) } else { String::new() };
                            out.push_str(&format!("\\u{{{zeros}{:x}}}", cp));
                        }
                    } else {
                        out.push(c);
                    }
                }
            }
        }
        out.push('"');
        self.raw_str(&out);
    }

    pub fn name(&mut self, n: &Name) {
        self.word(&n.s);
    }

    pub fn ty(&mut self, t: &Ty) {
        match t {
            Ty::Named(n) => self.name(n),
            Ty::List(t, _) => {
                self.punct("[");
                self.ty(t);
                self.punct("]");
            }
            Ty::NonNull(t) => {
                self.ty(t);
                self.punct("!");
            }
        }
    }

    pub fn val(&mut self, v: &Val) {
        match v {
            Val::Var(n) => {
                self.punct("$");
                self.glue_word(&n.s);
            }
            Val::Int(s, _) | Val::Float(s, _) => self.word(s),
            Val::Str(s) => self.strlit(s),
            Val::Bool(b, _) => self.word(if *b { "true" } else { "false" }),
            Val::Null(_) => self.word("null"),
            Val::Enum(s, _) => self.word(s),
            Val::List(vs, _) => {
                self.punct("[");
                for v in vs {
                    self.val(v);
                }
                self.punct("]");
            }
            Val::Obj(fs, _) => {
                self.punct("{");
                for (k, v) in fs {
                    self.name(k);
                    self.punct(":");
                    self.val(v);
                }
                self.punct("}");
            }
        }
    }

    /// word directly after a sigil: usually glued, sometimes separated (legal either way)
    fn glue_word(&mut self, w: &str) {
        if self.feat.trivia && self.chance(1, 8) {
            self.word(w);
        } else {
            self.s.push_str(w);
            self.last = K::Word;
        }
    }

    pub fn args(&mut self, args: &[(Name, Val)]) {
        if args.is_empty() {
            return;
        }
        self.punct("(");
        for (k, v) in args {
            self.name(k);
            self.punct(":");
            self.val(v);
        }
        self.punct(")");
    }

    pub fn dirs(&mut self, ds: &[Dir]) {
        for d in ds {
            self.punct("@");
            self.glue_word(&d.name.s);
            self.args(&d.args);
        }
    }

    pub fn selset(&mut self, ss: &SelSet) {
        self.punct("{");
        self.depth += 1;
        for s in &ss.items {
            self.nl();
            match s {
                Sel::Field(f) => {
                    if let Some(a) = &f.alias {
                        self.name(a);
                        self.punct(":");
                    }
                    self.name(&f.name);
                    self.args(&f.args);
                    self.dirs(&f.dirs);
                    if let Some(ss) = &f.sels {
                        self.selset(ss);
                    }
                }
                Sel::Spread { name, dirs, .. } => {
                    self.punct("...");
                    self.glue_word(&name.s);
                    self.dirs(dirs);
                }
                Sel::Inline { cond, dirs, sels, .. } => {
                    self.punct("...");
                    if let Some(c) = cond {
                        self.word("on");
                        self.name(c);
                    }
                    self.dirs(dirs);
                    self.selset(sels);
                }
            }
        }
        self.depth -= 1;
        self.nl();
        self.punct("}");
    }

    pub fn exec_def(&mut self, d: &ExecDef) {
        match d {
            ExecDef::Op(o) => {
                let can_short = o.kind == OpKind::Query && o.name.is_none() && o.vars.is_empty() && o.dirs.is_empty();
                if !(o.shorthand && can_short && self.feat.shorthand) {
                    self.word(o.kind.as_str());
                    if let Some(n) = &o.name {
                        self.name(n);
                    }
                    if !o.vars.is_empty() {
                        self.punct("(");
                        for v in &o.vars {
                            self.punct("$");
                            self.glue_word(&v.name.s);
                            self.punct(":");
                            self.ty(&v.ty);
                            if let Some(d) = &v.default {
                                self.punct("=");
                                self.val(d);
                            }
                            self.dirs(&v.dirs);
                        }
                        self.punct(")");
                    }
                    self.dirs(&o.dirs);
                }
                self.selset(&o.sels);
            }
            ExecDef::Frag(f) => {
                self.word("fragment");
                self.name(&f.name);
                self.word("on");
                self.name(&f.cond);
                self.dirs(&f.dirs);
                self.selset(&f.sels);
            }
            ExecDef::Import(i) => {
                // always on a line of its own
                if !self.s.is_empty() && !self.s.ends_with('\n') {
                    self.s.push('\n');
                }
                self.last = K::Start;
                self.s.push('#');
                if self.feat.trivia && self.coin() {
                    self.s.push(' ');
                }
                self.s.push_str("import");
                self.last = K::Word;
                let old = self.inline_only;
                self.inline_only = true;
                let no_trivia_commas = true;
                let _ = no_trivia_commas;
                for (k, t) in i.targets.iter().enumerate() {
                    if k > 0 && self.coin() {
                        self.s.push(',');
                    }
                    match t {
                        None => {
                            self.s.push(' ');
                            self.s.push('*');
                            self.last = K::Punct;
                        }
                        Some(n) => {
                            self.s.push(' ');
                            self.s.push_str(&n.s);
                            self.last = K::Word;
                        }
                    }
                }
                self.s.push_str(" from ");
                self.last = K::Start;
                self.strlit(&i.path);
                self.inline_only = old;
                self.s.push('\n');
                self.last = K::Start;
            }
        }
    }

    fn desc(&mut self, d: &Option<StrLit>) {
        if let Some(d) = d {
            self.strlit(d);
            self.nl();
        }
    }

    fn ivds(&mut self, open: &str, close: &str, vs: &[InputValueDef], multiline: bool) {
        if vs.is_empty() {
            return;
        }
        self.punct(open);
        if multiline {
            self.depth += 1;
        }
        for v in vs {
            if multiline {
                self.nl();
            }
            self.desc(&v.desc);
            self.name(&v.name);
            self.punct(":");
            self.ty(&v.ty);
            if let Some(d) = &v.default {
                self.punct("=");
                self.val(d);
            }
            self.dirs(&v.dirs);
        }
        if multiline {
            self.depth -= 1;
            self.nl();
        }
        self.punct(close);
    }

    fn sep_list(&mut self, sep: &str, names: &[Name]) {
        if self.feat.leading_seps && self.chance(1, 3) {
            self.punct(sep);
        }
        for (i, n) in names.iter().enumerate() {
            if i > 0 {
                self.punct(sep);
            }
            self.name(n);
        }
    }

    pub fn ts_def(&mut self, d: &TsDef) {
        match d {
            TsDef::Schema(s) => {
                if s.ext {
                    self.word("extend");
                } else {
                    self.desc(&s.desc);
                }
                self.word("schema");
                self.dirs(&s.dirs);
                if !s.roots.is_empty() {
                    self.punct("{");
                    self.depth += 1;
                    for (k, n) in &s.roots {
                        self.nl();
                        self.word(k.as_str());
                        self.punct(":");
                        self.name(n);
                    }
                    self.depth -= 1;
                    self.nl();
                    self.punct("}");
                }
            }
            TsDef::Directive(d) => {
                self.desc(&d.desc);
                self.word("directive");
                self.punct("@");
                self.glue_word(&d.name.s);
                self.ivds("(", ")", &d.args, false);
                if d.repeatable {
                    self.word("repeatable");
                }
                self.word("on");
                self.sep_list("|", &d.locations);
            }
            TsDef::Type(t) => {
                if t.ext {
                    self.word("extend");
                } else {
                    self.desc(&t.desc);
                }
                self.word(t.kind.keyword());
                self.name(&t.name);
                if !t.implements.is_empty() {
                    self.word("implements");
                    self.sep_list("&", &t.implements);
                }
                self.dirs(&t.dirs);
                match t.kind {
                    TKind::Scalar => {}
                    TKind::Object | TKind::Interface => {
                        if !t.fields.is_empty() {
                            self.punct("{");
                            self.depth += 1;
                            for f in &t.fields {
                                self.nl();
                                self.desc(&f.desc);
                                self.name(&f.name);
                                self.ivds("(", ")", &f.args, false);
                                self.punct(":");
                                self.ty(&f.ty);
                                self.dirs(&f.dirs);
                            }
                            self.depth -= 1;
                            self.nl();
                            self.punct("}");
                        }
                    }
                    TKind::Union => {
                        if !t.members.is_empty() {
                            self.punct("=");
                            self.sep_list("|", &t.members);
                        }
                    }
                    TKind::Enum => {
                        if !t.values.is_empty() {
                            self.punct("{");
                            self.depth += 1;
                            for v in &t.values {
                                self.nl();
                                self.desc(&v.desc);
                                self.name(&v.name);
                                self.dirs(&v.dirs);
                            }
                            self.depth -= 1;
                            self.nl();
                            self.punct("}");
                        }
                    }
                    TKind::Input => self.ivds("{", "}", &t.input_fields, true),
                }
            }
        }
    }

    pub fn finish(mut self) -> String {
        if self.feat.eof_comment {
            self.s.push_str(" # trailing comment without newline");
        } else if !self.s.ends_with('\n') {
            if self.feat.trivia && self.coin() {
                // no final newline
            } else {
                self.s.push('\n');
            }
        }
        self.s
    }
}

/// Encode `v` as a block string whose BlockStringValue is exactly `v`, if representable.
pub fn encode_block(v: &str, indent: usize) -> Option<String> {
    if v.contains('\r') || v.contains("\\\"\"\"") {
        return None;
    }
    let body = v.replace("\"\"\"", "\\\"\"\"");
    let ind = " ".repeat(indent);
    let raw = if v.is_empty() {
        String::new()
    } else {
        let lines: Vec<&str> = body.split('\n').collect();
        let mut s = String::from("\n");
        for l in lines {
            if !l.is_empty() {
                s.push_str(&ind);
            }
            s.push_str(l);
            s.push('\n');
        }
        s.push_str(&ind);
        s
    };
    let mut tok = format!("\"\"\"{raw}\"\"\"");
    if raw.ends_with('"') || v.ends_with('"') || v.ends_with('\\') {
        // a value ending in a quote / backslash next to the closing delimiter: keep the newline form only
        if !raw.ends_with('\n') && !raw.ends_with(' ') {
            tok = format!("\"\"\"{raw}\n\"\"\"");
        }
    }
    // verify with the reference semantics
    let inner = &tok[3..tok.len() - 3];
    let unescaped = inner.replace("\\\"\"\"", "\"\"\"");
    if block_string_value(&unescaped) == v && !inner.replace("\\\"\"\"", "").contains("\"\"\"") { Some(tok) } else { None }
}

pub fn render_exec(doc: &ExecDoc, rng: Option<&mut Rng>, feat: Feat) -> String {
    let mut o = Out::new(rng, feat);
    for (i, d) in doc.defs.iter().enumerate() {
        if i > 0 && !o.feat.trivia {
            o.s.push('\n');
            o.last = K::Start;
        }
        o.exec_def(d);
        if !o.feat.trivia && !o.s.ends_with('\n') {
            o.s.push('\n');
            o.last = K::Start;
        }
    }
    o.finish()
}

pub fn render_ts(doc: &TsDoc, rng: Option<&mut Rng>, feat: Feat) -> String {
    let mut o = Out::new(rng, feat);
    for (i, d) in doc.defs.iter().enumerate() {
        if i > 0 && !o.feat.trivia {
            o.s.push('\n');
            o.last = K::Start;
        }
        o.ts_def(d);
        if !o.feat.trivia && !o.s.ends_with('\n') {
            o.s.push('\n');
            o.last = K::Start;
        }
    }
    o.finish()
}

pub fn render_exec_plain(doc: &ExecDoc) -> String {
    render_exec(doc, None, Feat::plain())
}
pub fn render_ts_plain(doc: &TsDoc) -> String {
    render_ts(doc, None, Feat::plain())
}
