//! Independent reader of the graphql-js AST JSON shape (`DocumentNode`) into the harness model,
//! and extraction of `const X = {...}` document literals from emitted JS / TS modules.

use serde_json::Value;

use crate::model::*;

type R<T> = Result<T, String>;

fn kind(v: &Value) -> R<&str> {
    v.get("kind").and_then(|k| k.as_str()).ok_or_else(|| format!("node without kind: {}", crate::report::clip(&v.to_string(), 80)))
}

fn name_of(v: &Value, key: &str) -> R<String> {
    let n = v.get(key).ok_or_else(|| format!("missing {key}"))?;
    if kind(n)? != "Name" {
        return Err(format!("{key} is not a Name node"));
    }
    n.get("value").and_then(|s| s.as_str()).map(|s| s.to_string()).ok_or_else(|| "Name without value".into())
}

fn arr<'a>(v: &'a Value, key: &str) -> R<&'a Vec<Value>> {
    v.get(key).and_then(|a| a.as_array()).ok_or_else(|| format!("missing array {key} in {}", kind(v).unwrap_or("?")))
}

fn opt_arr<'a>(v: &'a Value, key: &str) -> R<Vec<&'a Value>> {
    match v.get(key) {
        None => Ok(vec![]),
        Some(a) => a.as_array().map(|a| a.iter().collect()).ok_or_else(|| format!("{key} is not an array")),
    }
}

pub fn ty(v: &Value) -> R<Ty> {
    match kind(v)? {
        "NamedType" => Ok(Ty::named(&name_of(v, "name")?)),
        "ListType" => Ok(Ty::list(ty(v.get("type").ok_or("ListType without type")?)?)),
        "NonNullType" => {
            let inner = ty(v.get("type").ok_or("NonNullType without type")?)?;
            if inner.is_non_null() {
                return Err("NonNullType of NonNullType".into());
            }
            Ok(Ty::NonNull(Box::new(inner)))
        }
        k => Err(format!("unexpected type node {k}")),
    }
}

pub fn value(v: &Value) -> R<Val> {
    let s = |v: &Value| v.get("value").and_then(|s| s.as_str()).map(|s| s.to_string()).ok_or_else(|| "value is not a string".to_string());
    match kind(v)? {
        "Variable" => Ok(Val::var(&name_of(v, "name")?)),
        "IntValue" => Ok(Val::int(&s(v)?)),
        "FloatValue" => Ok(Val::float(&s(v)?)),
        "StringValue" => Ok(Val::str(&s(v)?)),
        "BooleanValue" => Ok(Val::boolean(v.get("value").and_then(|b| b.as_bool()).ok_or("BooleanValue without boolean")?)),
        "NullValue" => Ok(Val::null()),
        "EnumValue" => Ok(Val::enumv(&s(v)?)),
        "ListValue" => Ok(Val::list(arr(v, "values")?.iter().map(value).collect::<R<Vec<_>>>()?)),
        "ObjectValue" => {
            let mut fs = vec![];
            for f in arr(v, "fields")? {
                if kind(f)? != "ObjectField" {
                    return Err("ObjectValue field is not an ObjectField".into());
                }
                fs.push((nm(&name_of(f, "name")?), value(f.get("value").ok_or("ObjectField without value")?)?));
            }
            Ok(Val::Obj(fs, P::none()))
        }
        k => Err(format!("unexpected value node {k}")),
    }
}

fn args(v: &Value) -> R<Vec<(Name, Val)>> {
    let mut out = vec![];
    for a in opt_arr(v, "arguments")? {
        if kind(a)? != "Argument" {
            return Err("argument is not an Argument node".into());
        }
        out.push((nm(&name_of(a, "name")?), value(a.get("value").ok_or("Argument without value")?)?));
    }
    Ok(out)
}

fn dirs(v: &Value) -> R<Vec<Dir>> {
    let mut out = vec![];
    for d in opt_arr(v, "directives")? {
        if kind(d)? != "Directive" {
            return Err("directive is not a Directive node".into());
        }
        out.push(Dir { name: nm(&name_of(d, "name")?), p: P::none(), args: args(d)?, args_p: P::none() });
    }
    Ok(out)
}

fn selset(v: &Value) -> R<SelSet> {
    if kind(v)? != "SelectionSet" {
        return Err("selectionSet is not a SelectionSet".into());
    }
    let mut items = vec![];
    for s in arr(v, "selections")? {
        items.push(match kind(s)? {
            "Field" => Sel::Field(Field {
                alias: match s.get("alias") {
                    None | Some(Value::Null) => None,
                    Some(_) => Some(nm(&name_of(s, "alias")?)),
                },
                name: nm(&name_of(s, "name")?),
                args: args(s)?,
                args_p: P::none(),
                dirs: dirs(s)?,
                sels: match s.get("selectionSet") {
                    None | Some(Value::Null) => None,
                    Some(ss) => Some(selset(ss)?),
                },
            }),
            "FragmentSpread" => Sel::Spread { p: P::none(), name: nm(&name_of(s, "name")?), dirs: dirs(s)? },
            "InlineFragment" => Sel::Inline {
                p: P::none(),
                cond: match s.get("typeCondition") {
                    None | Some(Value::Null) => None,
                    Some(tc) => match ty(tc)? {
                        Ty::Named(n) => Some(n),
                        _ => return Err("typeCondition is not a NamedType".into()),
                    },
                },
                dirs: dirs(s)?,
                sels: selset(s.get("selectionSet").ok_or("InlineFragment without selectionSet")?)?,
            },
            k => return Err(format!("unexpected selection node {k}")),
        });
    }
    Ok(SelSet { p: P::none(), items })
}

pub fn document(v: &Value) -> R<ExecDoc> {
    if kind(v)? != "Document" {
        return Err("not a Document".into());
    }
    let mut defs = vec![];
    for d in arr(v, "definitions")? {
        match kind(d)? {
            "OperationDefinition" => {
                let kind = match d.get("operation").and_then(|o| o.as_str()) {
                    Some("query") => OpKind::Query,
                    Some("mutation") => OpKind::Mutation,
                    Some("subscription") => OpKind::Subscription,
                    o => return Err(format!("bad operation {o:?}")),
                };
                let mut vars = vec![];
                for vd in opt_arr(d, "variableDefinitions")? {
                    if super::gqljson::kind(vd)? != "VariableDefinition" {
                        return Err("variable definition of wrong kind".into());
                    }
                    let var = vd.get("variable").ok_or("VariableDefinition without variable")?;
                    if super::gqljson::kind(var)? != "Variable" {
                        return Err("variable is not a Variable".into());
                    }
                    vars.push(VarDef {
                        p: P::none(),
                        name: nm(&name_of(var, "name")?),
                        ty: ty(vd.get("type").ok_or("VariableDefinition without type")?)?,
                        default: match vd.get("defaultValue") {
                            None | Some(Value::Null) => None,
                            Some(x) => Some(value(x)?),
                        },
                        dirs: dirs(vd)?,
                    });
                }
                defs.push(ExecDef::Op(OpDef {
                    p: P::none(),
                    kind,
                    name: match d.get("name") {
                        None | Some(Value::Null) => None,
                        Some(_) => Some(nm(&name_of(d, "name")?)),
                    },
                    vars,
                    vars_p: P::none(),
                    dirs: dirs(d)?,
                    sels: selset(d.get("selectionSet").ok_or("operation without selectionSet")?)?,
                    shorthand: false,
                }));
            }
            "FragmentDefinition" => {
                let cond = match ty(d.get("typeCondition").ok_or("fragment without typeCondition")?)? {
                    Ty::Named(n) => n,
                    _ => return Err("typeCondition is not a NamedType".into()),
                };
                defs.push(ExecDef::Frag(FragDef { p: P::none(), name: nm(&name_of(d, "name")?), cond, dirs: dirs(d)?, sels: selset(d.get("selectionSet").ok_or("fragment without selectionSet")?)? }));
            }
            k => return Err(format!("unexpected definition node {k}")),
        }
    }
    Ok(ExecDoc { defs })
}

#[derive(Debug, Clone)]
pub struct ConstDoc {
    pub name: String,
    pub exported: bool,
    pub json: Value,
}

/// every `const NAME[: T] = {json}` of a module, plus the export statements `export { A as B }` / `export default`
pub fn module_consts(src: &str) -> R<Vec<ConstDoc>> {
    let mut out = vec![];
    let mut i = 0;
    while let Some(k) = src[i..].find("const ") {
        let start = i + k;
        let at_line_start = start == 0 || src[..start].ends_with('\n') || src[..start].ends_with("export ");
        let after = start + "const ".len();
        i = after;
        if !at_line_start {
            continue;
        }
        let exported = src[..start].ends_with("export ");
        let rest = &src[after..];
        let name: String = rest.chars().take_while(|c| c.is_alphanumeric() || *c == '_' || *c == '$').collect();
        if name.is_empty() {
            continue;
        }
        // find " = " on the same line
        let line_end = rest.find('\n').unwrap_or(rest.len());
        let Some(eq) = rest[..line_end].find(" = ") else { continue };
        let val_start = after + eq + 3;
        if !src[val_start..].starts_with('{') {
            continue;
        }
        let mut stream = serde_json::Deserializer::from_str(&src[val_start..]).into_iter::<Value>();
        match stream.next() {
            Some(Ok(v)) => {
                let end = val_start + stream.byte_offset();
                out.push(ConstDoc { name, exported, json: v });
                i = end;
            }
            Some(Err(e)) => return Err(format!("const {name}: the document literal is not JSON: {e}")),
            None => return Err(format!("const {name}: empty literal")),
        }
    }
    Ok(out)
}

/// `export { A as B, C }` statements: (local, exported-as)
pub fn module_named_exports(src: &str) -> Vec<(String, String)> {
    let mut out = vec![];
    for line in src.lines() {
        let l = line.trim();
        if let Some(rest) = l.strip_prefix("export {") {
            if let Some(body) = rest.split('}').next() {
                for part in body.split(',') {
                    let p = part.trim();
                    if p.is_empty() {
                        continue;
                    }
                    let mut it = p.split(" as ");
                    let local = it.next().unwrap_or("").trim().to_string();
                    let exp = it.next().map(|s| s.trim().to_string()).unwrap_or_else(|| local.clone());
                    out.push((local, exp));
                }
            }
        }
    }
    out
}
