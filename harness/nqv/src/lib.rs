pub mod cli;
pub mod ctx;
pub mod exec;
pub mod extract;
pub mod heapmon;
pub mod inject_ops;
pub mod inject_ts;
pub mod introspect;
pub mod jsread;
pub mod gen_ops;
pub mod gen_schema;
pub mod gen_syntax;
pub mod genproj;
pub mod gqljson;
pub mod model;
pub mod real;
pub mod refimport;
pub mod refparse;
pub mod refts;
pub mod render;
pub mod panicguard;
pub mod pipeline;
pub mod props;
pub mod report;
pub mod rng;
pub mod schema_ix;
pub mod srcmap;
pub mod ts;
pub mod validate;

use ctx::Ctx;
use report::{Report, Violation};
use serde_json::Value;

pub fn run_property(ctx: &Ctx, rep: &mut Report) -> Result<(), String> {
    match ctx.property.as_str() {
        "C01" => props::c01::run_c01(ctx, rep),
        "C02" => props::c01::run_c02(ctx, rep),
        "C09" => props::c01::run_c09(ctx, rep),
        "C03" => props::c03::run_c03(ctx, rep),
        "C04" => props::c03::run_c04(ctx, rep),
        "C05" => props::c05::run(ctx, rep),
        "C06" => {
            props::c06::run_lib(ctx, rep);
            props::maps::run_projects(ctx, rep, "C06", 1600, 32000);
        }
        "C07" => props::c07::run(ctx, rep),
        "C08" => props::c08::run(ctx, rep),
        "C08L" => props::c08::run_loader(ctx, rep),
        "C10" => props::c10::run(ctx, rep),
        "C11" => props::c11::run(ctx, rep),
        "C12" => props::c12::run(ctx, rep),
        "C13" => props::c13::run(ctx, rep),
        "C14" => props::c14::run(ctx, rep),
        "C15" => props::c15::run(ctx, rep),
        "C16" => props::c16::run(ctx, rep),
        "C17" => props::c17::run(ctx, rep),
        "C18" => props::c18::run(ctx, rep),
        "C19" => props::c19::run(ctx, rep),
        "C20" => {
            props::c20::run(ctx, rep);
            props::maps::run_projects(ctx, rep, "C20", 1600, 32000);
        }
        p => return Err(format!("unknown property {p}")),
    }
    Ok(())
}

pub fn replay_case(case: &Value, ctx: &Ctx) -> Result<Vec<Violation>, String> {
    let _ = ctx;
    match case["property"].as_str().unwrap_or("") {
        "C01" | "C02" | "C09" => Ok(props::c01::replay(case, ctx)),
        "C03" | "C04" => Ok(props::c03::replay(case)),
        "C05" => Ok(props::c05::replay(case)),
        "C06" if case["kind"] == "project" => Ok(props::maps::replay(case, ctx, "C06")),
        "C06" => Ok(props::c06::replay(case)),
        "C07" => Ok(props::c07::replay(case)),
        "C08" => Ok(props::c08::replay(case, ctx)),
        "C10" => Ok(props::c10::replay(case)),
        "C11" => Ok(props::c11::replay(case)),
        "C12" => Ok(props::c12::replay(case)),
        "C13" => Ok(props::c13::replay(case, ctx)),
        "C14" => Ok(props::c14::replay(case, ctx)),
        "C15" => Ok(props::c15::replay(case, ctx)),
        "C16" => Ok(props::c16::replay(case, ctx)),
        "C17" => Ok(props::c17::replay(case, ctx)),
        "C18" => Ok(props::c18::replay(case, ctx)),
        "C19" => Ok(props::c19::replay(case)),
        "C20" if case["kind"] == "project" => Ok(props::maps::replay(case, ctx, "C20")),
        "C20" => Ok(props::c20::replay(case)),
        p => Err(format!("unknown property {p}")),
    }
}
