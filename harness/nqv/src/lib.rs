pub mod ctx;
pub mod panicguard;
pub mod props;
pub mod report;
pub mod rng;
pub mod srcmap;

use ctx::Ctx;
use report::{Report, Violation};
use serde_json::Value;

pub fn run_property(ctx: &Ctx, rep: &mut Report) -> Result<(), String> {
    match ctx.property.as_str() {
        "C06" => {
            props::c06::run_lib(ctx, rep);
        }
        "C20" => props::c20::run(ctx, rep),
        p => return Err(format!("unknown property {p}")),
    }
    Ok(())
}

pub fn replay_case(case: &Value, ctx: &Ctx) -> Result<Vec<Violation>, String> {
    let _ = ctx;
    match case["property"].as_str().unwrap_or("") {
        "C06" => Ok(props::c06::replay(case)),
        "C20" => Ok(props::c20::replay(case)),
        p => Err(format!("unknown property {p}")),
    }
}
