//! C15 — a schema given as SDL and the same schema given as introspection JSON give the same check verdicts and
//! semantically equal generated types.
//!
//! Two projects differing only in the schema files (SDL files vs. one `.json` rendered by the reference introspection
//! of the merged model) are run through the real CLI. Verdicts of `check` are compared on the valid document and on
//! single-fault mutants; the declaration files of `generate` are parsed by the TypeScript-subset evaluator and every
//! alias (per namespace, by exported name) is compared by canonical denotation.

use std::collections::BTreeMap;
use std::rc::Rc;
use std::time::Duration;

use serde_json::{Value, json};

use crate::cli;
use crate::ctx::Ctx;
use crate::genproj::{ProjOpts, gen_project};
use crate::inject_ops::inject;
use crate::introspect::{IntroStyle, introspect};
use crate::model::*;
use crate::refparse;
use crate::render::{Feat, render_exec};
use crate::report::{Report, Violation, clip};
use crate::schema_ix::{SchemaIx, merge_extensions};
use crate::ts::{self, Eval, Loaded};

const META: &[&str] = &["__Schema", "__Type", "__TypeKind", "__Field", "__InputValue", "__EnumValue", "__Directive", "__DirectiveLocation"];

/// alias path -> canonical denotation, for every non-generic alias of module `m`
fn denotations(l: &Loaded, ev: &Eval, m: usize) -> BTreeMap<String, String> {
    fn walk(l: &Loaded, ev: &Eval, sc: usize, prefix: &str, out: &mut BTreeMap<String, String>) {
        let scope = &l.prog.scopes[sc];
        for (name, def) in &scope.aliases {
            if !def.params.is_empty() {
                continue;
            }
            let nf = ev.eval(def.scope, &def.ty, &Rc::new(BTreeMap::new()));
            let c = ts::canon(ev, &nf).replace("readonly (", "(");
            let exported: Vec<&String> = scope.exports.iter().filter(|(_, l)| *l == name).map(|(e, _)| e).collect();
            if exported.is_empty() {
                // temporaries (`__tmp_X`, exported under another name) are reached through their export
                if !name.starts_with("__tmp_") {
                    out.insert(format!("{prefix}<local>{name}"), c);
                }
            } else {
                for e in exported {
                    out.insert(format!("{prefix}{e}"), c.clone());
                }
            }
        }
        for (ns, child) in &scope.namespaces {
            walk(l, ev, *child, &format!("{prefix}{ns}."), out);
        }
    }
    let mut out = BTreeMap::new();
    walk(l, ev, l.prog.modules[m], "", &mut out);
    out
}

fn value_exports(l: &Loaded, m: usize) -> Vec<String> {
    l.prog.scopes[l.prog.modules[m]].value_exports.keys().cloned().collect()
}

pub fn compare_modules(prop: &str, sides: (&str, &str), label: &str, a: (&str, Option<&str>), b: (&str, Option<&str>), out: &mut Vec<(String, String)>, stats: &mut (u64, u64)) -> bool {
    let (sa, sb) = sides;
    let la = match ts::load(a.0, a.1) {
        Ok(l) => l,
        Err(_) => return false, // the SDL route's output is C10's business
    };
    let lb = match ts::load(b.0, b.1) {
        Ok(l) => l,
        Err(e) => {
            out.push((format!("{prop}|{label}|{sb}-output-unreadable"), format!("the {sa} file parses, the {sb} one does not: {e}")));
            return true;
        }
    };
    let (ma, mb) = (a.1.map(|_| la.other_module.unwrap()).unwrap_or(la.schema_module), b.1.map(|_| lb.other_module.unwrap()).unwrap_or(lb.schema_module));
    let (eva, evb) = (Eval::new(&la.prog), Eval::new(&lb.prog));
    let da = denotations(&la, &eva, ma);
    let db = denotations(&lb, &evb, mb);
    if eva.out_of_fuel() || evb.out_of_fuel() {
        return false;
    }
    for (k, va) in &da {
        stats.0 += 1;
        match db.get(k) {
            None => out.push((format!("{prop}|{label}|alias-missing-in-{sb}|{}", alias_class(k)), format!("{k} = {} exists in the {sa} output only", clip(va, 200)))),
            Some(vb) if va != vb => out.push((format!("{prop}|{label}|alias-denotation-differs|{}", alias_class(k)), format!("{k}: {sa} `{}`, {sb} `{}`", clip(va, 400), clip(vb, 400)))),
            _ => stats.1 += 1,
        }
    }
    for (k, vb) in &db {
        if !da.contains_key(k) {
            let last = k.rsplit('.').next().unwrap_or(k);
            if META.contains(&last.trim_start_matches("<local>")) {
                continue; // the introspection meta types are part of every schema; SDL files never spell them
            }
            out.push((format!("{prop}|{label}|alias-only-in-{sb}|{}", alias_class(k)), format!("{k} = {} exists in the {sb} output only", clip(vb, 200))));
        }
    }
    let (va, mut vb) = (value_exports(&la, ma), value_exports(&lb, mb));
    vb.retain(|n| va.contains(n) || !META.contains(&n.as_str()));
    if va != vb {
        out.push((format!("{prop}|{label}|value-exports-differ"), format!("{sa} {va:?}, {sb} {vb:?}")));
    }
    true
}

/// namespace of the alias (the part that says which printer branch produced it)
fn alias_class(k: &str) -> String {
    match k.rsplit_once('.') {
        Some((ns, _)) => ns.to_string(),
        None => "module-level".into(),
    }
}

pub struct Variant {
    pub files_sdl: Vec<(String, String)>,
    pub files_json: Vec<(String, String)>,
    pub root: String,
    pub outputs: Vec<(String, String)>, // (label, path relative to the project dir)
    pub schema_output: Option<String>,
}

fn run_both(ctx: &Ctx, n: u64, v: &Variant, args: &[&str]) -> Option<[(cli::CliRun, std::path::PathBuf); 2]> {
    let mut res = vec![];
    for (tag, files) in [("sdl", &v.files_sdl), ("json", &v.files_json)] {
        let dir = cli::scratch_dir(&ctx.out, &format!("c15{tag}"), n);
        if cli::write_project(&dir, files).is_err() {
            cli::cleanup(&dir);
            return None;
        }
        let r = cli::run_cli(&ctx.cli, &dir.join(&v.root), args, Duration::from_secs(120));
        res.push((r, dir));
    }
    let b = res.pop()?;
    let a = res.pop()?;
    Some([a, b])
}

fn verdict(r: &cli::CliRun) -> Option<bool> {
    if r.panicked().is_some() || r.timed_out || r.signal.is_some() {
        return None;
    }
    match r.status {
        Some(0) => Some(true),
        Some(1) => Some(false),
        _ => None,
    }
}

pub struct Stats {
    pub verdicts: u64,
    pub rejected_both: u64,
    pub accepted_both: u64,
    pub aliases: u64,
    pub aliases_equal: u64,
    pub modules: u64,
}

pub fn check_variant(ctx: &Ctx, n: u64, v: &Variant, generate: bool, st: &mut Stats) -> Vec<Violation> {
    let replay = json!({"property":"C15","kind":"variant","generate":generate,"root":v.root,"schema_output":v.schema_output,
        "outputs":v.outputs.iter().map(|(a,b)| json!([a,b])).collect::<Vec<_>>(),
        "sdl":v.files_sdl.iter().map(|(a,b)| json!([a,b])).collect::<Vec<_>>(),"json":v.files_json.iter().map(|(a,b)| json!([a,b])).collect::<Vec<_>>()});
    let mut out: Vec<(String, String)> = vec![];
    let args: Vec<&str> = if generate { vec!["check", "generate", "--output-format", "json"] } else { vec!["check", "--output-format", "json"] };
    let Some([(ra, da), (rb, db)]) = run_both(ctx, n, v, &args) else { return vec![] };
    let (va, vb) = (verdict(&ra), verdict(&rb));
    match (va, vb) {
        (Some(a), Some(b)) => {
            st.verdicts += 1;
            if a != b {
                let msg = |r: &cli::CliRun| clip(&format!("{}{}", r.stdout, r.stderr), 500);
                out.push((format!("C15|verdict-differs|sdl={}|json={}", if a { "accept" } else { "reject" }, if b { "accept" } else { "reject" }), format!("SDL route: {} — JSON route: {}", msg(&ra), msg(&rb))));
            } else if a {
                st.accepted_both += 1;
            } else {
                st.rejected_both += 1;
            }
            if a && b && generate {
                let read = |d: &std::path::Path, rel: &str| std::fs::read_to_string(d.join(rel)).ok();
                let schema = v.schema_output.as_ref().map(|s| (read(&da, s), read(&db, s)));
                if let Some((Some(sa), Some(sb))) = &schema {
                    let mut s2 = (0, 0);
                    if compare_modules("C15", ("sdl", "json"), "schema-types", (sa, None), (sb, None), &mut out, &mut s2) {
                        st.modules += 1;
                    }
                    st.aliases += s2.0;
                    st.aliases_equal += s2.1;
                    for (label, rel) in &v.outputs {
                        match (read(&da, rel), read(&db, rel)) {
                            (Some(oa), Some(ob)) => {
                                let mut s2 = (0, 0);
                                if compare_modules("C15", ("sdl", "json"), label, (sa, Some(&oa)), (sb, Some(&ob)), &mut out, &mut s2) {
                                    st.modules += 1;
                                }
                                st.aliases += s2.0;
                                st.aliases_equal += s2.1;
                            }
                            (Some(_), None) => out.push((format!("C15|{label}|file-missing-in-json-route"), format!("{rel} is written with the SDL schema only"))),
                            _ => {}
                        }
                    }
                } else if let Some((Some(_), None)) = &schema {
                    out.push(("C15|schema-types|file-missing-in-json-route".into(), "the schema declaration file is written with the SDL schema only".into()));
                }
            }
        }
        (Some(_), None) => {
            // the SDL route behaves, the JSON route crashed or was refused in an unexpected way
            if let Some(p) = rb.panicked() {
                out.push((format!("C15|json-route-panicked|{}", rb.panic_site().unwrap_or_default()), p));
            }
        }
        _ => {}
    }
    cli::cleanup(&da);
    cli::cleanup(&db);
    out.sort();
    out.dedup_by(|a, b| a.0 == b.0);
    out.into_iter().map(|(sig, detail)| Violation { sig, detail, replay: replay.clone() }).collect()
}

pub fn run(ctx: &Ctx, rep: &mut Report) {
    crate::gen_syntax::set_allow_block(false);
    rep.note("feature mask: no block strings (C07 owns their defect). Introspection meta types present in the JSON only are not compared. JSON styles: full (every key, null when empty) / minimal (optional keys absent), with and without meta types, shuffled or in definition order.");
    let n = ctx.budget(960, 24_000);
    let mut st = Stats { verdicts: 0, rejected_both: 0, accepted_both: 0, aliases: 0, aliases_equal: 0, modules: 0 };
    for case in 0..n {
        let mut rng = ctx.rng("c15", case);
        let Some(proj) = gen_project(&mut rng, &ProjOpts { hostile_trivia: false, ..ProjOpts::standard() }) else { continue };
        let merged = merge_extensions(&proj.schema_model);
        let ix = SchemaIx::new(&merged);
        let style = IntroStyle { full: rng.coin(), meta_types: rng.coin(), shuffle: rng.coin() };
        let schema_desc = merged.defs.iter().find_map(|d| if let TsDef::Schema(s) = d { s.desc.clone() } else { None });
        let intro = introspect(&ix, schema_desc.as_ref(), style, &mut rng);
        let intro_text = if rng.coin() { serde_json::to_string_pretty(&intro).unwrap() } else { intro.to_string() };
        let cfg_json = proj.config.render(&["./schema/introspection.json".to_string()], &proj.doc_globs);
        let is_cfg = |p: &str| p.contains("graphql.config");
        let mut files_json: Vec<(String, String)> = proj.files.iter().filter(|(p, _)| !proj.schema_paths.contains(p) && !is_cfg(p)).cloned().collect();
        files_json.push((format!("{}/schema/introspection.json", proj.root), intro_text));
        let cfg_path = proj.files.iter().find(|(p, _)| is_cfg(p)).map(|(p, _)| p.clone()).unwrap_or_default();
        files_json.push((cfg_path.clone(), cfg_json.clone()));
        let mut outputs = vec![];
        if let Some(r) = &proj.config.resolvers_output {
            outputs.push(("resolver-types".to_string(), format!("{}/{r}", proj.root)));
        }
        for p in &proj.op_paths {
            let stem = p.strip_suffix(".graphql").unwrap_or(p);
            outputs.push(("operation-types".to_string(), format!("{stem}.{}", proj.config.decl_extension())));
        }
        let v = Variant { files_sdl: proj.files.clone(), files_json: files_json.clone(), root: proj.root.clone(), outputs, schema_output: proj.config.schema_output.as_ref().map(|s| format!("{}/{s}", proj.root)) };
        rep.trace_case(|| json!({"property":"C15","case":case,"style":format!("{style:?}")}));
        rep.eval();
        rep.count(&format!("json_style|full={}|meta={}|shuffled={}", style.full, style.meta_types, style.shuffle));
        let before = st.aliases;
        let vs = check_variant(ctx, case * 8, &v, true, &mut st);
        if st.aliases > before {
            rep.nontrivial(&format!("{:?}", v.files_sdl));
        }
        if case == 0 {
            rep.sample(json!({"style":format!("{style:?}"),"introspection_json":clip(&files_json[files_json.len()-2].1, 600),"sdl_files":proj.schema_paths}));
        }
        rep.violations(vs);
        // verdicts on single-fault mutants of the whole document, as a one-file project
        let mut all = ExecDoc { defs: vec![] };
        for (p, d) in &proj.op_models {
            if p.ends_with("other.graphql") || p.ends_with("x.graphql") || p.ends_with("ther.graphql") {
                continue;
            }
            all.defs.extend(d.defs.iter().filter(|d| !matches!(d, ExecDef::Import(_))).cloned());
        }
        for k in 0..3u64 {
            let Some(f) = inject(&mut rng, &ix, &all) else { continue };
            let text = render_exec(&f.doc, None, Feat::plain());
            if refparse::parse_exec(&text).is_err() {
                continue;
            }
            let keep = |files: &[(String, String)]| -> Vec<(String, String)> {
                let mut out: Vec<(String, String)> = files.iter().filter(|(p, _)| !proj.op_paths.contains(p)).cloned().collect();
                out.push((format!("{}/ops/main.graphql", proj.root), text.clone()));
                out
            };
            let mv = Variant { files_sdl: keep(&proj.files), files_json: keep(&files_json), root: proj.root.clone(), outputs: vec![], schema_output: None };
            rep.eval();
            rep.count(&format!("mutants|{}", f.rule));
            let vs = check_variant(ctx, case * 8 + 1 + k, &mv, false, &mut st);
            rep.nontrivial(&format!("{text}\u{1}{:?}", proj.schema_paths));
            rep.violations(vs);
        }
        // root-shape documents: an operation of a kind the schema does not declare a root for, while an ordinary
        // object type carries the default root name (an explicit schema definition makes that legal)
        for kind in [OpKind::Mutation, OpKind::Subscription] {
            let tname = if kind == OpKind::Mutation { "Mutation" } else { "Subscription" };
            if ix.root(kind).is_some() || ix.kind(tname).is_some() || ix.query.is_none() || !rng.coin() {
                continue;
            }
            let mut extra = TsDoc::default();
            let mut t = TypeDef::new(TKind::Object, tname);
            t.fields.push(FieldDef { desc: None, name: nm("rootlessField"), args: vec![], ty: Ty::named("Int"), dirs: vec![] });
            extra.defs.push(TsDef::Type(t));
            if !ix.has_schema_def {
                let mut roots = vec![(OpKind::Query, nm(ix.query.as_ref().unwrap()))];
                if let Some(m) = &ix.mutation {
                    roots.push((OpKind::Mutation, nm(m)));
                }
                if let Some(m) = &ix.subscription {
                    roots.push((OpKind::Subscription, nm(m)));
                }
                extra.defs.push(TsDef::Schema(SchemaDef { ext: false, desc: None, p: P::none(), dirs: vec![], roots }));
            }
            let mut model2 = proj.schema_model.clone();
            model2.defs.extend(extra.defs.clone());
            let merged2 = merge_extensions(&model2);
            if !crate::validate::validate_type_system(&model2).is_empty() {
                continue;
            }
            let ix2 = SchemaIx::new(&merged2);
            let intro2 = introspect(&ix2, schema_desc.as_ref(), style, &mut rng).to_string();
            let kw = if kind == OpKind::Mutation { "mutation" } else { "subscription" };
            let text = format!("{kw} Rootless {{\n  rootlessField\n}}\n");
            let mut sdl: Vec<(String, String)> = proj.files.iter().filter(|(p, _)| !proj.op_paths.contains(p)).cloned().collect();
            sdl.push((format!("{}/schema/rootless.graphql", proj.root), crate::render::render_ts(&extra, None, Feat::plain())));
            sdl.push((format!("{}/ops/main.graphql", proj.root), text.clone()));
            let mut js: Vec<(String, String)> = files_json.iter().filter(|(p, _)| !proj.op_paths.contains(p) && !p.ends_with("introspection.json")).cloned().collect();
            js.push((format!("{}/schema/introspection.json", proj.root), intro2));
            js.push((format!("{}/ops/main.graphql", proj.root), text.clone()));
            let mv = Variant { files_sdl: sdl, files_json: js, root: proj.root.clone(), outputs: vec![], schema_output: None };
            rep.eval();
            rep.count(&format!("root_shape_documents|{kw}-without-root-but-type-named-{tname}"));
            let vs = check_variant(ctx, case * 8 + 5 + (kind == OpKind::Subscription) as u64, &mv, false, &mut st);
            rep.nontrivial(&format!("{text}\u{1}rootless{:?}", proj.schema_paths));
            rep.violations(vs);
        }
    }
    rep.add("verdict_pairs_compared", st.verdicts);
    rep.add("verdict_pairs_both_accept", st.accepted_both);
    rep.add("verdict_pairs_both_reject", st.rejected_both);
    rep.add("modules_compared", st.modules);
    rep.add("aliases_compared", st.aliases);
    rep.add("aliases_equal", st.aliases_equal);
}

pub fn replay(case: &Value, ctx: &Ctx) -> Vec<Violation> {
    let files = |k: &str| -> Vec<(String, String)> { case[k].as_array().map(|a| a.iter().map(|x| (x[0].as_str().unwrap_or("").to_string(), x[1].as_str().unwrap_or("").to_string())).collect()).unwrap_or_default() };
    let v = Variant { files_sdl: files("sdl"), files_json: files("json"), root: case["root"].as_str().unwrap_or("app").to_string(), outputs: files("outputs"), schema_output: case["schema_output"].as_str().map(|s| s.to_string()) };
    let mut st = Stats { verdicts: 0, rejected_both: 0, accepted_both: 0, aliases: 0, aliases_equal: 0, modules: 0 };
    check_variant(ctx, 0, &v, case["generate"].as_bool().unwrap_or(true), &mut st)
}
