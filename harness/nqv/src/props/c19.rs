//! C19 — loader tasks are isolated and memory-safe under any call sequence.
//! Drives the real `extern "C"` ABI (loader-shim = the repository's graphql-loader/src/main.rs
//! compiled as a library) exactly as packages/loader-core does, and compares every response
//! with a sequential reference model; `emit` is compared with a clean-room loader instance
//! (a fresh thread, hence fresh thread_local state) that is given the same files.

use std::collections::{BTreeMap, BTreeSet};
use std::sync::Once;

use serde_json::{Value, json};

use crate::ctx::Ctx;
use crate::heapmon;
use crate::refimport::resolve_path;
use crate::refparse;
use crate::report::{Report, Violation, clip};
use crate::rng::Rng;

// ------------------------------------------------------------------ ABI glue

static INIT: Once = Once::new();

fn abi_init() {
    INIT.call_once(|| loader_shim::init(0));
}

fn with_str<R>(s: &str, f: impl FnOnce(*const u8, usize) -> R) -> R {
    let len = s.len();
    let p = loader_shim::alloc_string(len);
    unsafe {
        std::ptr::copy_nonoverlapping(s.as_ptr(), p, len);
    }
    let r = f(p as *const u8, len);
    unsafe { loader_shim::free_string(p, len) };
    r
}

fn read_result() -> String {
    let p = loader_shim::get_result_ptr();
    let n = loader_shim::get_result_size();
    let bytes = unsafe { std::slice::from_raw_parts(p, n) };
    String::from_utf8_lossy(bytes).into_owned()
}

fn abi_initiate(path: &str, src: &str) -> usize {
    with_str(path, |pp, pl| with_str(src, |sp, sl| loader_shim::initiate_task(pp, pl, sp, sl)))
}
fn abi_load(t: usize, path: &str, src: &str) -> bool {
    with_str(path, |pp, pl| with_str(src, |sp, sl| loader_shim::load_file(t, pp, pl, sp, sl)))
}
fn abi_config(c: &str) -> bool {
    with_str(c, |p, l| loader_shim::load_config(p, l))
}

/// the ABI glue for other monitors (C08 loader part, C12, C14)
pub mod abi {
    pub fn init() {
        super::abi_init()
    }
    pub fn config(c: &str) -> bool {
        super::abi_config(c)
    }
    pub fn initiate(path: &str, src: &str) -> usize {
        super::abi_initiate(path, src)
    }
    pub fn load(t: usize, path: &str, src: &str) -> bool {
        super::abi_load(t, path, src)
    }
    pub fn read_result() -> String {
        super::read_result()
    }
}

// ------------------------------------------------------------------ history language

/// source pool: (path, text)
pub const POOL: &[(&str, &str, &str)] = &[
    ("R1", "/p/op.graphql", "#import Frag1 from \"./frag1.graphql\"\nquery Test {\n  test\n  ...Frag1\n}\n"),
    ("R2", "/p/q2.graphql", "#import * from \"./d/frag2.graphql\"\n#import Frag1 from \"frag1.graphql\"\nquery Q2($v: Int = 3) @dir {\n  a(x: $v)\n  ...Frag2\n  ...Frag1\n}\nmutation M2 { m }\n"),
    ("R3", "/p/simple.graphql", "query S { s { t(a: [1, \"two\", {k: null}]) } }\n"),
    ("BAD", "/p/bad.graphql", "query {"),
    ("F1", "/p/frag1.graphql", "#import Frag2 from \"./d/frag2.graphql\"\nfragment Frag1 on T {\n  x\n  ...Frag2\n}\n"),
    ("F2", "/p/d/frag2.graphql", "fragment Frag2 on T { y é }\n"),
    ("F1ALT", "/p/frag1.graphql", "fragment Frag1 on T { z }\nfragment Extra on T { w }\n"),
    ("BADF", "/p/frag1.graphql", "fragment on on T {"),
    ("MISS", "/p/missing.graphql", "query Miss { ...Nope }\n"),
    // files in other directories whose own relative imports must be resolved against *their* directory
    ("F2I", "/p/d/frag2.graphql", "#import Frag4 from \"./e/frag4.graphql\"\nfragment Frag2 on T { y ...Frag4 }\n"),
    ("F4", "/p/d/e/frag4.graphql", "#import Extra from \"../../frag1.graphql\"\nfragment Frag4 on T { q }\n"),
    // two files in different directories that use the identical import string for different targets
    ("R7", "/p/root7.graphql", "#import * from \"./a/one.graphql\"\n#import * from \"./b/two.graphql\"\nquery R7 { ...One ...Two }\n"),
    ("G1", "/p/a/one.graphql", "#import FA from \"./fragments.graphql\"\nfragment One on T { x ...FA }\n"),
    ("G2", "/p/b/two.graphql", "#import FB from \"./fragments.graphql\"\nfragment Two on T { y ...FB }\n"),
    ("GA", "/p/a/fragments.graphql", "fragment FA on T { a }\n"),
    ("GB", "/p/b/fragments.graphql", "fragment FB on T { b }\n"),
    // root names that are legal but not in normal form
    ("R5", "/p/x/../op5.graphql", "#import Frag1 from \"./frag1.graphql\"\nquery R5 { five ...Frag1 }\n"),
    ("R6", "./rel6.graphql", "query R6 { six }\n"),
    ("R4", "/p/sub/deep/q.graphql", "#import Frag2 from \"../../d/frag2.graphql\"\nquery Q4 { ...Frag2 }\n"),
    // sources that begin with a byte order mark (the grammar skips it; the buffer handed over is three bytes longer than
    // what the parser keeps)
    ("RB", "/p/bom.graphql", "\u{feff}#import Frag1 from \"./frag1.graphql\"\nquery Bom { bom ...Frag1 }\n"),
    ("F2B", "/p/d/frag2.graphql", "\u{feff}fragment Frag2 on T { y }\n"),
    ("SELF", "/p/self.graphql", "#import * from \"./self.graphql\"\n#import Frag2 from \"./d/../d/frag2.graphql\"\nquery Self { ...SelfF ...Frag2 }\nfragment SelfF on T { s }\n"),
];

fn pool(name: &str) -> (&'static str, &'static str) {
    let e = POOL.iter().find(|e| e.0 == name).expect("pool entry");
    (e.1, e.2)
}

/// task reference: the k-th task id ever issued in this history, or a never-issued / zero id
#[derive(Clone, Copy, Debug, PartialEq, Eq)]
pub enum TRef {
    Issued(usize),
    Never,
    Zero,
    /// the id after the largest one issued so far: what the loader would hand out next, never given to the caller
    Next,
}

#[derive(Clone, Debug, PartialEq, Eq)]
pub enum Op {
    Initiate(&'static str),
    Required(TRef),
    Load(TRef, &'static str),
    Emit(TRef),
    Free(TRef),
    Config(&'static str),
}

pub const CONFIGS: &[(&str, &str)] = &[
    ("default", "schema: s.graphql\n"),
    ("named", "schema: s.graphql\nextensions:\n  nitrogql:\n    generate:\n      export:\n        defaultExportForOperation: false\n      name:\n        capitalizeOperationNames: false\n        queryVariableSuffix: Doc\n"),
    ("invalid", "schema: [\n"),
];

fn op_json(o: &Op) -> Value {
    let t = |t: &TRef| match t {
        TRef::Issued(k) => json!(format!("T{k}")),
        TRef::Never => json!("NEVER"),
        TRef::Zero => json!("ZERO"),
        TRef::Next => json!("NEXT"),
    };
    match o {
        Op::Initiate(s) => json!(["initiate", s]),
        Op::Required(r) => json!(["required", t(r)]),
        Op::Load(r, s) => json!(["load", t(r), s]),
        Op::Emit(r) => json!(["emit", t(r)]),
        Op::Free(r) => json!(["free", t(r)]),
        Op::Config(c) => json!(["config", c]),
    }
}

fn static_name(s: &str) -> Option<&'static str> {
    POOL.iter().map(|e| e.0).chain(CONFIGS.iter().map(|c| c.0)).find(|n| *n == s)
}

fn op_from_json(v: &Value) -> Option<Op> {
    let a = v.as_array()?;
    let t = |v: &Value| -> Option<TRef> {
        let s = v.as_str()?;
        Some(match s {
            "NEVER" => TRef::Never,
            "ZERO" => TRef::Zero,
            "NEXT" => TRef::Next,
            s => TRef::Issued(s.strip_prefix('T')?.parse().ok()?),
        })
    };
    Some(match a[0].as_str()? {
        "initiate" => Op::Initiate(static_name(a[1].as_str()?)?),
        "required" => Op::Required(t(&a[1])?),
        "load" => Op::Load(t(&a[1])?, static_name(a[2].as_str()?)?),
        "emit" => Op::Emit(t(&a[1])?),
        "free" => Op::Free(t(&a[1])?),
        "config" => Op::Config(static_name(a[1].as_str()?)?),
        _ => return None,
    })
}

// ------------------------------------------------------------------ reference model

#[derive(Clone, Default)]
struct TaskM {
    root: String,
    files: BTreeMap<String, String>,
}

fn source_ok(src: &str) -> bool {
    // loader = parse + resolve extensions; the pool has no wildcard/name mixing, so parse validity decides
    refparse::parse_exec(src).is_ok()
}

fn expected_required(t: &TaskM) -> BTreeSet<String> {
    let mut out = BTreeSet::new();
    for (path, src) in &t.files {
        if let Ok(doc) = refparse::parse_exec(src) {
            for imp in doc.imports() {
                let target = resolve_path(path, &imp.path.value);
                if !t.files.contains_key(&target) {
                    out.insert(target);
                }
            }
        }
    }
    out
}

/// what a fresh loader instance given exactly these files answers to emit
fn clean_room_emit(t: &TaskM, config: Option<&'static str>) -> Result<(bool, String), String> {
    let t = t.clone();
    let h = std::thread::Builder::new().stack_size(16 << 20).spawn(move || {
        abi_init();
        if let Some(c) = config {
            abi_config(c);
        }
        let root_src = t.files.get(&t.root).cloned().unwrap_or_default();
        let id = abi_initiate(&t.root, &root_src);
        if id == 0 {
            return (false, format!("<clean room could not initiate: {}>", read_result()));
        }
        for (p, s) in &t.files {
            if *p != t.root {
                abi_load(id, p, s);
            }
        }
        let ok = loader_shim::emit_js(id);
        let r = read_result();
        loader_shim::free_task(id);
        (ok, r)
    });
    match h {
        Ok(h) => h.join().map_err(|_| "clean-room thread panicked".to_string()),
        Err(e) => Err(format!("spawn: {e}")),
    }
}

pub struct HistoryResult {
    pub violations: Vec<Violation>,
    pub ops_run: usize,
    pub emits_compared: usize,
    pub nonlive_calls: usize,
    pub live_bytes_after: u64,
}

fn run_history_here(ops: &[Op]) -> HistoryResult {
    abi_init();
    let replay = json!({"property":"C19","kind":"history","ops": ops.iter().map(op_json).collect::<Vec<_>>()});
    let mk = |sig: String, detail: String| Violation { sig, detail, replay: replay.clone() };
    let mut out = vec![];
    let mut issued: Vec<usize> = vec![];
    let mut live: BTreeMap<usize, TaskM> = BTreeMap::new();
    let mut config: Option<&'static str> = None;
    let mut emits = 0;
    let mut nonlive = 0;
    // some call has stored a result (so that "read the last result" is a legal next call)
    let mut result_set = false;
    let hist = || ops.iter().map(|o| op_json(o).to_string()).collect::<Vec<_>>().join(" ");
    let resolve = |r: &TRef, issued: &Vec<usize>| -> usize {
        match r {
            TRef::Issued(k) => issued.get(*k).copied().unwrap_or(1000 + *k),
            TRef::Never => 424242,
            TRef::Zero => 0,
            TRef::Next => issued.iter().copied().max().unwrap_or(0) + 1,
        }
    };
    heapmon::reset_violations();
    for (i, op) in ops.iter().enumerate() {
        let opname = op_json(op).to_string();
        match op {
            Op::Config(c) => {
                let text = CONFIGS.iter().find(|x| x.0 == *c).unwrap().1;
                let ok = abi_config(text);
                let want = *c != "invalid";
                if ok != want {
                    out.push(mk(format!("C19|model|load_config-returns-{ok}|config={c}"), format!("step {i} {opname}: load_config returned {ok}, expected {want}")));
                }
                if ok {
                    config = Some(text);
                }
            }
            Op::Initiate(s) => {
                let (path, src) = pool(s);
                let id = abi_initiate(path, src);
                if id == 0 {
                    result_set = true;
                }
                let ok = source_ok(src);
                if ok {
                    if id == 0 {
                        out.push(mk("C19|model|initiate-fails-on-valid-source".into(), format!("step {i} {opname}: returned 0 ({}) in {}", read_result(), hist())));
                    } else if issued.contains(&id) {
                        out.push(mk("C19|model|task-id-reused".into(), format!("step {i} {opname}: id {id} was issued before, in {}", hist())));
                        issued.push(id);
                    } else {
                        issued.push(id);
                        let mut t = TaskM { root: path.to_string(), files: BTreeMap::new() };
                        t.files.insert(path.to_string(), src.to_string());
                        live.insert(id, t);
                    }
                } else if id != 0 {
                    out.push(mk("C19|model|initiate-succeeds-on-invalid-source".into(), format!("step {i} {opname}: returned id {id} for an unparsable source")));
                    issued.push(id);
                } else if read_result().is_empty() {
                    out.push(mk("C19|model|failure-without-error-text".into(), format!("step {i} {opname}: failure value but empty error text")));
                }
            }
            Op::Required(r) => {
                let id = resolve(r, &issued);
                let ok = loader_shim::get_required_files(id);
                result_set = true;
                let text = read_result();
                match live.get(&id) {
                    None => {
                        nonlive += 1;
                        if ok {
                            out.push(mk("C19|model|call-on-dead-task-succeeds|required".into(), format!("step {i} {opname}: get_required_files({id}) succeeded on an unknown/freed id, in {}", hist())));
                        } else if text.is_empty() {
                            out.push(mk("C19|model|failure-without-error-text".into(), format!("step {i} {opname}: failure value but empty error text")));
                        }
                    }
                    Some(t) => {
                        let got: BTreeSet<String> = text.split('\n').filter(|s| !s.is_empty()).map(|s| s.to_string()).collect();
                        let want = expected_required(t);
                        if !ok {
                            out.push(mk("C19|model|required-fails-on-live-task".into(), format!("step {i} {opname}: failed with {text:?}")));
                        } else if got != want {
                            out.push(mk("C19|model|required-files-differ".into(), format!("step {i} {opname}: task asks for {got:?}, unresolved import targets of its loaded files are {want:?}, in {}", hist())));
                        }
                    }
                }
            }
            Op::Load(r, s) => {
                let id = resolve(r, &issued);
                let (path, src) = pool(s);
                let ok = abi_load(id, path, src);
                if !ok {
                    result_set = true;
                }
                match live.get_mut(&id) {
                    None => {
                        nonlive += 1;
                        if ok {
                            out.push(mk("C19|model|call-on-dead-task-succeeds|load".into(), format!("step {i} {opname}: load_file({id}) succeeded on an unknown/freed id, in {}", hist())));
                        } else if read_result().is_empty() {
                            out.push(mk("C19|model|failure-without-error-text".into(), format!("step {i} {opname}: failure value but empty error text")));
                        }
                    }
                    Some(t) => {
                        let valid = source_ok(src);
                        if ok != valid {
                            out.push(mk(format!("C19|model|load-returns-{ok}-for-{}-source", if valid { "valid" } else { "invalid" }), format!("step {i} {opname}: {}", if ok { String::new() } else { read_result() })));
                        }
                        if ok {
                            t.files.insert(path.to_string(), src.to_string());
                        }
                    }
                }
            }
            Op::Emit(r) => {
                let id = resolve(r, &issued);
                let ok = loader_shim::emit_js(id);
                result_set = true;
                let text = read_result();
                match live.get(&id) {
                    None => {
                        nonlive += 1;
                        if ok {
                            out.push(mk("C19|model|call-on-dead-task-succeeds|emit".into(), format!("step {i} {opname}: emit_js({id}) succeeded on an unknown/freed id, in {}", hist())));
                        } else if text.is_empty() {
                            out.push(mk("C19|model|failure-without-error-text".into(), format!("step {i} {opname}: failure value but empty error text")));
                        }
                    }
                    Some(_) if cfg!(miri) => {
                        // under Miri the memory model is the oracle; the clean-room differential (which doubles the
                        // interpreted work) is left to the native / ASan / valgrind engines
                        if text.is_empty() {
                            out.push(mk("C19|model|emit-empty-result".into(), format!("step {i} {opname}: empty result")));
                        }
                    }
                    Some(t) => match clean_room_emit(t, config) {
                        Err(e) => out.push(mk("C19|harness|clean-room-failed".into(), e)),
                        Ok((cok, ctext)) => {
                            emits += 1;
                            if cok != ok || ctext != text {
                                out.push(mk(
                                    format!("C19|model|emit-differs-from-fresh-task|flag={ok}/{cok}"),
                                    format!("step {i} {opname}: task {id} emitted ({ok}) {:?} but a fresh task given the same files emits ({cok}) {:?}, in {}", clip(&text, 300), clip(&ctext, 300), hist()),
                                ));
                            }
                        }
                    },
                }
            }
            Op::Free(r) => {
                let id = resolve(r, &issued);
                if !live.contains_key(&id) {
                    nonlive += 1;
                }
                // "read the last result" around a free (of any id): freeing must not take another call's answer away
                let before = if result_set { Some(read_result()) } else { None };
                loader_shim::free_task(id);
                live.remove(&id);
                if let Some(b) = before {
                    let after = read_result();
                    if after != b {
                        out.push(mk("C19|model|free-changes-the-last-result".into(), format!("step {i} {opname}: the last result read {:?} before free_task({id}) and {:?} after it, in {}", clip(&b, 80), clip(&after, 80), hist())));
                    }
                }
            }
        }
        if let Some(v) = heapmon::first_violation() {
            out.push(mk(format!("C19|heap|{}", heapmon::violation_kind()), format!("step {i} {opname}: {v}, in {}", hist())));
            heapmon::reset_violations();
        }
    }
    // quiescent point: free everything that is still live, then look at the heap again
    for id in live.keys() {
        loader_shim::free_task(*id);
    }
    if let Some(v) = heapmon::first_violation() {
        out.push(mk(format!("C19|heap|{}", heapmon::violation_kind()), format!("at final free of live tasks: {v}, in {}", hist())));
        heapmon::reset_violations();
    }
    HistoryResult { violations: out, ops_run: ops.len(), emits_compared: emits, nonlive_calls: nonlive, live_bytes_after: heapmon::LIVE_BYTES.load(std::sync::atomic::Ordering::Relaxed) }
}

/// every history runs in its own thread = fresh loader instance (all loader state is thread_local)
pub fn run_history(ops: &[Op]) -> HistoryResult {
    let ops2 = ops.to_vec();
    let h = std::thread::Builder::new().stack_size(16 << 20).spawn(move || run_history_here(&ops2)).expect("spawn");
    match h.join() {
        Ok(r) => r,
        Err(_) => HistoryResult {
            violations: vec![Violation { sig: "C19|harness|history-thread-panicked".into(), detail: "the history thread panicked outside the ABI".into(), replay: json!({"property":"C19","kind":"history","ops": ops.iter().map(op_json).collect::<Vec<_>>()}) }],
            ops_run: 0,
            emits_compared: 0,
            nonlive_calls: 0,
            live_bytes_after: 0,
        },
    }
}

pub fn alphabet(with_missing: bool) -> Vec<Op> {
    let t0 = TRef::Issued(0);
    let t1 = TRef::Issued(1);
    let mut a = vec![
        Op::Initiate("R1"),
        Op::Initiate("R2"),
        Op::Initiate("R3"),
        Op::Initiate("R5"),
        Op::Initiate("BAD"),
        Op::Required(t0),
        Op::Required(t1),
        Op::Required(TRef::Never),
        Op::Load(t0, "F1"),
        Op::Load(t0, "F2"),
        Op::Load(t1, "F1"),
        Op::Load(t0, "BADF"),
        Op::Load(t0, "F2I"),
        Op::Load(t0, "F4"),
        Op::Load(TRef::Never, "F1"),
        Op::Emit(t0),
        Op::Emit(t1),
        Op::Emit(TRef::Zero),
        Op::Required(TRef::Next),
        Op::Load(TRef::Next, "F1"),
        Op::Free(t0),
        Op::Free(t1),
    ];
    if with_missing {
        a.push(Op::Initiate("MISS"));
    }
    a
}

fn random_history(rng: &mut Rng, len: usize, with_missing: bool) -> Vec<Op> {
    let mut ops = vec![];
    let mut n_issued = 0usize;
    let roots: &[&'static str] = if with_missing { &["R1", "R2", "R3", "R4", "R5", "R6", "R7", "RB", "BAD", "SELF", "MISS"] } else { &["R1", "R2", "R3", "R4", "R5", "R6", "R7", "RB", "BAD", "SELF"] };
    let files: &[&'static str] = &["F1", "F2", "F2I", "F2B", "F4", "F1ALT", "BADF", "R3", "SELF", "G1", "G2", "GA", "GB"];
    for _ in 0..len {
        let tref = |rng: &mut Rng, n: usize| -> TRef {
            if n == 0 || rng.chance(1, 8) {
                *rng.pick(&[TRef::Never, TRef::Zero, TRef::Next, TRef::Next])
            } else {
                TRef::Issued(rng.below(n.min(6) + 0).max(0) + n.saturating_sub(6))
            }
        };
        match rng.below(12) {
            0 | 1 => {
                let r = roots[rng.below(roots.len())];
                ops.push(Op::Initiate(r));
                if r != "BAD" {
                    n_issued += 1;
                }
            }
            2 | 3 => ops.push(Op::Required(tref(rng, n_issued))),
            4..=6 => ops.push(Op::Load(tref(rng, n_issued), files[rng.below(files.len())])),
            7 | 8 => ops.push(Op::Emit(tref(rng, n_issued))),
            9 => ops.push(Op::Free(tref(rng, n_issued))),
            10 => ops.push(Op::Config(CONFIGS[rng.below(CONFIGS.len())].0)),
            _ => ops.push(Op::Required(tref(rng, n_issued))),
        }
    }
    ops
}

/// Miri costs seconds per ABI call: short histories that are sure to register, re-register, emit and drop sources
fn miri_history(rng: &mut Rng, short: bool) -> Vec<Op> {
    let t0 = TRef::Issued(0);
    if short {
        // quick tier: register a root and one file (two leaked-and-rebuilt strings), one hostile step, emit, drop
        let mut ops = vec![Op::Initiate("R1"), Op::Load(t0, if rng.coin() { "F1" } else { "F1ALT" }), Op::Emit(t0), Op::Free(t0)];
        let extra = match rng.below(4) {
            0 => Op::Emit(TRef::Never),
            1 => Op::Free(t0),
            2 => Op::Load(t0, "F1ALT"),
            _ => Op::Required(t0),
        };
        let at = rng.range(1, ops.len());
        ops.insert(at, extra);
        return ops;
    }
    let root = ["R1", "R2", "SELF"][rng.below(3)];
    let mut ops = vec![Op::Initiate(root), Op::Load(t0, if rng.coin() { "F1" } else { "F1ALT" }), Op::Required(t0), Op::Load(t0, "F2"), Op::Emit(t0), Op::Free(t0)];
    // drop one step (but never the initiate), add one hostile step
    let k = rng.range(1, ops.len() - 1);
    if rng.coin() {
        ops.remove(k);
    }
    let extra = match rng.below(5) {
        0 => Op::Emit(TRef::Never),
        1 => Op::Load(t0, "BADF"),
        2 => Op::Free(t0),
        3 => Op::Initiate("BAD"),
        _ => Op::Load(t0, "F1"),
    };
    let at = rng.range(1, ops.len());
    ops.insert(at, extra);
    ops
}

/// run mode: "native" (exhaustive + random, model + shadow heap), "sanitizer" (random only, short)
pub fn run(ctx: &Ctx, rep: &mut Report) {
    run_mode(ctx, rep, "native");
}

pub fn run_mode(ctx: &Ctx, rep: &mut Report, mode: &str) {
    crate::panicguard::set_print(true);
    // self-check of the pool labels against nitrogql is implicit: a wrong label shows as a model violation
    let with_missing = true;
    let alpha = alphabet(with_missing);
    let mut total_ops = 0u64;
    let mut emits = 0u64;
    let mut nonlive = 0u64;
    let mut run_one = |ops: &[Op], rep: &mut Report, nontrivial: bool| {
        rep.trace_case(|| json!({"property":"C19","kind":"history","ops": ops.iter().map(op_json).collect::<Vec<_>>()}));
        let r = run_history(ops);
        rep.eval();
        total_ops += r.ops_run as u64;
        emits += r.emits_compared as u64;
        nonlive += r.nonlive_calls as u64;
        if nontrivial {
            let kinds: BTreeSet<u8> = ops
                .iter()
                .map(|o| match o {
                    Op::Initiate(_) => 0,
                    Op::Required(_) => 1,
                    Op::Load(..) => 2,
                    Op::Emit(_) => 3,
                    Op::Free(_) => 4,
                    Op::Config(_) => 5,
                })
                .collect();
            let second_or_dead = r.nonlive_calls > 0 || ops.iter().filter(|o| matches!(o, Op::Initiate(s) if *s != "BAD")).count() >= 2;
            if kinds.len() >= 2 && second_or_dead {
                rep.nontrivial(&format!("{ops:?}"));
            }
        }
        rep.violations(r.violations);
    };
    if mode == "native" {
        let maxlen = if ctx.thorough { 5 } else { 4 };
        let mut hist_count = 0u64;
        // length 5 (thorough tier) ranges over the 12 symbols that matter most for state (the full alphabet to the
        // fifth power would be ten million thread-isolated histories); lengths <= 4 range over the full alphabet
        let core: Vec<Op> = alpha.iter().filter(|o| matches!(o, Op::Initiate("R1") | Op::Initiate("BAD") | Op::Required(TRef::Issued(0)) | Op::Required(TRef::Next) | Op::Load(TRef::Issued(0), "F1") | Op::Load(TRef::Issued(0), "BADF") | Op::Load(TRef::Issued(1), "F1") | Op::Emit(TRef::Issued(0)) | Op::Emit(TRef::Issued(1)) | Op::Free(TRef::Issued(0)) | Op::Free(TRef::Issued(1)) | Op::Initiate("R2"))).cloned().collect();
        for len in 1..=maxlen {
            let alpha: &Vec<Op> = if len >= 5 { &core } else { &alpha };
            let n = alpha.len() as u64;
            let total = n.pow(len as u32);
            let mut code = ctx.shard;
            while code < total {
                let mut c = code;
                let ops: Vec<Op> = (0..len)
                    .map(|_| {
                        let o = alpha[(c % n) as usize].clone();
                        c /= n;
                        o
                    })
                    .collect();
                // sample the digest set (counting every history would store millions of hashes)
                run_one(&ops, rep, hist_count % 16 == 0);
                hist_count += 1;
                code += ctx.nshards;
            }
        }
        rep.add("exhaustive_histories", hist_count);
        rep.exhaustive = Some(true);
        rep.note(&format!("bounded-exhaustive: every history of length <= 4 over a {}-symbol alphabet (<= 2 tracked tasks + never-issued / zero / next ids){}", alpha.len(), if maxlen >= 5 { format!(", and every history of length 5 over its {}-symbol core", core.len()) } else { String::new() }));
    }
    // scripted scenarios that neither the short exhaustive histories nor the random ones are sure to reach: every order
    // of supplying the files of the two-directories project, a question after each step (repeated: the loader's own
    // file table is a hash map, so its visiting order changes from instance to instance)
    if mode != "miri" {
        let t0 = TRef::Issued(0);
        let names = ["G1", "G2", "GA", "GB"];
        let mut perms: Vec<Vec<&'static str>> = vec![];
        for a in 0..4 {
            for b in 0..4 {
                for c in 0..4 {
                    for d in 0..4 {
                        let p = [a, b, c, d];
                        let mut q = p.to_vec();
                        q.sort();
                        q.dedup();
                        if q.len() == 4 {
                            perms.push(p.iter().map(|i| names[*i]).collect());
                        }
                    }
                }
            }
        }
        for rep_n in 0..if mode == "native" { 6 } else { 1 } {
            for p in &perms {
                let mut ops = vec![Op::Initiate("R7"), Op::Required(t0)];
                for f in p {
                    ops.push(Op::Load(t0, f));
                    ops.push(Op::Required(t0));
                }
                ops.push(Op::Emit(t0));
                ops.push(Op::Free(t0));
                run_one(&ops, rep, rep_n == 0);
                rep.count("scripted_scenarios|two-directories-same-import-string");
            }
        }
    }
    // sources that begin with a byte order mark, as root and as a supplied file, supplied again and freed (every engine:
    // what the loader keeps of such a source is shorter than what it was handed)
    {
        let t0 = TRef::Issued(0);
        let t1 = TRef::Issued(1);
        for (k, ops) in [
            vec![Op::Initiate("RB"), Op::Required(t0), Op::Load(t0, "F1"), Op::Load(t0, "F2B"), Op::Required(t0), Op::Emit(t0), Op::Free(t0)],
            vec![Op::Initiate("R1"), Op::Load(t0, "F1"), Op::Load(t0, "F2B"), Op::Load(t0, "F2"), Op::Load(t0, "F2B"), Op::Emit(t0), Op::Initiate("RB"), Op::Free(t0), Op::Emit(t1), Op::Free(t1)],
            vec![Op::Initiate("RB"), Op::Free(t0), Op::Initiate("RB"), Op::Load(t1, "F2B"), Op::Free(t1)],
        ]
        .into_iter()
        .enumerate()
        {
            // (the interpreter is slow: its processes share the three histories between them)
            if mode == "miri" && ctx.nshards >= 3 && k as u64 != ctx.shard % 3 {
                continue;
            }
            run_one(&ops, rep, true);
            rep.count("scripted_scenarios|byte-order-mark-sources");
        }
    }
    let (q, t) = match mode {
        "native" => (6_000, 400_000),
        "asan" => (16_000, 1_000_000),
        "valgrind" => (3_000, 60_000),
        _ => (8, 64), // miri
    };
    let n = ctx.budget(q, t);
    for case in 0..n {
        let mut rng = ctx.rng(&format!("random-{mode}"), case);
        let ops = if mode == "miri" { miri_history(&mut rng, !ctx.thorough) } else { let len = rng.range(8, 60); random_history(&mut rng, len, with_missing) };
        if case == 0 && ctx.shard == 0 {
            rep.sample(json!({"mode": mode, "history": ops.iter().map(op_json).collect::<Vec<_>>()}));
        }
        run_one(&ops, rep, true);
        rep.count(&format!("random_histories_{mode}"));
    }
    rep.add(&format!("abi_calls_{mode}"), total_ops);
    rep.add(&format!("emits_compared_with_clean_room_{mode}"), emits);
    rep.add(&format!("calls_on_dead_or_unknown_ids_{mode}"), nonlive);
    if mode == "native" {
        rep.add("heap_allocs_observed", heapmon::ALLOCS.load(std::sync::atomic::Ordering::Relaxed));
        rep.add("heap_deallocs_checked", heapmon::DEALLOCS.load(std::sync::atomic::Ordering::Relaxed));
        rep.add("heap_live_bytes_at_end", heapmon::LIVE_BYTES.load(std::sync::atomic::Ordering::Relaxed));
        if heapmon::ALLOCS.load(std::sync::atomic::Ordering::Relaxed) == 0 {
            rep.note("shadow heap not installed in this binary (run through nqv-loader for the heap monitor)");
        }
    }
}

pub fn replay(case: &Value) -> Vec<Violation> {
    crate::panicguard::set_print(true);
    let ops: Vec<Op> = case["ops"].as_array().map(|a| a.iter().filter_map(op_from_json).collect()).unwrap_or_default();
    run_history(&ops).violations
}
