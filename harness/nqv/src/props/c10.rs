//! C10 — schema and resolver declaration files describe exactly the schema.

use std::collections::{BTreeMap, BTreeSet};
use std::rc::Rc;

use serde_json::{Value, json};

use crate::ctx::Ctx;
use crate::gen_schema::{SchemaOpts, gen_valid_schema, split_extensions};
use crate::genproj::GenConfig;
use crate::model::*;
use crate::pipeline::{ProjectInput, run_project};
use crate::refparse;
use crate::refts::{RefCx, ScalarMap, Target, union_canon};
use crate::render::{Feat, render_ts};
use crate::report::{Report, Violation, clip};
use crate::rng::Rng;
use crate::schema_ix::{BUILTIN_SCALARS, SchemaIx, merge_extensions};
use crate::ts::{self, Eval, NF, Stmt, Ty as TsTy};
use crate::validate::validate_type_system;

/// array readonly-ness is not part of the property: compare without it
fn norm(c: &str) -> String {
    c.replace("readonly (", "(")
}

fn classify_parse_failure(schema_text: &str) -> &'static str {
    // which hostile content is in play (descriptions end up in JSDoc comments)
    if schema_text.contains("*/") {
        "description-contains-comment-terminator"
    } else {
        "other"
    }
}

pub fn check_schema(schema_files: &[String], config_text: &str, scalars: &[(String, String)], allow_undefined: bool) -> Option<Vec<Violation>> {
    check_schema_plugins(schema_files, config_text, scalars, allow_undefined, 0)
}

/// `plugins`: 0 none, 1 model plugin, 2 model then graphql-scalars, 3 graphql-scalars then model (resolver printer only;
/// the schema files must then define `directive @model(type: String) on OBJECT | FIELD_DEFINITION` themselves)
pub fn check_schema_plugins(schema_files: &[String], config_text: &str, scalars: &[(String, String)], allow_undefined: bool, plugins: u8) -> Option<Vec<Violation>> {
    crate::pipeline::RESOLVER_PLUGINS.with(|c| c.set(plugins));
    let r = check_schema_inner(schema_files, config_text, scalars, allow_undefined, plugins);
    crate::pipeline::RESOLVER_PLUGINS.with(|c| c.set(0));
    r
}

fn check_schema_inner(schema_files: &[String], config_text: &str, scalars: &[(String, String)], allow_undefined: bool, plugins: u8) -> Option<Vec<Violation>> {
    let replay = json!({"property":"C10","kind":"schema","files":schema_files,"config":config_text,"scalars":scalars.iter().map(|(a,b)| json!([a,b])).collect::<Vec<_>>(),"allow_undefined":allow_undefined,"plugins":plugins});
    let mk = |sig: String, detail: String| Violation { sig, detail, replay: replay.clone() };
    let mut all = TsDoc::default();
    for f in schema_files {
        match refparse::parse_ts(f) {
            Ok(d) => all.defs.extend(d.defs),
            Err(e) => {
                if std::env::var("NQV_DEBUG_SKIP").is_ok() { eprintln!("SKIP refparse: {}:{} {} in {:?}", e.line, e.col, e.msg, f.lines().nth(e.line).unwrap_or("")); }
                return None;
            }
        }
    }
    if !validate_type_system(&all).is_empty() {
        if std::env::var("NQV_DEBUG_SKIP").is_ok() { eprintln!("SKIP ref-validator: {:?}", validate_type_system(&all).iter().map(|i| i.detail.clone()).collect::<Vec<_>>()); }
        return None;
    }
    let merged = merge_extensions(&all);
    let ix = SchemaIx::new(&merged);
    let sf: Vec<(String, String)> = schema_files.iter().enumerate().map(|(i, t)| (format!("/proj/schema/s{i}.graphql"), t.clone())).collect();
    let r = run_project(&ProjectInput { schema_files: &sf, op_files: &[], config: config_text, generate: false, check_only: false });
    let mut out = vec![];
    for (stage, p) in &r.panics {
        out.push(mk(format!("C10|panic|{}|{}", p.site(), p.msg_class()), format!("{stage}: {}", p.msg)));
    }
    if !r.schema_diags.is_empty() {
        if std::env::var("NQV_DEBUG_SKIP").is_ok() { eprintln!("SKIP diags: {:?}", r.schema_diags.iter().map(|d| d.message.clone()).collect::<Vec<_>>()); }
        return None; // C05's business
    }
    let Some(o) = &r.outputs else { return Some(out) };
    if !r.generate_errors.is_empty() {
        if std::env::var("NQV_DEBUG_SKIP").is_ok() { eprintln!("SKIP generr: {:?}", r.generate_errors); }
        return None; // e.g. scalar without a configured type: a legitimate refusal
    }
    let joined = schema_files.join("\n");
    // ---- well-formedness
    let loaded = match ts::load(&o.schema_dts, Some(&o.resolvers_dts)) {
        Ok(l) => l,
        Err(e) => {
            let which = if e.starts_with("schema module") { "schema-dts" } else { "resolvers-dts" };
            out.push(mk(format!("C10|{which}-does-not-parse|{}", classify_parse_failure(&joined)), format!("{e} — schema {:?}", clip(&joined, 500))));
            return Some(out);
        }
    };
    let ev = Eval::new(&loaded.prog);
    let sm = ScalarMap::new(&ix, scalars);
    let cx = RefCx { ix: &ix, scalars: &sm, allow_undefined_as_optional_input: allow_undefined };
    // ---- the four namespaces
    for t in Target::all() {
        let want_names = cx.names_in(t);
        for name in &want_names {
            let Some(nf) = loaded.eval_exported(&ev, loaded.schema_module, &[t.ns(), name]) else {
                out.push(mk(format!("C10|alias-missing|{}|{}", t.ns(), kind_word(&ix, name)), format!("{}.{name} is not exported", t.ns())));
                continue;
            };
            // what the alias denotes, seen from outside
            let want_ref = match cx.named(name, t) {
                Ok(w) => w,
                Err(_) => continue,
            };
            let got_ref = ts::canon(&ev, &nf);
            if norm(&got_ref) != norm(&want_ref) {
                out.push(mk(format!("C10|alias-denotation|{}|{}", t.ns(), kind_word(&ix, name)), format!("{}.{name} denotes `{got_ref}`, the schema says `{want_ref}`", t.ns())));
                continue;
            }
            // object-like aliases: the body
            if matches!(ix.kind(name), Some(TKind::Object) | Some(TKind::Input)) {
                let body = ts::canon(&ev, &ev.deref(&nf));
                match cx.object_body(name, t) {
                    Ok(want_body) => {
                        if norm(&body) != norm(&want_body) {
                            let cls = body_diff_class(&body, &want_body);
                            out.push(mk(format!("C10|object-body|{}|{}|{cls}", t.ns(), kind_word(&ix, name)), format!("{}.{name} is `{body}`, the schema says `{want_body}`", t.ns())));
                        }
                    }
                    Err(_) => {}
                }
            }
        }
        // nothing else but the schema's types may be exported under a schema-like name: extra exports are tolerated
    }
    // ---- resolvers
    out.extend(check_resolvers(&loaded, &ev, &cx, &mk, plugins != 0));
    for e in ev.errors.borrow().iter() {
        out.push(mk(format!("C10|evaluation-problem|{}", e.split(' ').take(3).collect::<Vec<_>>().join("-")), e.clone()));
    }
    out.sort_by(|a, b| a.sig.cmp(&b.sig));
    out.dedup_by(|a, b| a.sig == b.sig);
    Some(out)
}

fn kind_word(ix: &SchemaIx, name: &str) -> &'static str {
    match ix.kind(name) {
        Some(TKind::Scalar) => {
            if BUILTIN_SCALARS.contains(&name) {
                "builtin-scalar"
            } else {
                "custom-scalar"
            }
        }
        Some(TKind::Object) => "object",
        Some(TKind::Interface) => "interface",
        Some(TKind::Union) => "union",
        Some(TKind::Enum) => "enum",
        Some(TKind::Input) => "input-object",
        None => "?",
    }
}

fn body_diff_class(got: &str, want: &str) -> &'static str {
    let keys = |s: &str| -> BTreeSet<String> { s.trim_matches(|c| c == '{' || c == '}').split("; ").filter(|x| !x.is_empty()).map(|p| p.split(':').next().unwrap_or("").trim().to_string()).collect() };
    let (g, w) = (keys(got), keys(want));
    if g != w {
        let gs: BTreeSet<String> = g.iter().map(|k| k.replace("readonly ", "").replace('?', "")).collect();
        let ws: BTreeSet<String> = w.iter().map(|k| k.replace("readonly ", "").replace('?', "")).collect();
        if gs != ws { "field-set" } else { "field-modifiers" }
    } else {
        "field-type"
    }
}

fn alias_ast<'a>(stmts: &'a [Stmt], name: &str) -> Option<(&'a Vec<(String, Option<TsTy>)>, &'a TsTy)> {
    stmts.iter().find_map(|s| match s {
        Stmt::Alias { name: n, params, ty, .. } if n == name => Some((params, ty)),
        _ => None,
    })
}

fn check_resolvers(loaded: &ts::Loaded, ev: &Eval, cx: &RefCx, mk: &dyn Fn(String, String) -> Violation, model_plugin: bool) -> Vec<Violation> {
    let mut out = vec![];
    let Some(m) = loaded.other_module else { return out };
    let root = loaded.prog.modules[m];
    let Some(def) = loaded.prog.scopes[root].aliases.get("Resolvers") else {
        out.push(mk("C10|resolvers|Resolvers-type-missing".into(), "the resolvers module has no `Resolvers` type".into()));
        return out;
    };
    if !loaded.prog.scopes[root].exports.contains_key("Resolvers") {
        out.push(mk("C10|resolvers|Resolvers-not-exported".into(), "`Resolvers` is not exported".into()));
    }
    let TsTy::Obj(types) = &def.ty else {
        out.push(mk("C10|resolvers|Resolvers-not-an-object-type".into(), "`Resolvers` is not an object type".into()));
        return out;
    };
    let ix = cx.ix;
    // expected keys: every object type, every abstract type
    let mut want_keys: BTreeSet<String> = BTreeSet::new();
    for n in &ix.order {
        if matches!(ix.kind(n), Some(TKind::Object | TKind::Interface | TKind::Union)) {
            want_keys.insert(n.clone());
        }
    }
    let got_keys: BTreeSet<String> = types.iter().map(|m| m.name.clone()).collect();
    for k in want_keys.difference(&got_keys) {
        out.push(mk(format!("C10|resolvers|type-entry-missing|{}", kind_word(ix, k)), format!("Resolvers has no entry for {k}")));
    }
    for k in got_keys.difference(&want_keys) {
        out.push(mk("C10|resolvers|type-entry-extra".into(), format!("Resolvers has an entry for {k}, which is not an object or abstract type of the schema")));
    }
    // the type parameter (Context) is an opaque atom
    let mut env = BTreeMap::new();
    for p in &def.params {
        env.insert(p.clone(), NF::Atom(format!("<{p}>")));
    }
    let env = Rc::new(env);
    let evalc = |t: &TsTy| -> String { norm(&ts::canon(ev, &ev.eval(def.scope, t, &env))) };
    // what a resolver result / parent of GraphQL type looks like: ResolverOutput types, objects without __typename (inline bodies)
    // with the model plugin: an object with @model(type: "X") is X; any other object is the Pick of its @model fields
    // (possibly none); fields carrying @model need no resolver
    let object_model_type = |d: &TypeDef| -> Option<String> {
        if !model_plugin {
            return None;
        }
        d.dirs.iter().find(|x| x.name.s == "model").and_then(|x| match x.arg("type") {
            Some(Val::Str(s)) => Some(s.value.clone()),
            _ => None,
        })
    };
    let obj_body_no_typename = |name: &str| -> Option<String> {
        let d = ix.ty(name)?;
        if let Some(t) = object_model_type(d) {
            return crate::refts::scalar_text_canon(&t).ok();
        }
        let mut props: BTreeMap<String, String> = BTreeMap::new();
        for f in &d.fields {
            if model_plugin && !f.dirs.iter().any(|x| x.name.s == "model") {
                continue;
            }
            props.insert(f.name.s.clone(), format!("{}: {}; ", f.name.s, cx.ty(&f.ty, Target::ResolverOutput).ok()?));
        }
        Some(format!("{{{}}}", props.values().cloned().collect::<String>()))
    };
    let result_named = |name: &str| -> Option<String> {
        match ix.kind(name)? {
            TKind::Object => obj_body_no_typename(name),
            TKind::Interface | TKind::Union => {
                let mut v = vec![];
                for o in ix.possible(name) {
                    v.push(obj_body_no_typename(&o)?);
                }
                Some(union_canon(v))
            }
            _ => cx.named(name, Target::ResolverOutput).ok(),
        }
    };
    fn result_ty(ty: &Ty, named: &dyn Fn(&str) -> Option<String>) -> Option<String> {
        fn nn(ty: &Ty, named: &dyn Fn(&str) -> Option<String>) -> Option<String> {
            match ty {
                Ty::NonNull(i) => nn(i, named),
                Ty::List(i, _) => Some(format!("({})[]", result_ty(i, named)?)),
                Ty::Named(n) => named(&n.s),
            }
        }
        match ty {
            Ty::NonNull(i) => nn(i, named),
            other => Some(union_canon(vec![nn(other, named)?, "null".into()])),
        }
    }
    for tm in types {
        let TsTy::Obj(fields) = &tm.ty else {
            out.push(mk("C10|resolvers|type-entry-not-an-object".into(), format!("Resolvers.{} is not an object type", tm.name)));
            continue;
        };
        match ix.kind(&tm.name) {
            Some(TKind::Object) => {
                let d = ix.ty(&tm.name).unwrap();
                let whole_object_modelled = object_model_type(d).is_some();
                let want_fields: BTreeSet<String> = d.fields.iter().filter(|f| !model_plugin || whole_object_modelled || !f.dirs.iter().any(|x| x.name.s == "model")).map(|f| f.name.s.clone()).collect();
                let got_fields: BTreeSet<String> = fields.iter().map(|f| f.name.clone()).collect();
                for k in want_fields.difference(&got_fields) {
                    out.push(mk("C10|resolvers|field-resolver-missing".into(), format!("Resolvers.{}.{k} is missing", tm.name)));
                }
                for k in got_fields.difference(&want_fields) {
                    out.push(mk("C10|resolvers|field-resolver-extra".into(), format!("Resolvers.{}.{k} does not correspond to a field", tm.name)));
                }
                for fm in fields {
                    let Some(fd) = d.fields.iter().find(|f| f.name.s == fm.name) else { continue };
                    if fm.optional {
                        out.push(mk("C10|resolvers|field-resolver-optional".into(), format!("Resolvers.{}.{} is optional", tm.name, fm.name)));
                    }
                    let TsTy::Ref(path, args) = &fm.ty else {
                        out.push(mk("C10|resolvers|field-resolver-shape".into(), format!("Resolvers.{}.{} is not a __Resolver<...>", tm.name, fm.name)));
                        continue;
                    };
                    if path.join(".") != "__Resolver" || args.len() != 4 {
                        out.push(mk("C10|resolvers|field-resolver-shape".into(), format!("Resolvers.{}.{} is {:?} with {} arguments", tm.name, fm.name, path, args.len())));
                        continue;
                    }
                    // Parent
                    if let Some(wp) = obj_body_no_typename(&tm.name) {
                        let gp = evalc(&args[0]);
                        if gp != norm(&wp) {
                            out.push(mk("C10|resolvers|parent-type".into(), format!("Resolvers.{}.{}: parent is `{gp}`, expected `{wp}`", tm.name, fm.name)));
                        }
                    }
                    // Args
                    let mut ap: BTreeMap<String, String> = BTreeMap::new();
                    let mut ok = true;
                    for a in &fd.args {
                        match cx.ty(&a.ty, Target::ResolverInput) {
                            Ok(c) => {
                                ap.insert(a.name.s.clone(), format!("readonly {}: {c}; ", a.name.s));
                            }
                            Err(_) => ok = false,
                        }
                    }
                    if ok {
                        let want_args = format!("{{{}}}", ap.values().cloned().collect::<String>());
                        let got_args = evalc(&args[1]);
                        if got_args != norm(&want_args) {
                            out.push(mk(format!("C10|resolvers|args-type|{}", body_diff_class(&got_args, &want_args)), format!("Resolvers.{}.{}: Args is `{got_args}`, expected `{want_args}`", tm.name, fm.name)));
                        }
                    }
                    // Context is passed through
                    let gc = evalc(&args[2]);
                    if !gc.starts_with('<') {
                        out.push(mk("C10|resolvers|context-type".into(), format!("Resolvers.{}.{}: context argument is `{gc}`", tm.name, fm.name)));
                    }
                    // Result
                    if let Some(wr) = result_ty(&fd.ty, &result_named) {
                        let gr = evalc(&args[3]);
                        if gr != norm(&wr) {
                            out.push(mk("C10|resolvers|result-type".into(), format!("Resolvers.{}.{}: Result is `{gr}`, expected `{wr}` (field type {})", tm.name, fm.name, fd.ty.show())));
                        }
                    }
                }
            }
            Some(TKind::Interface) | Some(TKind::Union) => {
                let Some(rt) = fields.iter().find(|f| f.name == "__resolveType") else {
                    out.push(mk("C10|resolvers|type-resolver-missing".into(), format!("Resolvers.{} has no __resolveType", tm.name)));
                    continue;
                };
                let TsTy::Ref(path, args) = &rt.ty else { continue };
                if path.join(".") != "__TypeResolver" || args.len() != 3 {
                    out.push(mk("C10|resolvers|type-resolver-shape".into(), format!("Resolvers.{}.__resolveType is {:?}", tm.name, path)));
                    continue;
                }
                let possible = ix.possible(&tm.name);
                let want_names = union_canon(possible.iter().map(|p| format!("{p:?}")).collect());
                let got_names = evalc(&args[2]);
                if got_names != want_names {
                    out.push(mk("C10|resolvers|type-resolver-possible-types".into(), format!("Resolvers.{}.__resolveType returns `{got_names}`, possible types are `{want_names}`", tm.name)));
                }
                let mut bodies = vec![];
                for p in &possible {
                    if let Some(b) = obj_body_no_typename(p) {
                        bodies.push(b);
                    }
                }
                let want_obj = union_canon(bodies);
                let got_obj = evalc(&args[0]);
                if got_obj != norm(&want_obj) {
                    out.push(mk("C10|resolvers|type-resolver-object".into(), format!("Resolvers.{}.__resolveType takes `{got_obj}`, expected `{want_obj}`", tm.name)));
                }
            }
            _ => {}
        }
    }
    let _ = alias_ast;
    out
}

pub fn rename_type(doc: &mut TsDoc, old: &str, new: &str) {
    fn ty(t: &mut Ty, old: &str, new: &str) {
        match t {
            Ty::Named(n) => {
                if n.s == old {
                    n.s = new.to_string()
                }
            }
            Ty::List(i, _) => ty(i, old, new),
            Ty::NonNull(i) => ty(i, old, new),
        }
    }
    for d in doc.defs.iter_mut() {
        match d {
            TsDef::Type(t) => {
                if t.name.s == old {
                    t.name.s = new.to_string();
                }
                for i in t.implements.iter_mut().chain(t.members.iter_mut()) {
                    if i.s == old {
                        i.s = new.to_string();
                    }
                }
                for f in t.fields.iter_mut() {
                    ty(&mut f.ty, old, new);
                    for a in f.args.iter_mut() {
                        ty(&mut a.ty, old, new);
                    }
                }
                for f in t.input_fields.iter_mut() {
                    ty(&mut f.ty, old, new);
                }
            }
            TsDef::Directive(dd) => {
                for a in dd.args.iter_mut() {
                    ty(&mut a.ty, old, new);
                }
            }
            TsDef::Schema(s) => {
                for (_, n) in s.roots.iter_mut() {
                    if n.s == old {
                        n.s = new.to_string();
                    }
                }
            }
        }
    }
}

const SCALAR_TS: &[&str] = &["string", "number", "unknown", "Date", "string | number", "Record<string, unknown>", "Date | string", "bigint"];

pub fn gen_case(rng: &mut Rng) -> (Vec<String>, String, Vec<(String, String)>, bool, u8) {
    let mut so = SchemaOpts::default_for(rng);
    so.descriptions = true;
    so.hostile_text = rng.coin();
    so.interface_chains = true;
    let (mut schema, _) = gen_valid_schema(rng, &so);
    let ix0 = SchemaIx::new(&schema);
    let custom: Vec<String> = ix0.order.iter().filter(|t| ix0.kind(t) == Some(TKind::Scalar) && !BUILTIN_SCALARS.contains(&t.as_str())).cloned().collect();
    // name clash: a schema type named like an identifier of a scalar mapping
    if !custom.is_empty() && rng.chance(1, 3) {
        let victims: Vec<String> = ix0.order.iter().filter(|t| matches!(ix0.kind(t), Some(TKind::Object | TKind::Enum | TKind::Input | TKind::Union)) && !matches!(t.as_str(), "Query" | "Mutation" | "Subscription" | "RootQ" | "RootM" | "RootS")).cloned().collect();
        if let Some(v) = rng.pick_opt(&victims) {
            let new = rng.s(&["Date", "Record"]);
            if ix0.kind(new).is_none() {
                rename_type(&mut schema, v, new);
            }
        }
    }
    let mut scalars = vec![];
    for s in &custom {
        let v = match rng.below(4) {
            0 => format!("{}||{}", rng.s(SCALAR_TS), rng.s(SCALAR_TS)),
            1 => format!("{}||{}||{}||{}", rng.s(SCALAR_TS), rng.s(SCALAR_TS), rng.s(SCALAR_TS), rng.s(SCALAR_TS)),
            _ => rng.s(SCALAR_TS).to_string(),
        };
        scalars.push((s.clone(), v));
    }
    // sometimes remap ID as well
    if rng.chance(1, 6) {
        scalars.push(("ID".into(), "string".into()));
    }
    let mut shaped = if rng.coin() { split_extensions(&schema, rng) } else { schema };
    crate::gen_schema::scalars_via_directive(&mut shaped, &mut scalars, SCALAR_TS, rng);
    // the model plugin (resolver side): @model on whole objects (with a type) or on single fields
    let mut plugins = 0u8;
    if rng.chance(1, 4) && !shaped.defs.iter().any(|d| matches!(d, TsDef::Directive(dd) if dd.name.s == "model")) {
        plugins = 1 + rng.below(3) as u8;
        shaped.defs.push(TsDef::Directive(DirectiveDef { desc: None, p: P::none(), name: nm("model"), args: vec![InputValueDef { desc: None, name: nm("type"), ty: Ty::named("String"), default: None, dirs: vec![] }], repeatable: false, repeatable_p: P::none(), locations: vec![nm("OBJECT"), nm("FIELD_DEFINITION")] }));
        let mut whole: BTreeSet<String> = BTreeSet::new();
        for d in shaped.defs.iter_mut() {
            let TsDef::Type(t) = d else { continue };
            if t.kind != TKind::Object {
                continue;
            }
            if !t.ext && rng.chance(1, 4) {
                t.dirs.push(Dir::new("model", vec![("type", Val::str(rng.s(&["unknown", "string", "number | string"])))]));
                whole.insert(t.name.s.clone());
            }
        }
        for d in shaped.defs.iter_mut() {
            let TsDef::Type(t) = d else { continue };
            if t.kind != TKind::Object || whole.contains(&t.name.s) {
                continue;
            }
            for f in t.fields.iter_mut() {
                if rng.chance(1, 3) {
                    f.dirs.push(Dir::new("model", vec![]));
                }
            }
        }
    }
    let allow = rng.chance(2, 3);
    let mut cfg = GenConfig::basic();
    cfg.scalars = scalars.clone();
    cfg.allow_undefined_as_optional_input = Some(allow);
    cfg.schema_module_specifier = Some("@/schema".into());
    let config_text = cfg.render(&["./schema/*.graphql".to_string()], &["./ops/*.graphql".to_string()]);
    let nfiles = rng.range(1, 2).min(shaped.defs.len().max(1));
    let mut files: Vec<TsDoc> = (0..nfiles).map(|_| TsDoc::default()).collect();
    for d in &shaped.defs {
        let i = rng.below(nfiles);
        files[i].defs.push(d.clone());
    }
    files.retain(|f| !f.defs.is_empty());
    let texts = files.iter().map(|f| render_ts(f, None, Feat::plain())).collect();
    (texts, config_text, scalars, allow, plugins)
}

pub fn run(ctx: &Ctx, rep: &mut Report) {
    let st = ts::selftest();
    if !st.is_empty() {
        rep.inconclusive(format!("TypeScript evaluator self-test failed: {}", st.join("; ")));
        return;
    }
    crate::gen_syntax::set_allow_block(false);
    rep.note("feature mask: no block-string descriptions (C07)");
    let n = ctx.budget(24_000, 300_000);
    for case in 0..n {
        let mut rng = ctx.rng("case", case);
        let (files, config, scalars, allow, plugins) = gen_case(&mut rng);
        rep.trace_case(|| json!({"property":"C10","kind":"schema","files":files,"config":config,"scalars":scalars.iter().map(|(a,b)| json!([a,b])).collect::<Vec<_>>(),"allow_undefined":allow,"plugins":plugins}));
        rep.count(&format!("resolver_plugins|{}", ["none", "model", "model+graphql-scalars", "graphql-scalars+model"][plugins as usize]));
        rep.eval();
        match check_schema_plugins(&files, &config, &scalars, allow, plugins) {
            None => rep.count("skipped"),
            Some(vs) => {
                rep.count("schemas_compared");
                rep.nontrivial(&format!("{}\u{1}{config}", files.join("\u{1}")));
                rep.violations(vs);
            }
        }
        if case == 0 {
            rep.sample(json!({"files": files.iter().map(|f| clip(f, 500)).collect::<Vec<_>>(), "scalars": scalars, "allowUndefinedAsOptionalInput": allow}));
        }
    }
    rep.note("each compared schema: every type x 4 targets (alias denotation + object bodies), the whole Resolvers map (parent, args, context, result per field; type resolvers)");
}

pub fn replay(case: &Value) -> Vec<Violation> {
    let files: Vec<String> = case["files"].as_array().map(|a| a.iter().filter_map(|x| x.as_str().map(|s| s.to_string())).collect()).unwrap_or_default();
    let scalars: Vec<(String, String)> = case["scalars"].as_array().map(|a| a.iter().map(|x| (x[0].as_str().unwrap_or("").to_string(), x[1].as_str().unwrap_or("").to_string())).collect()).unwrap_or_default();
    check_schema_plugins(&files, case["config"].as_str().unwrap_or(""), &scalars, case["allow_undefined"].as_bool().unwrap_or(true), case["plugins"].as_u64().unwrap_or(0) as u8).unwrap_or_default()
}
