//! C06 — source maps. Library-level monitors:
//!   part 1: the real base64-VLQ encoder vs an independent decoder (exhaustive range)
//!   part 2: the real SourceWriter + MappingWriter vs a model of where the chunks really are
//! (part 3, end-to-end over CLI projects, lives in cli_props.rs)

use nitrogql_ast::base::{HasPos, Pos};
use serde_json::{Value, json};
use smw_shim::base64_vlq::base64_vlq;
use sourcemap_writer::{SourceMapWriter, SourceWriter};

use crate::ctx::Ctx;
use crate::panicguard::guarded;
use crate::report::{Report, Violation, clip};
use crate::rng::Rng;
use crate::srcmap::{decode_mappings, line_col_of, utf16_len, vlq_decode_exact};

fn check_vlq(n: isize) -> Option<Violation> {
    let replay = json!({"property":"C06","kind":"vlq","n": n as i64});
    match guarded(|| base64_vlq(n)) {
        Err(p) => Some(Violation { sig: format!("C06|vlq|panic|{}", p.site()), detail: format!("base64_vlq({n}) panicked: {}", p.msg), replay }),
        Ok(s) => match vlq_decode_exact(&s) {
            Err(e) => Some(Violation { sig: "C06|vlq|undecodable".into(), detail: format!("base64_vlq({n}) = {s:?}: {e}"), replay }),
            Ok(v) if v == n as i128 => {
                // canonical: no redundant trailing zero digit (except the single digit "A"/"B")
                None
            }
            Ok(v) => Some(Violation { sig: "C06|vlq|roundtrip".into(), detail: format!("decode(base64_vlq({n}) = {s:?}) = {v}"), replay }),
        },
    }
}

struct Node {
    pos: Pos,
    name: Option<String>,
}
impl HasPos for Node {
    fn position(&self) -> &Pos {
        &self.pos
    }
    fn name(&self) -> Option<&str> {
        self.name.as_deref()
    }
}

#[derive(Clone, Debug)]
enum Op {
    Write(String),
    WriteFor { chunk: String, line: usize, col: usize, file: usize, builtin: bool, name: Option<String> },
    Indent,
    Dedent,
}

fn op_json(o: &Op) -> Value {
    match o {
        Op::Write(s) => json!({"op":"write","chunk":s}),
        Op::WriteFor { chunk, line, col, file, builtin, name } => json!({"op":"write_for","chunk":chunk,"line":line,"col":col,"file":file,"builtin":builtin,"name":name}),
        Op::Indent => json!({"op":"indent"}),
        Op::Dedent => json!({"op":"dedent"}),
    }
}

fn op_from_json(v: &Value) -> Option<Op> {
    Some(match v["op"].as_str()? {
        "write" => Op::Write(v["chunk"].as_str()?.to_string()),
        "write_for" => Op::WriteFor {
            chunk: v["chunk"].as_str()?.to_string(),
            line: v["line"].as_u64()? as usize,
            col: v["col"].as_u64()? as usize,
            file: v["file"].as_u64()? as usize,
            builtin: v["builtin"].as_bool()?,
            name: v["name"].as_str().map(|s| s.to_string()),
        },
        "indent" => Op::Indent,
        "dedent" => Op::Dedent,
        _ => return None,
    })
}

const PLAIN: &[&str] = &[
    "export type ", " = ", "{\n", "}\n", "\n", "\n\n", "  ", "\t", ";", "readonly ", "𝒳𝒴", "é", "日本", " | null",
    "a\nb", "\n}", "/** x */\n", "", "x: ", "?: ", "<", ">", ",\n", "😀",
];
const NAMES: &[&str] = &["User", "id", "Query", "posts", "é", "𝒳", "__typename", "a", "b", "c", "d", "e", "f", "g", "h", "i", "j", "k", "l", "m", "n"];

fn gen_history(rng: &mut Rng) -> (Vec<Op>, Option<Vec<usize>>) {
    let n = rng.range(1, 40);
    let nfiles = rng.range(1, 4);
    let mapper = if rng.coin() {
        // mapper: some files map to other indices
        Some((0..nfiles).map(|i| (i + rng.below(3)) % 5).collect::<Vec<_>>())
    } else {
        None
    };
    let mut ops = vec![];
    let mut k = 0usize;
    for _ in 0..n {
        let r = rng.below(10);
        if r < 4 {
            ops.push(Op::Write(rng.pick(PLAIN).to_string()));
        } else if r < 8 {
            k += 1;
            let name = if rng.chance(3, 4) { Some(rng.pick(NAMES).to_string()) } else { None };
            let body = match &name {
                Some(n) if rng.coin() => n.clone(),
                _ => rng.pick(NAMES).to_string(),
            };
            // unique marker so that the chunk can be located in the final text
            let chunk = format!("\u{27E6}{k}\u{27E7}{body}");
            ops.push(Op::WriteFor {
                chunk,
                line: rng.below(50),
                col: rng.below(120),
                file: rng.below(nfiles),
                builtin: rng.chance(1, 10),
                name,
            });
        } else if r == 8 {
            ops.push(Op::Indent);
        } else {
            ops.push(Op::Dedent);
        }
    }
    (ops, mapper)
}

fn check_history(ops: &[Op], mapper: &Option<Vec<usize>>) -> Vec<Violation> {
    let replay = json!({"property":"C06","kind":"writer","ops": ops.iter().map(op_json).collect::<Vec<_>>(), "mapper": mapper});
    let mk = |sig: &str, detail: String| Violation { sig: format!("C06|writer|{sig}"), detail, replay: replay.clone() };
    let run = guarded(|| {
        let mut w = SourceWriter::new();
        if let Some(m) = mapper {
            w.set_file_index_mapper(m.clone());
        }
        for o in ops {
            match o {
                Op::Write(s) => w.write(s),
                Op::WriteFor { chunk, line, col, file, builtin, name } => {
                    let node = Node { pos: Pos { line: *line, column: *col, file: *file, builtin: *builtin }, name: name.clone() };
                    w.write_for(chunk, &node)
                }
                Op::Indent => w.indent(),
                Op::Dedent => w.dedent(),
            }
        }
        w.into_buffers()
    });
    let bufs = match run {
        Ok(b) => b,
        Err(p) => return vec![mk(&format!("panic|{}", p.site()), format!("SourceWriter panicked: {}", p.msg))],
    };
    let mut out = vec![];
    let text = &bufs.buffer;
    // text model: concatenation of chunks modulo indentation: removing all spaces must give the same stream
    let strip = |s: &str| s.chars().filter(|c| *c != ' ').collect::<String>();
    let expect_text: String = ops
        .iter()
        .map(|o| match o {
            Op::Write(s) => s.clone(),
            Op::WriteFor { chunk, .. } => chunk.clone(),
            _ => String::new(),
        })
        .collect();
    if strip(text) != strip(&expect_text) {
        out.push(mk("text-differs", format!("buffer {:?} is not the chunk stream {:?} modulo indentation", clip(text, 200), clip(&expect_text, 200))));
        return out;
    }
    let dec = match decode_mappings(&bufs.source_map) {
        Ok(d) => d,
        Err(e) => {
            out.push(mk("mappings-undecodable", format!("{e}: {:?}", clip(&bufs.source_map, 200))));
            return out;
        }
    };
    // expected segments
    #[derive(Debug)]
    struct Exp {
        gl: usize,
        gc: usize,
        strict_col: bool,
        src: (i64, i64, i64),
        name: Option<String>,
    }
    let mut exp: Vec<Exp> = vec![];
    for o in ops {
        if let Op::WriteFor { chunk, line, col, file, builtin, name } = o {
            if *builtin {
                continue;
            }
            let Some(byte) = text.find(chunk.as_str()) else {
                out.push(mk("chunk-missing", format!("chunk {chunk:?} not in buffer")));
                return out;
            };
            let (gl, gc, _) = line_col_of(text, byte);
            let (el, ec, _) = line_col_of(text, byte + chunk.len());
            let f = match mapper {
                Some(m) => m[*file] as i64,
                None => *file as i64,
            };
            match name {
                Some(n) => {
                    exp.push(Exp { gl, gc, strict_col: true, src: (f, *line as i64, *col as i64), name: Some(n.clone()) });
                    exp.push(Exp { gl: el, gc: ec, strict_col: true, src: (f, *line as i64, (*col + utf16_len(n)) as i64), name: None });
                }
                None => exp.push(Exp { gl, gc, strict_col: false, src: (f, *line as i64, *col as i64), name: None }),
            }
        }
    }
    if dec.segs.len() != exp.len() {
        out.push(mk("segment-count", format!("{} segments decoded, {} expected; mappings {:?}", dec.segs.len(), exp.len(), clip(&bufs.source_map, 200))));
        return out;
    }
    let lines: Vec<&str> = text.split('\n').collect();
    let mut prev = (-1i64, -1i64);
    for (s, e) in dec.segs.iter().zip(exp.iter()) {
        if (s.gen_line, s.gen_col) < prev {
            out.push(mk("segments-unordered", format!("segment {s:?} precedes {prev:?}")));
        }
        prev = (s.gen_line, s.gen_col);
        if s.gen_line as usize >= lines.len() || s.gen_col < 0 || s.gen_col as usize > utf16_len(lines[s.gen_line as usize]) {
            out.push(mk("segment-outside-text", format!("segment {s:?} outside generated text")));
            continue;
        }
        let col_ok = if e.strict_col {
            s.gen_col as usize == e.gc
        } else {
            // nameless: at the chunk, or inside the indentation right before it
            s.gen_col as usize == e.gc || ((s.gen_col as usize) < e.gc && lines[e.gl].chars().take(e.gc).skip(s.gen_col as usize).all(|c| c == ' '))
        };
        if s.gen_line as usize != e.gl || !col_ok {
            out.push(mk(if e.name.is_some() { "generated-position|named-start" } else if e.strict_col { "generated-position|named-end" } else { "generated-position|nameless" }, format!("segment {s:?} but chunk is at line {} col {}", e.gl, e.gc)));
        }
        if s.src != Some(e.src) {
            out.push(mk("original-position", format!("segment {s:?} but expected original {:?}", e.src)));
        }
        match (&e.name, s.name) {
            (None, None) => {}
            (Some(n), Some(i)) => {
                if i < 0 || bufs.names.get(i as usize) != Some(n) {
                    out.push(mk("name-index", format!("segment {s:?} names[{i}] = {:?}, expected {n:?}", bufs.names.get(i.max(0) as usize))));
                }
            }
            (a, b) => out.push(mk("name-presence", format!("segment {s:?}: expected name {a:?}, got index {b:?}"))),
        }
    }
    out
}

pub fn run_lib(ctx: &Ctx, rep: &mut Report) {
    // part 1: exhaustive VLQ range
    let lim: isize = 1 << 22;
    let mut n = -lim + ctx.shard as isize;
    let mut cnt = 0u64;
    while n <= lim {
        if let Some(v) = check_vlq(n) {
            rep.violation(v);
        }
        cnt += 1;
        n += ctx.nshards as isize;
    }
    if ctx.shard == 0 {
        let mut specials = vec![isize::MIN, isize::MAX, isize::MIN + 1, isize::MAX - 1];
        for k in 0..63 {
            for d in [-1isize, 0, 1] {
                specials.push((1isize << k).wrapping_add(d));
                specials.push((1isize << k).wrapping_add(d).wrapping_neg());
            }
        }
        for s in specials {
            if let Some(v) = check_vlq(s) {
                rep.violation(v);
            }
            cnt += 1;
        }
    }
    rep.add("vlq_values", cnt);
    rep.evaluations += cnt;
    rep.note("VLQ part: exhaustive over [-2^22, 2^22] plus isize boundary values and ±2^k±1");
    // part 2: writer histories
    let n = ctx.budget(200_000, 4_000_000);
    for case in 0..n {
        let mut rng = ctx.rng("writer", case);
        let (ops, mapper) = gen_history(&mut rng);
        rep.eval();
        rep.count("writer_histories");
        let nwf = ops.iter().filter(|o| matches!(o, Op::WriteFor { .. })).count();
        if nwf >= 2 {
            rep.nontrivial(&format!("{:?}{:?}", ops, mapper));
        }
        rep.add("writer_write_for_calls", nwf as u64);
        if case == 0 {
            rep.sample(json!({"kind":"writer-history","ops": ops.iter().take(8).map(op_json).collect::<Vec<_>>(), "mapper": mapper}));
        }
        rep.violations(check_history(&ops, &mapper));
    }
}

pub fn replay(case: &Value) -> Vec<Violation> {
    match case["kind"].as_str() {
        Some("vlq") => check_vlq(case["n"].as_i64().unwrap_or(0) as isize).into_iter().collect(),
        Some("writer") => {
            let ops: Vec<Op> = case["ops"].as_array().map(|a| a.iter().filter_map(op_from_json).collect()).unwrap_or_default();
            let mapper = case["mapper"].as_array().map(|a| a.iter().map(|x| x.as_u64().unwrap_or(0) as usize).collect());
            check_history(&ops, &mapper)
        }
        _ => vec![],
    }
}
