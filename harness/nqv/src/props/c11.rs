//! C11 — schema extensions merge into their definitions without loss or invention.

use std::collections::BTreeMap;

use serde_json::{Value, json};

use crate::ctx::Ctx;
use crate::gen_syntax::{gen_ts_def, gen_type_def};
use crate::model::*;
use crate::real::{ResolveOutcome, resolve_files};
use crate::refparse;
use crate::render::{Feat, render_ts};
use crate::report::{Report, Violation, clip};
use crate::rng::Rng;

/// key of a definition / extension: (class, name)
fn key_of(d: &TsDef) -> Option<(String, String, bool, P)> {
    match d {
        TsDef::Schema(s) => Some(("schema".into(), String::new(), s.ext, s.p)),
        TsDef::Type(t) => Some((t.kind.keyword().to_string(), t.name.s.clone(), t.ext, t.p)),
        TsDef::Directive(_) => None,
    }
}

pub struct RefMerge {
    pub merged: Vec<TsDef>,
    /// offending items: (file, line, col) acceptable as error positions; empty = must succeed
    pub offenders: Vec<(usize, u32, u32, u32)>,
    pub fault_kinds: Vec<String>,
}

/// reference merge over documents given per file
pub fn reference_merge(files: &[TsDoc]) -> RefMerge {
    let mut order: Vec<(String, String)> = vec![];
    let mut originals: BTreeMap<(String, String), Vec<(usize, TsDef)>> = BTreeMap::new();
    let mut exts: BTreeMap<(String, String), Vec<(usize, TsDef)>> = BTreeMap::new();
    let mut directives = vec![];
    for (fi, doc) in files.iter().enumerate() {
        for d in &doc.defs {
            match key_of(d) {
                None => directives.push(d.clone()),
                Some((class, name, ext, _)) => {
                    let k = (class, name);
                    if !order.contains(&k) {
                        order.push(k.clone());
                    }
                    if ext { exts.entry(k).or_default().push((fi, d.clone())) } else { originals.entry(k).or_default().push((fi, d.clone())) }
                }
            }
        }
    }
    let mut offenders = vec![];
    let mut fault_kinds = vec![];
    let mut merged = directives;
    for k in &order {
        let origs = originals.get(k).cloned().unwrap_or_default();
        let es = exts.get(k).cloned().unwrap_or_default();
        if origs.len() > 1 {
            fault_kinds.push(format!("duplicate-original:{}", k.0));
            for (fi, d) in &origs {
                let p = key_of(d).unwrap().3;
                offenders.push((*fi, p.line, p.col, p.col16));
                // a definition with a description may be reported at the description
                if let TsDef::Schema(s) = d {
                    if let Some(ds) = &s.desc {
                        offenders.push((*fi, ds.p.line, ds.p.col, ds.p.col16));
                    }
                }
            }
            continue;
        }
        if origs.is_empty() {
            fault_kinds.push(format!("orphan-extension:{}", k.0));
            for (fi, d) in &es {
                let p = key_of(d).unwrap().3;
                offenders.push((*fi, p.line, p.col, p.col16));
            }
            continue;
        }
        let mut base = origs[0].1.clone();
        for (_, e) in &es {
            match (&mut base, e) {
                (TsDef::Schema(b), TsDef::Schema(x)) => {
                    b.dirs.extend(x.dirs.clone());
                    b.roots.extend(x.roots.clone());
                }
                (TsDef::Type(b), TsDef::Type(x)) => {
                    b.dirs.extend(x.dirs.clone());
                    b.implements.extend(x.implements.clone());
                    b.fields.extend(x.fields.clone());
                    b.members.extend(x.members.clone());
                    b.values.extend(x.values.clone());
                    b.input_fields.extend(x.input_fields.clone());
                }
                _ => {}
            }
        }
        merged.push(base);
    }
    RefMerge { merged, offenders, fault_kinds }
}

fn multiset(defs: &[TsDef]) -> Vec<String> {
    let mut v: Vec<String> = defs.iter().map(|d| canon(&tsdef_node(d))).collect();
    v.sort();
    v
}

pub fn check_files(texts: &[String]) -> Option<Vec<Violation>> {
    let replay = json!({"property":"C11","kind":"files","files":texts});
    let mk = |sig: String, detail: String| Violation { sig, detail, replay: replay.clone() };
    let mut docs = vec![];
    for t in texts {
        match refparse::parse_ts(t) {
            Ok(d) => docs.push(d),
            Err(_) => return None,
        }
    }
    let rm = reference_merge(&docs);
    let mut out = vec![];
    match resolve_files(texts, false) {
        ResolveOutcome::ParseFail(_, _) => return None, // C07's business
        ResolveOutcome::Panic(p) => out.push(mk(format!("C11|panic|{}|{}", p.site(), p.msg_class()), format!("resolve_schema_extensions panicked: {} at {}:{}", p.msg, p.file, p.line))),
        ResolveOutcome::Err(e) => {
            if rm.offenders.is_empty() {
                out.push(mk("C11|fails-without-fault".into(), format!("resolve failed ({}) although there is neither a duplicate original nor an orphan extension; files {:?}", e.msg, clip(&texts.join("\n---\n"), 500))));
            } else {
                match e.pos {
                    None => out.push(mk("C11|error-without-position".into(), format!("error {:?} has no position", e.msg))),
                    Some((f, l, c)) => {
                        let ok = rm.offenders.iter().any(|(of, ol, oc, oc16)| *of == f && *ol as usize == l && (*oc as usize == c || *oc16 as usize == c));
                        if !ok {
                            out.push(mk("C11|error-position-not-at-offender".into(), format!("error {:?} at file {f} line {l} col {c}, offending items are at {:?}", e.msg, rm.offenders)));
                        }
                    }
                }
            }
        }
        ResolveOutcome::Ok(d) => {
            if !rm.offenders.is_empty() {
                let class = rm.fault_kinds[0].clone();
                out.push(mk(format!("C11|succeeds-with-fault|{class}"), format!("resolve succeeded although the document has {:?}; files {:?}", rm.fault_kinds, clip(&texts.join("\n---\n"), 500))));
            } else {
                if d.defs.iter().any(|x| matches!(x, TsDef::Schema(s) if s.ext) || matches!(x, TsDef::Type(t) if t.ext)) {
                    out.push(mk("C11|extension-survives".into(), "an extend item is present in the resolved document".into()));
                }
                let want = multiset(&rm.merged);
                let got = multiset(&d.defs);
                if want != got {
                    // find the first definition that differs for a useful signature
                    let mut sig = "C11|merge-differs|count".to_string();
                    let mut detail = format!("{} definitions expected, {} produced", want.len(), got.len());
                    for wd in &rm.merged {
                        let wn = tsdef_node(wd);
                        let c = canon(&wn);
                        if !got.contains(&c) {
                            // the produced definition of the same kind and name
                            let g = d.defs.iter().map(tsdef_node).find(|g| g.kind == wn.kind && g.label == wn.label);
                            match g {
                                Some(g) => {
                                    let ds = diff_nodes(&wn, &g, false);
                                    if let Some(df) = ds.first() {
                                        sig = format!("C11|merge-differs|{}|{}|{}", wn.kind, df.what, df.site());
                                        detail = df.detail.clone();
                                    }
                                }
                                None => {
                                    sig = format!("C11|merge-differs|{}|missing", wn.kind);
                                    detail = format!("definition {} {:?} missing from the result", wn.kind, wn.label);
                                }
                            }
                            break;
                        }
                    }
                    out.push(mk(sig, format!("{detail}; files {:?}", clip(&texts.join("\n---\n"), 600))));
                }
            }
        }
    }
    Some(out)
}

/// the multiset of resolved definitions (None if resolve failed / panicked)
fn real_multiset(texts: &[String]) -> Option<Vec<String>> {
    match resolve_files(texts, false) {
        ResolveOutcome::Ok(d) => Some(multiset(&d.defs)),
        _ => None,
    }
}

const TYPE_NAMES: &[&str] = &["A", "B", "C", "D", "Query"];

fn gen_case(rng: &mut Rng) -> Vec<TsDef> {
    let mut defs = vec![];
    let hostile = rng.chance(1, 4);
    let ntypes = rng.range(1, 4);
    let fault = if rng.chance(1, 3) { rng.range(1, 4) } else { 0 };
    for i in 0..ntypes {
        let name = TYPE_NAMES[i];
        let kind = *rng.pick(&TKind::all());
        defs.push(TsDef::Type(gen_type_def(rng, kind, false, hostile, Some(name))));
        for _ in 0..rng.below(4) {
            defs.push(TsDef::Type(gen_type_def(rng, kind, true, hostile, Some(name))));
        }
        if rng.chance(1, 6) {
            // same name, other kind: not this stage's business, both must pass through
            let other = *rng.pick(&TKind::all());
            if other != kind {
                defs.push(TsDef::Type(gen_type_def(rng, other, false, hostile, Some(name))));
            }
        }
    }
    if rng.coin() {
        let mk_schema = |rng: &mut Rng, ext: bool| loop {
            if let TsDef::Schema(mut s) = gen_ts_def_schema(rng, hostile) {
                s.ext = ext;
                if ext {
                    s.desc = None;
                    if s.dirs.is_empty() && s.roots.is_empty() {
                        s.dirs = vec![Dir::new("d", vec![])];
                    }
                } else if s.roots.is_empty() {
                    s.roots.push((OpKind::Query, nm("Query")));
                }
                return TsDef::Schema(s);
            }
        };
        if rng.chance(4, 5) {
            defs.push(mk_schema(rng, false));
        }
        for _ in 0..rng.below(3) {
            defs.push(mk_schema(rng, true));
        }
        if rng.chance(1, 8) {
            defs.push(mk_schema(rng, false));
        }
    }
    for _ in 0..rng.below(3) {
        loop {
            let d = gen_ts_def(rng, hostile);
            if matches!(d, TsDef::Directive(_)) {
                defs.push(d);
                break;
            }
        }
    }
    match fault {
        1 => {
            // duplicate original of an existing type, same kind
            if let Some(TsDef::Type(t)) = defs.iter().find(|d| matches!(d, TsDef::Type(t) if !t.ext)).cloned() {
                defs.push(TsDef::Type(gen_type_def(rng, t.kind, false, hostile, Some(&t.name.s))));
            }
        }
        2 => {
            // orphan extension: a name that is never defined
            let kind = *rng.pick(&TKind::all());
            defs.push(TsDef::Type(gen_type_def(rng, kind, true, hostile, Some("Zorphan"))));
        }
        3 => {
            // extension of another kind than the definition
            if let Some(TsDef::Type(t)) = defs.iter().find(|d| matches!(d, TsDef::Type(t) if !t.ext)).cloned() {
                let other = TKind::all().into_iter().find(|k| *k != t.kind && !defs.iter().any(|d| matches!(d, TsDef::Type(x) if !x.ext && x.kind == *k && x.name.s == t.name.s))).unwrap();
                defs.push(TsDef::Type(gen_type_def(rng, other, true, hostile, Some(&t.name.s))));
            }
        }
        4 => {
            // orphan schema extension
            defs.retain(|d| !matches!(d, TsDef::Schema(s) if !s.ext));
            defs.push(TsDef::Schema(SchemaDef { ext: true, desc: None, p: P::none(), dirs: vec![Dir::new("x", vec![])], roots: vec![] }));
        }
        _ => {}
    }
    defs
}

fn gen_ts_def_schema(rng: &mut Rng, hostile: bool) -> TsDef {
    loop {
        let d = gen_ts_def(rng, hostile);
        if matches!(d, TsDef::Schema(_)) {
            return d;
        }
    }
}

/// random permutation that keeps the relative order of extensions with the same key
fn order_preserving_shuffle(defs: &[TsDef], rng: &mut Rng) -> Vec<TsDef> {
    let mut shuffled: Vec<TsDef> = defs.to_vec();
    rng.shuffle(&mut shuffled);
    // restore relative order of same-key extensions: walk keys, collect slots, refill in original order
    let mut by_key: BTreeMap<(String, String), Vec<TsDef>> = BTreeMap::new();
    for d in defs {
        if let Some((c, n, true, _)) = key_of(d) {
            by_key.entry((c, n)).or_default().push(d.clone());
        }
    }
    let mut cursor: BTreeMap<(String, String), usize> = BTreeMap::new();
    for d in shuffled.iter_mut() {
        if let Some((c, n, true, _)) = key_of(d) {
            let k = (c, n);
            let i = cursor.entry(k.clone()).or_insert(0);
            *d = by_key[&k][*i].clone();
            *i += 1;
        }
    }
    shuffled
}

/// split into contiguous files, so that concatenating the files gives back the same document order
fn split_files(defs: &[TsDef], rng: &mut Rng) -> Vec<TsDoc> {
    let nfiles = rng.range(1, 3);
    let mut files: Vec<TsDoc> = (0..nfiles).map(|_| TsDoc::default()).collect();
    let mut cur = 0;
    for (i, d) in defs.iter().enumerate() {
        if cur + 1 < nfiles && i > 0 && rng.chance(nfiles as u32, defs.len().max(1) as u32) {
            cur += 1;
        }
        files[cur].defs.push(d.clone());
    }
    files.retain(|f| !f.defs.is_empty());
    files
}

pub fn run(ctx: &Ctx, rep: &mut Report) {
    crate::gen_syntax::set_allow_block(false);
    rep.note("feature mask: no block strings (their raw-value defect belongs to C07)");
    let n = ctx.budget(32_000, 800_000);
    for case in 0..n {
        let mut rng = ctx.rng("case", case);
        let defs = gen_case(&mut rng);
        let render = |docs: &[TsDoc], rng: &mut Rng| -> Vec<String> {
            docs.iter().map(|d| if rng.chance(1, 3) { render_ts(d, Some(rng), Feat::hostile()) } else { render_ts(d, None, Feat::plain()) }).collect()
        };
        let base_files = split_files(&defs, &mut rng);
        let base_texts = render(&base_files, &mut rng);
        let rm = reference_merge(&base_files);
        rep.eval();
        if rm.offenders.is_empty() { rep.count("valid_cases") } else { rep.count(&format!("fault_cases:{}", rm.fault_kinds[0])) };
        let n_ext = defs.iter().filter(|d| key_of(d).is_some_and(|k| k.2)).count();
        rep.add("extension_items", n_ext as u64);
        if n_ext >= 1 {
            rep.nontrivial(&base_texts.join("\u{1}"));
        }
        if case == 0 {
            rep.sample(json!({"files": base_texts.iter().map(|t| clip(t, 500)).collect::<Vec<_>>(), "faults": rm.fault_kinds}));
        }
        match check_files(&base_texts) {
            None => {
                rep.count("not_in_language_or_parse_fail");
            }
            Some(vs) => rep.violations(vs),
        }
        // order-preserving permutations and other file splits: result must not change
        let base_ms = real_multiset(&base_texts);
        for _ in 0..3 {
            let perm = order_preserving_shuffle(&defs, &mut rng);
            let files = split_files(&perm, &mut rng);
            let texts = render(&files, &mut rng);
            rep.eval();
            rep.count("permutations");
            if let Some(vs) = check_files(&texts) {
                rep.violations(vs);
            }
            let ms = real_multiset(&texts);
            if ms != base_ms {
                // compare only when both parse (a hostile rendering may hit a known parse defect)
                let parsed_both = !matches!(resolve_files(&texts, false), ResolveOutcome::ParseFail(..)) && !matches!(resolve_files(&base_texts, false), ResolveOutcome::ParseFail(..));
                if parsed_both {
                    rep.violation(Violation {
                        sig: "C11|permutation-changes-result".into(),
                        detail: format!("resolve differs between a document and an order-preserving permutation / other file split of it: {:?} vs {:?}", clip(&base_texts.join("\n---\n"), 300), clip(&texts.join("\n---\n"), 300)),
                        replay: json!({"property":"C11","kind":"pair","a":base_texts,"b":texts}),
                    });
                }
            }
        }
    }
}

pub fn replay(case: &Value) -> Vec<Violation> {
    let strs = |v: &Value| -> Vec<String> { v.as_array().map(|a| a.iter().filter_map(|x| x.as_str().map(|s| s.to_string())).collect()).unwrap_or_default() };
    match case["kind"].as_str() {
        Some("files") => check_files(&strs(&case["files"])).unwrap_or_default(),
        Some("pair") => {
            let (a, b) = (strs(&case["a"]), strs(&case["b"]));
            let mut out = vec![];
            out.extend(check_files(&a).unwrap_or_default());
            out.extend(check_files(&b).unwrap_or_default());
            if real_multiset(&a) != real_multiset(&b) {
                out.push(Violation { sig: "C11|permutation-changes-result".into(), detail: "results differ".into(), replay: case.clone() });
            }
            out
        }
        _ => vec![],
    }
}
