//! C16 — the emitted server schema re-parses to the schema that was checked; printing any
//! parsed document and re-parsing it yields the same document.

use std::time::Duration;

use serde_json::{Value, json};

use crate::cli;
use crate::ctx::Ctx;
use crate::gen_schema::{SchemaOpts, gen_valid_schema, split_extensions};
use crate::gen_syntax::{ExecOpts, gen_exec_doc, gen_ts_doc};
use crate::jsread::{eval_template, read_schema_module};
use crate::model::*;
use crate::real::{self, Fail};
use crate::refparse;
use crate::render::{Feat, render_exec, render_ts};
use crate::report::{Report, Violation, clip};
use crate::schema_ix::{BUILTIN_SCALARS, builtin_directives, merge_extensions};

fn has_quote_hazard(want: &Node) -> bool {
    fn any(n: &Node, f: &dyn Fn(&Node) -> bool) -> bool {
        f(n) || n.kids.iter().any(|k| any(k, f))
    }
    // a block string is kept raw by the parser (C07's finding); when its raw text has no newline it is printed back in
    // single-line form, unescaped like any other single-line string: a quote or backslash in it is the same hazard
    any(want, &|n| matches!(n.kind, "StringValue" | "Description" | "ImportPath") && (n.tag.starts_with("block") || !n.label.contains('\n')) && (n.label.contains('"') || n.label.contains('\\')))
}

const QUOTE_SIG: &str = "C16|document-has-single-line-string-with-quote-or-backslash";

/// would printing `v` verbatim between `"""` delimiters denote `v` again under the spec's BlockStringValue()?
fn block_print_is_exact(v: &str) -> bool {
    if v.contains('\r') || v.ends_with('"') || v.ends_with('\\') || v.contains("\\\"") || v.contains("\"\"\"") {
        return false;
    }
    let lines: Vec<&str> = v.split('\n').collect();
    let blank = |l: &str| l.chars().all(|c| c == ' ' || c == '\t');
    if blank(lines[0]) || blank(lines[lines.len() - 1]) {
        return false;
    }
    // common indentation of the lines after the first that are not blank
    let indent = lines[1..].iter().filter(|l| !blank(l)).map(|l| l.chars().take_while(|c| *c == ' ' || *c == '\t').count()).min();
    matches!(indent, None | Some(0))
}

fn diff_sigs(prefix: &str, want: &Node, got: &Node) -> Vec<(String, String)> {
    if has_quote_hazard(want) {
        // print_string does not escape '"' and '\\' in single-line strings (known finding): the printed text of such a
        // document can differ anywhere, so every disagreement in it is attributed to that one defect
        return diff_nodes(want, got, false).into_iter().take(1).map(|d| (QUOTE_SIG.to_string(), d.detail)).collect();
    }
    diff_nodes(want, got, false)
        .into_iter()
        .map(|d| {
            let is_string = d.path.last().is_some_and(|k| matches!(*k, "StringValue" | "Description" | "ImportPath"));
            if d.what == "label" && is_string {
                // one defect per class of string, wherever the string sits
                // block-source: written as a block string in the source (nitrogql keeps those raw, C07's finding, and
                // prints the raw text back); cooked-multi-line: a quoted string whose value contains a newline (printed
                // as a block string); single-line: everything else
                let class = if d.tag.starts_with("block") {
                    "block-source"
                } else if d.want_label.contains('\n') {
                    // printed as `"""` + value + `"""`: exact unless BlockStringValue() would strip indentation or blank
                    // first/last lines, normalise a CR, or the closing quotes would run into a trailing `"` (the listed
                    // finding); a multi-line value with none of that must survive
                    if block_print_is_exact(&d.want_label) { "multi-line-safe-for-block-printing" } else { "cooked-multi-line" }
                } else if d.want_label.contains('"') || d.want_label.contains('\\') {
                    "single-line-with-quote-or-backslash"
                } else {
                    "single-line"
                };
                // known weak spots are one defect each whatever the route
                if class == "single-line" { (format!("{prefix}|string-value|{class}"), d.detail) } else { (format!("C16|string-value|{class}"), d.detail) }
            } else {
                (format!("{prefix}|{}|{}", d.what, d.site()), d.detail)
            }
        })
        .collect()
}

/// general clause: parse (nitrogql) -> print (nitrogql) -> reference parse == reference parse of the original
pub fn check_roundtrip(grammar: &str, text: &str) -> Option<Vec<Violation>> {
    let replay = json!({"property":"C16","kind":"roundtrip","grammar":grammar,"text":text});
    let mk = |sig: String, detail: String| Violation { sig, detail, replay: replay.clone() };
    let mut out = vec![];
    if grammar == "op" {
        let want = refparse::parse_exec(text).ok()?;
        match real::parse_and_print_exec(text) {
            Err(Fail::Panic(p)) => out.push(mk(format!("C16|roundtrip|op|panic|{}|{}", p.site(), p.msg_class()), format!("printing panicked: {}", p.msg))),
            Err(Fail::Err(..)) => return None, // C07's business
            Ok((printed_ext, printed_resolved)) => {
                let mut candidates = vec![("ext", printed_ext, execdoc_node(&want))];
                if let Some(p) = printed_resolved {
                    let without_imports = ExecDoc { defs: want.defs.iter().filter(|d| !matches!(d, ExecDef::Import(_))).cloned().collect() };
                    if !without_imports.defs.is_empty() {
                        candidates.push(("doc", p, execdoc_node(&without_imports)));
                    }
                }
                for (which, printed, want_node) in candidates {
                    match refparse::parse_exec(&printed) {
                        Err(e) => {
                            let cls = classify_unparsable(&want_node);
                            out.push(mk(if cls == "quote-hazard" { QUOTE_SIG.to_string() } else if cls.starts_with("has-") { format!("C16|printed-text-does-not-parse|{cls}") } else { format!("C16|roundtrip|op|{which}|printed-text-does-not-parse|{cls}") }, format!("{}:{} {} — printed {:?} from {:?}", e.line, e.col, e.msg, clip(&printed, 400), clip(text, 300))));
                        }
                        Ok(got) => {
                            for (sig, detail) in diff_sigs(&format!("C16|roundtrip|op|{which}"), &want_node, &execdoc_node(&got)) {
                                out.push(mk(sig, format!("{detail} — printed {:?} from {:?}", clip(&printed, 400), clip(text, 300))));
                            }
                        }
                    }
                }
            }
        }
    } else {
        let want = refparse::parse_ts(text).ok()?;
        match real::parse_and_print_ts(text) {
            Err(Fail::Panic(p)) => out.push(mk(format!("C16|roundtrip|ts|panic|{}|{}", p.site(), p.msg_class()), format!("printing panicked: {}", p.msg))),
            Err(Fail::Err(..)) => return None,
            Ok((plain, js)) => {
                let want_node = tsdoc_node(&want);
                match refparse::parse_ts(&plain) {
                    Err(e) => {
                        let cls = classify_unparsable(&want_node);
                        out.push(mk(if cls == "quote-hazard" { QUOTE_SIG.to_string() } else if cls.starts_with("has-") { format!("C16|printed-text-does-not-parse|{cls}") } else { format!("C16|roundtrip|ts|printed-text-does-not-parse|{cls}") }, format!("{}:{} {} — printed {:?} from {:?}", e.line, e.col, e.msg, clip(&plain, 400), clip(text, 300))));
                    }
                    Ok(got) => {
                        for (sig, detail) in diff_sigs("C16|roundtrip|ts", &want_node, &tsdoc_node(&got)) {
                            out.push(mk(sig, format!("{detail} — printed {:?} from {:?}", clip(&plain, 400), clip(text, 300))));
                        }
                    }
                }
                // the JS template writer must denote exactly the plain text
                match eval_template(&js, 0) {
                    Err(e) => out.push(mk(format!("C16|template|{}", e.split(' ').take(3).collect::<Vec<_>>().join("-")), format!("{e} — template {:?}", clip(&js, 300)))),
                    Ok((cooked, _)) => {
                        // JsStringWriter starts with a newline after the backtick; CR is normalised by JS
                        let norm = |s: &str| s.replace("\r\n", "\n").replace('\r', "\n");
                        if norm(cooked.trim_start_matches('\n')) != norm(&plain) {
                            out.push(mk("C16|template|cooked-value-differs".into(), format!("evaluating the template gives {:?}, the printer wrote {:?}", clip(&cooked, 300), clip(&plain, 300))));
                        }
                    }
                }
            }
        }
    }
    Some(out)
}

/// attribute an unparsable printed text to the class of string it contains (multi-line strings are printed as
/// block strings, a known weak spot) so that this defect has one signature and anything else has another
fn classify_unparsable(want: &Node) -> String {
    fn any(n: &Node, f: &dyn Fn(&Node) -> bool) -> bool {
        f(n) || n.kids.iter().any(|k| any(k, f))
    }
    if has_quote_hazard(want) {
        return "quote-hazard".into();
    }
    if any(want, &|n| matches!(n.kind, "StringValue" | "Description") && (n.tag.starts_with("block") || (n.label.contains('\n') && !block_print_is_exact(&n.label)))) {
        "has-block-or-multi-line-string".into()
    } else if any(want, &|n| matches!(n.kind, "StringValue" | "Description" | "ImportPath") && (n.label.contains('"') || n.label.contains('\\'))) {
        "has-string-with-quote-or-backslash".into()
    } else {
        "no-hazardous-string".into()
    }
}

fn is_builtin_def(d: &TsDef) -> bool {
    match d {
        TsDef::Type(t) => t.kind == TKind::Scalar && BUILTIN_SCALARS.contains(&t.name.s.as_str()) && t.dirs.is_empty(),
        TsDef::Directive(dd) => builtin_directives().iter().any(|b| b.name.s == dd.name.s),
        _ => false,
    }
}

fn strip_nitrogql(doc: &TsDoc, model_plugin: bool) -> TsDoc {
    let mut out = vec![];
    for d in &doc.defs {
        match d {
            TsDef::Directive(dd) if dd.name.s == "nitrogql_ts_type" => {}
            TsDef::Directive(dd) if model_plugin && dd.name.s == "model" => {}
            TsDef::Type(t) => {
                let mut t = t.clone();
                t.dirs.retain(|x| x.name.s != "nitrogql_ts_type");
                if model_plugin && t.kind == TKind::Object {
                    // the model plugin's directive is removed from objects and their fields; everything else stays, in order
                    t.dirs.retain(|x| x.name.s != "model");
                    for f in t.fields.iter_mut() {
                        f.dirs.retain(|x| x.name.s != "model");
                    }
                }
                out.push(TsDef::Type(t));
            }
            d => out.push(d.clone()),
        }
    }
    TsDoc { defs: out }
}

/// server schema clause: `sdl` (the evaluated module value) must denote strip(merge(files))
pub fn check_server_sdl(files: &[String], sdl: &str, route: &str, replay: &Value) -> Vec<Violation> {
    check_server_sdl_with(files, sdl, route, replay, false)
}

pub fn check_server_sdl_with(files: &[String], sdl: &str, route: &str, replay: &Value, model_plugin: bool) -> Vec<Violation> {
    let mk = |sig: String, detail: String| Violation { sig, detail, replay: replay.clone() };
    let mut docs = TsDoc::default();
    for f in files {
        match refparse::parse_ts(f) {
            Ok(d) => docs.defs.extend(d.defs),
            Err(_) => return vec![],
        }
    }
    let want = strip_nitrogql(&merge_extensions(&docs), model_plugin);
    let mut out = vec![];
    let got = match refparse::parse_ts(sdl) {
        Ok(g) => g,
        Err(e) => {
            let cls = classify_unparsable(&tsdoc_node(&want));
            out.push(mk(if cls == "quote-hazard" { QUOTE_SIG.to_string() } else if cls.starts_with("has-") { format!("C16|printed-text-does-not-parse|{cls}") } else { format!("C16|server|{route}|sdl-does-not-parse|{cls}") }, format!("{}:{} {} — SDL {:?}", e.line, e.col, e.msg, clip(sdl, 600))));
            return out;
        }
    };
    let got_defs: Vec<&TsDef> = got.defs.iter().collect();
    let want_defs: Vec<&TsDef> = want.defs.iter().collect();
    // every expected definition must be present with the same content
    for w in &want_defs {
        let wn = tsdef_node(w);
        let cand = got_defs.iter().map(|g| tsdef_node(g)).find(|g| g.kind == wn.kind && g.label == wn.label);
        match cand {
            None => out.push(mk(if has_quote_hazard(&tsdoc_node(&want)) { QUOTE_SIG.to_string() } else { format!("C16|server|{route}|definition-missing|{}", wn.kind) }, format!("{} {:?} is not in the emitted SDL", wn.kind, wn.label))),
            Some(g) => {
                let whole = tsdoc_node(&want);
                let pairs = if has_quote_hazard(&whole) { diff_nodes(&wn, &g, false).into_iter().take(1).map(|d| (QUOTE_SIG.to_string(), d.detail)).collect() } else { diff_sigs(&format!("C16|server|{route}"), &wn, &g) };
                for (sig, detail) in pairs {
                    out.push(mk(sig, format!("{detail} — in {} {:?}", wn.kind, wn.label)));
                }
            }
        }
    }
    // nothing but built-ins may be added
    for g in &got_defs {
        let gn = tsdef_node(g);
        if !want_defs.iter().any(|w| {
            let wn = tsdef_node(w);
            wn.kind == gn.kind && wn.label == gn.label
        }) && !is_builtin_def(g)
        {
            out.push(mk(if has_quote_hazard(&tsdoc_node(&want)) { QUOTE_SIG.to_string() } else { format!("C16|server|{route}|definition-invented|{}", gn.kind) }, format!("{} {:?} is in the emitted SDL but not in the schema", gn.kind, gn.label)));
        }
    }
    out
}

thread_local! {
    /// number of CLI runs whose `generate` succeeded (so that the server module was really inspected)
    pub static CLI_GENERATED: std::cell::Cell<u64> = const { std::cell::Cell::new(0) };
}

const OP_FOR_SCHEMA: &str = "query Q { __typename }\n";

pub fn check_server_project(ctx: &Ctx, case: u64, schema_files: &[String], via_cli: bool) -> Vec<Violation> {
    let replay = json!({"property":"C16","kind":"server","files":schema_files,"cli":via_cli});
    // schemas that apply @model are generated only for the CLI route, with the model plugin configured
    let model_plugin = schema_files.iter().any(|f| f.contains("@model"));
    let via_cli = via_cli || model_plugin;
    let mut out = vec![];
    if via_cli {
        let dir = cli::scratch_dir(&ctx.out, "c16", case);
        let mut files: Vec<(String, String)> = schema_files.iter().enumerate().map(|(i, t)| (format!("schema/s{i}.graphql"), t.clone())).collect();
        files.push(("op.graphql".into(), OP_FOR_SCHEMA.into()));
        // every custom scalar gets a configured type unless the schema types it through @nitrogql_ts_type (generate refuses otherwise)
        let mut scalar_cfg = String::new();
        {
            let mut all = TsDoc::default();
            for f in schema_files {
                if let Ok(d) = refparse::parse_ts(f) {
                    all.defs.extend(d.defs);
                }
            }
            let merged = merge_extensions(&all);
            for d in &merged.defs {
                if let TsDef::Type(t) = d {
                    if t.kind == TKind::Scalar && !BUILTIN_SCALARS.contains(&t.name.s.as_str()) && !t.dirs.iter().any(|x| x.name.s == "nitrogql_ts_type") {
                        scalar_cfg.push_str(&format!("          {}: string\n", t.name.s));
                    }
                }
            }
        }
        let scalar_cfg = if scalar_cfg.is_empty() { String::new() } else { format!("      type:\n        scalarTypes:\n{scalar_cfg}") };
        let plugins = if model_plugin { "    plugins:\n      - \"nitrogql:model-plugin\"\n" } else { "" };
        files.push(("graphql.config.yaml".into(), format!("schema: ./schema/*.graphql\ndocuments: ./op.graphql\nextensions:\n  nitrogql:\n{plugins}    generate:\n      schemaOutput: ./out/schema.d.ts\n      serverGraphqlOutput: ./out/server.ts\n{scalar_cfg}")));
        // every third project is generated twice in the same directory: first from a longer earlier revision of the
        // schema (one more type), then from the schema under test; the module must be that of the second run alone
        if case % 3 == 1 && !files.is_empty() {
            let mut earlier = files.clone();
            earlier[0].1.push_str("\n\"only in the earlier revision\"\ntype ZzzEarlierRevisionOnly {\n  aRatherLongFieldNameThatMakesTheModuleLonger: Int\n}\n");
            if cli::write_project(&dir, &earlier).is_ok() {
                let _ = cli::run_cli(&ctx.cli, &dir, &["generate", "--output-format", "json"], Duration::from_secs(60));
            }
        }
        if cli::write_project(&dir, &files).is_ok() {
            let r = cli::run_cli(&ctx.cli, &dir, &["generate", "--output-format", "json"], Duration::from_secs(60));
            if r.status == Some(0) {
                CLI_GENERATED.with(|c| c.set(c.get() + 1));
                match std::fs::read_to_string(dir.join("out/server.ts")) {
                    Err(_) => out.push(Violation { sig: "C16|server|cli|file-missing".into(), detail: "generate succeeded but out/server.ts does not exist".into(), replay: replay.clone() }),
                    Ok(module) => match read_schema_module(&module) {
                        Err(e) => out.push(Violation { sig: format!("C16|server|cli|module-shape|{}", e.split(' ').take(3).collect::<Vec<_>>().join("-")), detail: format!("{e} — module {:?}", clip(&module, 400)), replay: replay.clone() }),
                        Ok(sdl) => out.extend(check_server_sdl_with(schema_files, &sdl, "cli", &replay, model_plugin)),
                    },
                }
            }
        }
        cli::cleanup(&dir);
    } else {
        let sf: Vec<(String, String)> = schema_files.iter().enumerate().map(|(i, t)| (format!("/proj/schema/s{i}.graphql"), t.clone())).collect();
        let of = vec![("/proj/op.graphql".to_string(), OP_FOR_SCHEMA.to_string())];
        let r = crate::pipeline::run_project(&crate::pipeline::ProjectInput { schema_files: &sf, op_files: &of, config: "schema: x\n", generate: false, check_only: false });
        if let Some(o) = &r.outputs {
            out.extend(check_server_sdl(schema_files, &o.server_graphql, "lib", &replay));
        }
    }
    out
}

pub fn run(ctx: &Ctx, rep: &mut Report) {
    // part A: round trips of arbitrary parsed documents
    let n = ctx.budget(120_000, 3_000_000);
    for case in 0..n {
        let mut rng = ctx.rng("roundtrip", case);
        crate::gen_syntax::set_allow_quotes(rng.chance(1, 8));
        let hostile = rng.chance(2, 3);
        let (grammar, text, node) = if rng.coin() {
            let d = gen_exec_doc(&mut rng, &ExecOpts { imports: true, shorthand: false, hostile });
            ("op", render_exec(&d, Some(&mut rng), Feat::plain()), execdoc_node(&d))
        } else {
            let d = gen_ts_doc(&mut rng, hostile);
            ("ts", render_ts(&d, Some(&mut rng), Feat::plain()), tsdoc_node(&d))
        };
        rep.eval();
        rep.count(&format!("roundtrips_{grammar}"));
        let c = canon(&node);
        if c.contains("StringValue") || c.contains("Description") || c.contains("DefaultValue") {
            rep.nontrivial(&c);
        }
        if case == 0 {
            rep.sample(json!({"kind":"roundtrip","grammar":grammar,"text":clip(&text, 500)}));
        }
        match check_roundtrip(grammar, &text) {
            None => rep.count("roundtrip_not_parsed"),
            Some(vs) => rep.violations(vs),
        }
    }
    // part B: server schema of valid schemas with hostile descriptions / default strings
    let n = ctx.budget(24_000, 400_000);
    let cli_every = 4;
    for case in 0..n {
        let mut rng = ctx.rng("server", case);
        crate::gen_syntax::set_allow_quotes(rng.chance(1, 8));
        let mut so = SchemaOpts::default_for(&mut rng);
        so.descriptions = true;
        so.hostile_text = rng.chance(2, 3);
        so.block_strings = rng.coin();
        let (doc, _) = gen_valid_schema(&mut rng, &so);
        let mut doc = if rng.coin() { split_extensions(&doc, &mut rng) } else { doc };
        // scalars typed through the nitrogql-only directive (which the server schema must not contain), also on built-in
        // scalars through `extend scalar` as the graphql-scalars plugin does
        if rng.chance(1, 2) {
            let customs: Vec<String> = doc.defs.iter().filter_map(|d| match d { TsDef::Type(t) if !t.ext && t.kind == TKind::Scalar => Some(t.name.s.clone()), _ => None }).collect();
            for c in customs {
                if rng.coin() {
                    crate::gen_schema::add_ts_type_directive(&mut doc, &c, &crate::gen_schema::four_way(rng.s(&["string", "Date||string", "a||b||c||d"])), &mut rng);
                }
            }
            if rng.chance(1, 3) {
                let b = rng.s(BUILTIN_SCALARS).to_string();
                crate::gen_schema::add_ts_type_directive(&mut doc, &b, &crate::gen_schema::four_way("string"), &mut rng);
            }
        }
        // the model plugin: @model on whole objects (with a type) or on single fields, anywhere among other directive
        // applications, whose order the server schema has to keep
        if rng.chance(1, 5) {
            doc.defs.push(TsDef::Directive(DirectiveDef { desc: None, p: P::none(), name: nm("tagM"), args: vec![InputValueDef { desc: None, name: nm("n"), ty: Ty::named("Int"), default: None, dirs: vec![] }], repeatable: true, repeatable_p: P::none(), locations: vec![nm("OBJECT"), nm("FIELD_DEFINITION")] }));
            let mut used = false;
            for d in doc.defs.iter_mut() {
                let TsDef::Type(t) = d else { continue };
                if t.kind != TKind::Object || !rng.coin() {
                    continue;
                }
                let tags = |rng: &mut crate::rng::Rng| -> Vec<Dir> { (0..rng.range(1, 3)).map(|i| Dir::new("tagM", vec![("n", Val::int(&format!("{}", i + 1)))])).collect() };
                if !t.ext && rng.chance(1, 3) {
                    let extra = tags(&mut rng);
                    t.dirs.extend(extra);
                    let at = rng.below(t.dirs.len() + 1);
                    t.dirs.insert(at, Dir::new("model", vec![("type", Val::str("unknown"))]));
                    used = true;
                } else if !t.dirs.iter().any(|x| x.name.s == "model") {
                    for f in t.fields.iter_mut() {
                        if rng.coin() {
                            let extra = tags(&mut rng);
                            f.dirs.extend(extra);
                            let at = rng.below(f.dirs.len() + 1);
                            f.dirs.insert(at, Dir::new("model", vec![]));
                            used = true;
                        }
                    }
                }
            }
            let _ = used;
        }
        // 1-3 files
        let nfiles = rng.range(1, 3).min(doc.defs.len());
        let mut files: Vec<TsDoc> = (0..nfiles).map(|_| TsDoc::default()).collect();
        for (i, d) in doc.defs.iter().enumerate() {
            files[i % nfiles].defs.push(d.clone());
        }
        let texts: Vec<String> = files.iter().map(|f| render_ts(f, None, Feat::plain())).collect();
        rep.eval();
        rep.count("server_schemas");
        rep.nontrivial(&texts.join("\u{1}"));
        if case == 0 {
            rep.sample(json!({"kind":"server-schema","files":texts.iter().map(|t| clip(t, 400)).collect::<Vec<_>>()}));
        }
        let via_cli = case % cli_every == 0;
        if via_cli {
            rep.count("server_schemas_via_cli");
        }
        rep.violations(check_server_project(ctx, case, &texts, via_cli));
    }
    rep.add("server_modules_read_from_cli_output", CLI_GENERATED.with(|c| c.get()));
}

pub fn replay(case: &Value, ctx: &Ctx) -> Vec<Violation> {
    match case["kind"].as_str() {
        Some("roundtrip") => check_roundtrip(case["grammar"].as_str().unwrap_or("op"), case["text"].as_str().unwrap_or("")).unwrap_or_default(),
        Some("server") => {
            let files: Vec<String> = case["files"].as_array().map(|a| a.iter().filter_map(|x| x.as_str().map(|s| s.to_string())).collect()).unwrap_or_default();
            check_server_project(ctx, 0, &files, case["cli"].as_bool().unwrap_or(false))
        }
        _ => vec![],
    }
}
