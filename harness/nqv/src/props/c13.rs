//! C13 — `#import` resolution brings in every requested fragment, transitively, once.

use std::collections::BTreeMap;

use serde_json::{Value, json};

use crate::ctx::Ctx;
use crate::real::{ImportOutcome, resolve_imports};
use crate::refimport::closure;
use crate::refparse;
use crate::report::{Report, Violation, clip};
use crate::rng::Rng;

pub fn check_files(files: &[(String, String)], root: usize) -> Option<Vec<Violation>> {
    let replay = json!({"property":"C13","kind":"imports","root":root,"files": files.iter().map(|(p,t)| json!([p,t])).collect::<Vec<_>>()});
    let mk = |sig: String, detail: String| Violation { sig, detail, replay: replay.clone() };
    let mut docs = vec![];
    for (p, t) in files {
        match refparse::parse_exec(t) {
            Ok(d) => docs.push((p.clone(), d)),
            Err(_) => return None,
        }
    }
    let cl = closure(&docs, root);
    let show = || files.iter().map(|(p, t)| format!("== {p}\n{t}")).collect::<Vec<_>>().join("\n");
    let mut out = vec![];
    match resolve_imports(files, root) {
        ImportOutcome::ParseFail(..) => return None,
        ImportOutcome::ExtFail(..) => return None, // wildcard/name mixing rules: not part of this property
        ImportOutcome::Panic(p) => out.push(mk(format!("C13|panic|{}|{}", p.site(), p.msg_class()), format!("resolve_operation_imports panicked: {} ({}:{})\n{}", p.msg, p.file, p.line, clip(&show(), 800)))),
        ImportOutcome::Err(e) => {
            if cl.offenders.is_empty() {
                out.push(mk("C13|fails-without-fault".into(), format!("error {:?} although every target file exists and every named fragment is defined\n{}", e.msg, clip(&show(), 800))));
            } else {
                match e.pos {
                    None => out.push(mk("C13|error-without-position".into(), format!("error {:?} carries no position", e.msg))),
                    Some((f, l, _)) => {
                        if !cl.offenders.iter().any(|o| o.file == f && o.line as usize == l) {
                            out.push(mk("C13|error-position-not-at-offender".into(), format!("error {:?} at file {f} line {l}; offending import lines: {:?}\n{}", e.msg, cl.offenders, clip(&show(), 800))));
                        }
                    }
                }
            }
        }
        ImportOutcome::Ok(items, _) => {
            if !cl.offenders.is_empty() {
                out.push(mk(format!("C13|succeeds-with-fault|{}", cl.offenders[0].kind), format!("resolution succeeded although {:?}\n{}", cl.offenders, clip(&show(), 800))));
            } else {
                // expected multiset: own definitions of the root (in order) + imported fragments once each
                let mut want: BTreeMap<(usize, String, String), usize> = BTreeMap::new();
                for d in &docs[root].1.defs {
                    match d {
                        crate::model::ExecDef::Op(o) => *want.entry((root, "op".into(), o.name.as_ref().map(|n| n.s.clone()).unwrap_or_default())).or_insert(0) += 1,
                        crate::model::ExecDef::Frag(f) => *want.entry((root, "frag".into(), f.name.s.clone())).or_insert(0) += 1,
                        _ => {}
                    }
                }
                for (f, n) in &cl.imported {
                    *want.entry((*f, "frag".into(), n.clone())).or_insert(0) += 1;
                }
                let mut got: BTreeMap<(usize, String, String), usize> = BTreeMap::new();
                for (f, k, n) in &items {
                    *got.entry((*f, k.to_string(), n.clone())).or_insert(0) += 1;
                }
                if want != got {
                    let mut missing = vec![];
                    let mut extra = vec![];
                    let mut dup = vec![];
                    for (k, c) in &want {
                        let g = got.get(k).copied().unwrap_or(0);
                        if g < *c {
                            missing.push(k.clone());
                        } else if g > *c {
                            dup.push(k.clone());
                        }
                    }
                    for k in got.keys() {
                        if !want.contains_key(k) {
                            extra.push(k.clone());
                        }
                    }
                    let class = if !missing.is_empty() {
                        "missing-fragment"
                    } else if !dup.is_empty() {
                        if dup.iter().any(|k| k.0 == root) { "duplicate-root-definition" } else { "duplicate-imported-fragment" }
                    } else {
                        "unrequested-fragment"
                    };
                    out.push(mk(format!("C13|result-differs|{class}"), format!("missing {missing:?} duplicated {dup:?} unrequested {extra:?}\n{}", clip(&show(), 900))));
                }
                // own definitions first and in order
                let own_n = docs[root].1.defs.iter().filter(|d| !matches!(d, crate::model::ExecDef::Import(_))).count();
                if items.len() >= own_n && items[..own_n].iter().any(|(f, _, _)| *f != root) {
                    out.push(mk("C13|own-definitions-not-first".into(), "the root file's own definitions are not the leading definitions of the result".into()));
                }
            }
        }
    }
    Some(out)
}

/// layout of the in-memory files
const PATHS: &[&str] = &["/p/f0.graphql", "/p/f1.graphql", "/p/d/f1.graphql", "/p/d/e/f3.graphql", "/q/f1.graphql", "/p/f5.graphql", "/p/d/f5.graphql", "/f7.graphql"];

fn rel_spellings(from: &str, to: &str, rng: Option<&mut Rng>) -> String {
    // canonical relative path via reference algebra
    let fd: Vec<&str> = from.split('/').filter(|s| !s.is_empty()).collect();
    let td: Vec<&str> = to.split('/').filter(|s| !s.is_empty()).collect();
    let fdir = &fd[..fd.len() - 1];
    let common = fdir.iter().zip(td.iter()).take_while(|(a, b)| a == b).count();
    let mut parts: Vec<String> = vec![];
    for _ in common..fdir.len() {
        parts.push("..".into());
    }
    for c in &td[common..] {
        parts.push(c.to_string());
    }
    let canonical = parts.join("/");
    let dotted = if canonical.starts_with("..") { canonical.clone() } else { format!("./{canonical}") };
    match rng {
        None => dotted,
        Some(r) => match r.below(9) {
            // absolute spellings: plain, and with a `..` that normalisation has to remove
            6 => to.to_string(),
            7 => {
                if td.len() >= 2 {
                    let mut v: Vec<String> = td.iter().map(|s| s.to_string()).collect();
                    let k = r.below(td.len() - 1);
                    v.insert(k + 1, "..".into());
                    v.insert(k + 2, td[k].to_string());
                    format!("/{}", v.join("/"))
                } else {
                    format!("/zz/../{}", td.join("/"))
                }
            }
            8 => format!("/{}/./{}", fd[..fd.len() - 1].join("/"), dotted).replace("//", "/"),
            0 => canonical,                                                     // "f1.graphql" (no ./ prefix)
            1 if !fdir.is_empty() => format!("../{}/{}", fdir[fdir.len() - 1], canonical), // up and down again
            2 => format!("./x/../{canonical}"),
            3 => dotted.replace("/", "//").replacen("//", "/", 1),
            _ => dotted,
        },
    }
}

#[derive(Clone, Debug)]
struct Edge {
    to: usize,
    /// None = wildcard, Some(names)
    names: Option<Vec<String>>,
    spelling: String,
}

fn render_file(idx: usize, frag_names: &[String], edges: &[Edge], is_root: bool, spread_all: &[String]) -> String {
    let mut s = String::new();
    for e in edges {
        match &e.names {
            None => s.push_str(&format!("#import * from \"{}\"\n", e.spelling)),
            Some(ns) => s.push_str(&format!("#import {} from \"{}\"\n", ns.join(", "), e.spelling)),
        }
    }
    if is_root {
        s.push_str(&format!("query Q{idx} {{\n  a\n"));
        for n in spread_all {
            s.push_str(&format!("  ...{n}\n"));
        }
        s.push_str("}\n");
    }
    for n in frag_names {
        s.push_str(&format!("fragment {n} on T {{ x{idx} }}\n"));
    }
    if !is_root && frag_names.is_empty() {
        s.push_str(&format!("query Other{idx} {{ b }}\n"));
    }
    s
}

/// exhaustive graphs: nfiles files with 2 fragments each; per ordered pair an edge label in {none,*,A,B,A+B}
fn exhaustive(ctx: &Ctx, rep: &mut Report, nfiles: usize) {
    let pairs = nfiles * nfiles;
    let total = 5u64.pow(pairs as u32);
    let mut n_done = 0u64;
    let mut code = ctx.shard;
    while code < total {
        let mut c = code;
        let mut per_file: Vec<Vec<Edge>> = vec![vec![]; nfiles];
        let mut any_edge = false;
        for from in 0..nfiles {
            for to in 0..nfiles {
                let label = c % 5;
                c /= 5;
                let a = format!("F{to}a");
                let b = format!("F{to}b");
                let names = match label {
                    0 => continue,
                    1 => None,
                    2 => Some(vec![a]),
                    3 => Some(vec![b]),
                    _ => Some(vec![a, b]),
                };
                any_edge = true;
                per_file[from].push(Edge { to, names, spelling: rel_spellings(PATHS[from], PATHS[to], None) });
            }
        }
        let files: Vec<(String, String)> = (0..nfiles).map(|i| (PATHS[i].to_string(), render_file(i, &[format!("F{i}a"), format!("F{i}b")], &per_file[i], i == 0, &[]))).collect();
        rep.eval();
        n_done += 1;
        if any_edge && n_done % 7 == 0 {
            rep.nontrivial_digest(code.wrapping_mul(0x9E3779B97F4A7C15) ^ nfiles as u64);
        }
        if let Some(vs) = check_files(&files, 0) {
            rep.violations(vs);
        }
        code += ctx.nshards;
    }
    rep.add(&format!("exhaustive_graphs_{nfiles}_files"), n_done);
}

fn random_case(rng: &mut Rng) -> (Vec<(String, String)>, &'static str) {
    let nfiles = rng.range(2, 8);
    let mut frags: Vec<Vec<String>> = vec![];
    for i in 0..nfiles {
        let k = rng.below(3);
        frags.push((0..k).map(|j| format!("F{i}{}", ["a", "b", "c"][j])).collect());
    }
    let mut per_file: Vec<Vec<Edge>> = vec![vec![]; nfiles];
    let density = rng.range(1, 3);
    for from in 0..nfiles {
        for _ in 0..density {
            if rng.chance(1, 3) {
                continue;
            }
            let to = rng.below(nfiles);
            let names = if rng.chance(1, 3) || frags[to].is_empty() {
                None
            } else {
                let mut ns: Vec<String> = frags[to].iter().filter(|_| rng.coin()).cloned().collect();
                if ns.is_empty() {
                    ns.push(frags[to][0].clone());
                }
                rng.shuffle(&mut ns);
                Some(ns)
            };
            let spelling = rel_spellings(PATHS[from], PATHS[to], Some(rng));
            // the extension stage merges lines with the same path string; avoid mixing '*' and names on one spelling
            if per_file[from].iter().any(|e| e.spelling == spelling && (e.names.is_none() || names.is_none())) {
                continue;
            }
            per_file[from].push(Edge { to, names, spelling });
        }
    }
    // fault layer
    let mut fault = "none";
    match rng.below(10) {
        0 => {
            let from = rng.below(nfiles);
            per_file[from].push(Edge { to: 0, names: None, spelling: "./nope.graphql".into() });
            fault = "dangling-file";
        }
        1 => {
            let from = rng.below(nfiles);
            let to = rng.below(nfiles);
            per_file[from].push(Edge { to, names: Some(vec!["Missing".into()]), spelling: rel_spellings(PATHS[from], PATHS[to], None) + "" });
            fault = "missing-name";
        }
        2 => {
            // the same name twice on one line
            let to = rng.below(nfiles);
            if let Some(n) = frags[to].first() {
                let from = rng.below(nfiles);
                per_file[from].retain(|e| e.to != to);
                per_file[from].push(Edge { to, names: Some(vec![n.clone(), n.clone()]), spelling: rel_spellings(PATHS[from], PATHS[to], None) });
                fault = "repeated-name";
            }
        }
        _ => {}
    }
    // the fault may sit in an unreachable file; the reference decides
    for e in per_file.iter_mut() {
        rng.shuffle(e);
    }
    let files = (0..nfiles).map(|i| (PATHS[i].to_string(), render_file(i, &frags[i], &per_file[i], i == 0, &[]))).collect();
    (files, fault)
}

pub fn run(ctx: &Ctx, rep: &mut Report) {
    exhaustive(ctx, rep, 1);
    exhaustive(ctx, rep, 2);
    if ctx.thorough {
        exhaustive(ctx, rep, 3);
        rep.note("bounded-exhaustive: all import graphs over <= 3 files x 2 fragments, edge label in {none,*,A,B,A+B} per ordered pair incl. self (5^9 graphs)");
    } else {
        rep.note("bounded-exhaustive: all import graphs over <= 2 files x 2 fragments, edge label in {none,*,A,B,A+B} per ordered pair incl. self (5^4 graphs); 3-file graphs sampled");
        // sample of the 3-file space
        let n = ctx.budget(60_000, 0);
        let total = 5u64.pow(9);
        for case in 0..n {
            let mut rng = ctx.rng("three", case);
            let code = rng.next_u64() % total;
            let mut c = code;
            let mut per_file: Vec<Vec<Edge>> = vec![vec![]; 3];
            for from in 0..3 {
                for to in 0..3 {
                    let label = c % 5;
                    c /= 5;
                    let names = match label {
                        0 => continue,
                        1 => None,
                        2 => Some(vec![format!("F{to}a")]),
                        3 => Some(vec![format!("F{to}b")]),
                        _ => Some(vec![format!("F{to}a"), format!("F{to}b")]),
                    };
                    per_file[from].push(Edge { to, names, spelling: rel_spellings(PATHS[from], PATHS[to], None) });
                }
            }
            let files: Vec<(String, String)> = (0..3).map(|i| (PATHS[i].to_string(), render_file(i, &[format!("F{i}a"), format!("F{i}b")], &per_file[i], i == 0, &[]))).collect();
            rep.eval();
            rep.count("sampled_graphs_3_files");
            rep.nontrivial_digest(code ^ 0x3333);
            if let Some(vs) = check_files(&files, 0) {
                rep.violations(vs);
            }
        }
    }
    rep.exhaustive = Some(true);
    let n = ctx.budget(160_000, 3_000_000);
    for case in 0..n {
        let mut rng = ctx.rng("random", case);
        let (files, fault) = random_case(&mut rng);
        // a quarter of the graphs use fragment names that begin like a keyword of the import syntax
        let files: Vec<(String, String)> = if rng.chance(1, 4) {
            let prefix = rng.s(&["from", "fromage_", "import", "on_", "fragment", "query_"]);
            files
                .into_iter()
                .map(|(p, mut t)| {
                    for i in 0..PATHS.len() {
                        for c in ["a", "b", "c"] {
                            t = t.replace(&format!("F{i}{c}"), &format!("{prefix}\u{1}{i}{c}"));
                        }
                    }
                    (p, t.replace('\u{1}', "F"))
                })
                .collect()
        } else {
            files
        };
        rep.eval();
        rep.count(&format!("random_graphs|fault={fault}"));
        if case < 3000 {
            rep.nontrivial(&format!("{files:?}"));
        }
        if case == 0 {
            rep.sample(json!({"files": files.iter().map(|(p,t)| json!({"path":p,"text":t})).collect::<Vec<_>>(), "fault_layer": fault}));
        }
        match check_files(&files, 0) {
            Some(vs) => rep.violations(vs),
            None => rep.count("skipped_not_parsed"),
        }
        // the loader's resolver (its own walk over get_required_files / load_file) on a sample of fault-free graphs: it
        // must ask only for files of the project and emit; repeated, because its file table is a hash map
        if case % 16 == 0 && fault == "none" {
            let map: std::collections::BTreeMap<String, String> = files.iter().cloned().collect();
            for _ in 0..3 {
                rep.count("loader_route_runs");
                if let Err(e) = crate::props::c14::loader_module("schema: ./schema.graphql\n", &files[0].0, &map) {
                    let class = if e.contains("not found") { "file-not-found" } else if e.contains("not a file of the project") { "asks-for-a-file-outside-the-project" } else { "other" };
                    rep.violations(vec![Violation { sig: format!("C13|loader|fails-without-fault|{class}"), detail: format!("the loader cannot emit the root of a fault-free import graph: {e} — files {:?}", clip(&format!("{files:?}"), 700)), replay: json!({"property":"C13","kind":"loader","files":files.iter().map(|(p,t)| json!([p,t])).collect::<Vec<_>>()}) }]);
                    break;
                }
            }
        }
        // the CLI has a resolver of its own (the documents matched by the glob, indexed by path): `check` must accept a
        // fault-free graph whatever its files hold (fragments, operations only, nothing but imports)
        if case % 16 == 8 && fault == "none" {
            rep.count("cli_route_runs");
            rep.violations(cli_route(ctx, case, &files));
        }
        // permuting the import lines of every file must not change the set of definitions
        if case % 4 == 0 {
            let permuted: Vec<(String, String)> = files
                .iter()
                .map(|(p, t)| {
                    let mut imports: Vec<&str> = t.lines().filter(|l| l.starts_with("#import")).collect();
                    let rest: Vec<&str> = t.lines().filter(|l| !l.starts_with("#import")).collect();
                    rng.shuffle(&mut imports);
                    (p.clone(), format!("{}\n{}\n", imports.join("\n"), rest.join("\n")))
                })
                .collect();
            rep.eval();
            rep.count("import_line_permutations");
            if let Some(vs) = check_files(&permuted, 0) {
                rep.violations(vs);
            }
        }
    }
}

/// the import graph as a project on disk under <scratch>/fs (absolute import spellings are re-rooted there), checked by
/// the real CLI against a schema in which every fragment and spread of the graph is valid
pub fn cli_route(ctx: &Ctx, n: u64, files: &[(String, String)]) -> Vec<Violation> {
    use crate::cli;
    let dir = cli::scratch_dir(&ctx.out, "c13", n);
    let base = format!("{}/fs", dir.to_string_lossy());
    let fields: String = (0..PATHS.len()).map(|i| format!(" x{i}: Int")).collect();
    let mut proj: Vec<(String, String)> = vec![
        ("schema.graphql".to_string(), format!("interface T {{{fields} }}\ntype Query implements T {{ a: Int b: Int{fields} }}\n")),
        ("graphql.config.yaml".to_string(), "schema: ./schema.graphql\ndocuments: ./fs/**/*.graphql\n".to_string()),
    ];
    for (p, t) in files {
        proj.push((format!("fs{p}"), t.replace("from \"/", &format!("from \"{base}/"))));
    }
    let mut out = vec![];
    if cli::write_project(&dir, &proj).is_ok() {
        let r = cli::run_cli(&ctx.cli, &dir, &["check", "--output-format", "json"], std::time::Duration::from_secs(60));
        if r.status != Some(0) || r.panicked().is_some() {
            let msg = serde_json::from_str::<Value>(r.stdout.trim()).ok().and_then(|v| v["check"]["errors"][0]["message"].as_str().map(|s| s.to_string())).unwrap_or_else(|| clip(&r.stderr, 200));
            let class = if msg.contains("not found.") { "file-not-found" } else if msg.contains("is not found in the imported file") { "fragment-not-found" } else if r.panicked().is_some() { "panic" } else { "other" };
            out.push(Violation { sig: format!("C13|cli|fails-without-fault|{class}"), detail: format!("nitrogql-cli check (exit {:?}) on a fault-free import graph: {} - files {:?}", r.status, clip(&msg, 300), clip(&format!("{files:?}"), 600)), replay: json!({"property":"C13","kind":"cli","files":files.iter().map(|(a,b)| json!([a,b])).collect::<Vec<_>>()}) });
        }
    }
    cli::cleanup(&dir);
    out
}

pub fn replay(case: &Value, ctx: &Ctx) -> Vec<Violation> {
    let files: Vec<(String, String)> = case["files"].as_array().map(|a| a.iter().map(|x| (x[0].as_str().unwrap_or("").to_string(), x[1].as_str().unwrap_or("").to_string())).collect()).unwrap_or_default();
    if files.is_empty() {
        return vec![];
    }
    if case["kind"].as_str() == Some("cli") {
        return cli_route(ctx, 0, &files);
    }
    if case["kind"].as_str() == Some("loader") {
        let map: std::collections::BTreeMap<String, String> = files.iter().cloned().collect();
        for _ in 0..8 {
            if let Err(e) = crate::props::c14::loader_module("schema: ./schema.graphql\n", &files[0].0, &map) {
                let class = if e.contains("not found") { "file-not-found" } else if e.contains("not a file of the project") { "asks-for-a-file-outside-the-project" } else { "other" };
                return vec![Violation { sig: format!("C13|loader|fails-without-fault|{class}"), detail: e, replay: case.clone() }];
            }
        }
        return vec![];
    }
    check_files(&files, case["root"].as_u64().unwrap_or(0) as usize).unwrap_or_default()
}
