//! End-to-end part of C06 (source maps of CLI projects) and of C20 (specifiers and `sources` land on the intended files).

use std::collections::BTreeMap;
use std::path::Path;
use std::time::Duration;

use serde_json::{Value, json};

use crate::cli;
use crate::ctx::Ctx;
use crate::genproj::{ProjOpts, Project, gen_project};
use crate::model::*;
use crate::refparse::{self, TK, Tok};
use crate::report::{Report, Violation, clip};
use crate::srcmap::{decode_mappings, utf16_len};

fn norm(p: &str) -> String {
    let mut st: Vec<&str> = vec![];
    for c in p.split('/') {
        match c {
            "" | "." => {}
            ".." => {
                st.pop();
            }
            n => st.push(n),
        }
    }
    format!("/{}", st.join("/"))
}

fn proj_json(p: &Project, prop: &str) -> Value {
    json!({"property":prop,"kind":"project","files":p.files.iter().map(|(a,b)| json!([a,b])).collect::<Vec<_>>(),"root":p.root,"schema_paths":p.schema_paths,"op_paths":p.op_paths,
        "schema_output":p.config.schema_output,"resolvers_output":p.config.resolvers_output,"decl_ext":p.config.decl_extension(),"schema_module_specifier":p.config.schema_module_specifier})
}

pub struct ProjView {
    pub files: Vec<(String, String)>,
    pub root: String,
    pub schema_paths: Vec<String>,
    pub op_paths: Vec<String>,
    pub schema_output: Option<String>,
    pub resolvers_output: Option<String>,
    pub decl_ext: String,
    pub schema_module_specifier: Option<String>,
}

impl ProjView {
    pub fn of(p: &Project) -> ProjView {
        ProjView {
            files: p.files.clone(),
            root: p.root.clone(),
            schema_paths: p.schema_paths.clone(),
            op_paths: p.op_paths.clone(),
            schema_output: p.config.schema_output.clone(),
            resolvers_output: p.config.resolvers_output.clone(),
            decl_ext: p.config.decl_extension().to_string(),
            schema_module_specifier: p.config.schema_module_specifier.clone(),
        }
    }
    pub fn from_json(v: &Value) -> Option<ProjView> {
        let strs = |v: &Value| -> Vec<String> { v.as_array().map(|a| a.iter().filter_map(|x| x.as_str().map(|s| s.to_string())).collect()).unwrap_or_default() };
        Some(ProjView {
            files: v["files"].as_array()?.iter().map(|x| (x[0].as_str().unwrap_or("").to_string(), x[1].as_str().unwrap_or("").to_string())).collect(),
            root: v["root"].as_str()?.to_string(),
            schema_paths: strs(&v["schema_paths"]),
            op_paths: strs(&v["op_paths"]),
            schema_output: v["schema_output"].as_str().map(|s| s.to_string()),
            resolvers_output: v["resolvers_output"].as_str().map(|s| s.to_string()),
            decl_ext: v["decl_ext"].as_str().unwrap_or("d.graphql.ts").to_string(),
            schema_module_specifier: v["schema_module_specifier"].as_str().map(|s| s.to_string()),
        })
    }
}

struct SrcFile {
    text: String,
    toks: Vec<Tok>,
    is_schema: bool,
}

fn tok_at(f: &SrcFile, line: i64, col: i64) -> Option<&Tok> {
    f.toks.iter().find(|t| t.kind != TK::Eof && t.p.line as i64 == line && (t.p.col as i64 == col || t.p.col16 as i64 == col))
}

/// (C06 violations, C20 violations, maps checked, segments checked)
pub fn check_project(ctx: &Ctx, n: u64, pv: &ProjView) -> (Vec<Violation>, Vec<Violation>, u64, u64) {
    let mut v06 = vec![];
    let mut v20 = vec![];
    let mut maps = 0u64;
    let mut segs = 0u64;
    let replay06 = json!({"property":"C06","kind":"project","view": view_json(pv)});
    let replay20 = json!({"property":"C20","kind":"project","view": view_json(pv)});
    let dir = cli::scratch_dir(&ctx.out, "maps", n);
    if cli::write_project(&dir, &pv.files).is_err() {
        cli::cleanup(&dir);
        return (v06, v20, 0, 0);
    }
    let (r, _style) = cli::run_cli_any_style(&ctx.cli, &dir, &pv.root, &pv.files, &["generate", "--output-format", "json"], Duration::from_secs(120));
    if r.status != Some(0) {
        // not a case of C06 (C18 / C04 own failures of valid projects) - except that a *valid* project whose `#import`
        // lines do not find their files or fragments is C20's business: the target did not resolve to the file meant
        for needle in ["not found.", "is not found in the imported file"] {
            if let Some(l) = r.stdout.lines().chain(r.stderr.lines()).find(|l| l.contains(needle)) {
                let class = if needle.starts_with("not") { "file-not-found" } else { "fragment-not-found-in-imported-file" };
                v20.push(Violation { sig: format!("C20|e2e|import-of-a-valid-project-fails|{class}"), detail: format!("generate failed on a valid project: {}", clip(l, 300)), replay: replay20.clone() });
                break;
            }
        }
        cli::cleanup(&dir);
        return (v06, v20, 0, 0);
    }
    let Ok(out): Result<Value, _> = serde_json::from_str(r.stdout.trim()) else {
        cli::cleanup(&dir);
        return (v06, v20, 0, 0);
    };
    let abs = |rel: &str| norm(&format!("{}/{}", dir.to_string_lossy(), rel));
    // input files
    let mut inputs: BTreeMap<String, SrcFile> = BTreeMap::new();
    for (p, t) in &pv.files {
        let is_schema = pv.schema_paths.contains(p);
        if is_schema || pv.op_paths.contains(p) {
            inputs.insert(abs(p), SrcFile { text: t.clone(), toks: refparse::lex(t).unwrap_or_default(), is_schema });
        }
    }
    let listed: Vec<(String, String)> = out["generate"]["files"].as_array().map(|a| a.iter().map(|f| (f["fileType"].as_str().unwrap_or("").to_string(), norm(f["path"].as_str().unwrap_or("")))).collect()).unwrap_or_default();
    let schema_out_abs = pv.schema_output.as_ref().map(|s| abs(&format!("{}/{}", pv.root, s)));
    for (kind, path) in &listed {
        if kind.ends_with("SourceMap") {
            continue;
        }
        let Ok(gen_text) = std::fs::read_to_string(path) else { continue };
        // ---- C20: import specifiers of declaration files resolve to the schema output
        if kind == "operationTypeDefinition" || kind == "resolversTypeDefinition" {
            if let Some(spec) = import_specifier(&gen_text, "Schema") {
                match &pv.schema_module_specifier {
                    Some(s) => {
                        if spec != *s {
                            v20.push(Violation { sig: "C20|e2e|schema-module-specifier-option-ignored".into(), detail: format!("{path} imports {spec:?}, the option says {s:?}"), replay: replay20.clone() });
                        }
                    }
                    None => {
                        if !(spec.starts_with("./") || spec.starts_with("../")) {
                            v20.push(Violation { sig: "C20|e2e|specifier-not-relative".into(), detail: format!("{path} imports the schema types from {spec:?}"), replay: replay20.clone() });
                        }
                        let base = Path::new(path).parent().map(|p| p.to_string_lossy().to_string()).unwrap_or_default();
                        let resolved = norm(&format!("{base}/{spec}"));
                        // TypeScript resolves "x.js" to x.ts / x.d.ts
                        // (".mjs" -> .mts / .d.mts, ".cjs" -> .cts / .d.cts)
                        let cands: Vec<String> = if let Some(st) = resolved.strip_suffix(".js") {
                            vec![format!("{st}.d.ts"), format!("{st}.ts"), format!("{st}.tsx"), resolved.clone()]
                        } else if let Some(st) = resolved.strip_suffix(".mjs") {
                            vec![format!("{st}.d.mts"), format!("{st}.mts"), resolved.clone()]
                        } else if let Some(st) = resolved.strip_suffix(".cjs") {
                            vec![format!("{st}.d.cts"), format!("{st}.cts"), resolved.clone()]
                        } else {
                            vec![resolved.clone()]
                        };
                        if let Some(so) = &schema_out_abs {
                            if !cands.iter().any(|c| c == so) {
                                v20.push(Violation { sig: format!("C20|e2e|schema-import-does-not-resolve|{kind}"), detail: format!("{path} imports {spec:?} which resolves to {resolved}; the schema output is {so}"), replay: replay20.clone() });
                            }
                        }
                    }
                }
            } else if kind == "operationTypeDefinition" {
                v20.push(Violation { sig: "C20|e2e|schema-import-missing".into(), detail: format!("{path} has no `import type * as Schema`"), replay: replay20.clone() });
            }
        }
        // ---- the map next to it
        let map_path = format!("{path}.map");
        let Ok(map_text) = std::fs::read_to_string(&map_path) else {
            if kind != "graphqlSource" {
                v06.push(Violation { sig: format!("C06|e2e|map-file-missing|{kind}"), detail: format!("{map_path} does not exist"), replay: replay06.clone() });
            }
            continue;
        };
        maps += 1;
        if !gen_text.trim_end().ends_with(&format!("//# sourceMappingURL={}", Path::new(&map_path).file_name().unwrap().to_string_lossy())) {
            v06.push(Violation { sig: format!("C06|e2e|sourceMappingURL-trailer|{kind}"), detail: format!("{path} does not end with a sourceMappingURL comment naming its map"), replay: replay06.clone() });
        }
        let map: Value = match serde_json::from_str(&map_text) {
            Ok(m) => m,
            Err(e) => {
                v06.push(Violation { sig: format!("C06|e2e|map-not-json|{kind}"), detail: format!("{map_path}: {e}"), replay: replay06.clone() });
                continue;
            }
        };
        if map["version"] != json!(3) {
            v06.push(Violation { sig: "C06|e2e|version".into(), detail: format!("{map_path}: version is {}", map["version"]), replay: replay06.clone() });
        }
        let (Some(sources), Some(names), Some(mappings)) = (map["sources"].as_array(), map["names"].as_array(), map["mappings"].as_str()) else {
            v06.push(Violation { sig: "C06|e2e|map-shape".into(), detail: format!("{map_path}: sources/names/mappings missing or of the wrong type"), replay: replay06.clone() });
            continue;
        };
        // sources resolve (relative to the map) to input files — C06 and C20
        let map_dir = Path::new(&map_path).parent().map(|p| p.to_string_lossy().to_string()).unwrap_or_default();
        let mut src_files: Vec<Option<&SrcFile>> = vec![];
        for s in sources {
            let s = s.as_str().unwrap_or("");
            let resolved = norm(&format!("{map_dir}/{s}"));
            let f = inputs.get(&resolved);
            if f.is_none() {
                // the model plugin's in-memory schema source ("(plugin)", not a path at all) has its own class
                let class = if s.ends_with("(plugin)") && pv.files.iter().any(|(p, t)| p.contains("graphql.config") && t.contains("nitrogql:model-plugin")) { "|virtual-plugin-source" } else { "" };
                v20.push(Violation { sig: if class.is_empty() { format!("C20|e2e|sources-entry-does-not-resolve|{kind}") } else { "C20|e2e|sources-entry-does-not-resolve|virtual-plugin-source".to_string() }, detail: format!("{map_path}: sources entry {s:?} resolves to {resolved}, which is not an input GraphQL file"), replay: replay20.clone() });
                // (C06 speaks of the entries that segments reference: see the segment loop)
            } else if !(s.starts_with("./") || s.starts_with("../")) {
                v20.push(Violation { sig: "C20|e2e|sources-entry-not-relative".into(), detail: format!("{map_path}: {s:?}"), replay: replay20.clone() });
            }
            src_files.push(f);
        }
        let dec = match decode_mappings(mappings) {
            Ok(d) => d,
            Err(e) => {
                v06.push(Violation { sig: format!("C06|e2e|mappings-undecodable|{kind}"), detail: format!("{map_path}: {e}"), replay: replay06.clone() });
                continue;
            }
        };
        let glines: Vec<&str> = gen_text.split('\n').collect();
        let mut prev = (-1i64, -1i64);
        let mut last_named: Option<((i64, i64, i64), String)> = None;
        let mut problems: BTreeMap<String, String> = BTreeMap::new();
        // named segments seen: (source file abs path?, orig line, orig col, name, generated identifier)
        let mut named_hits: Vec<(usize, i64, i64, String)> = vec![];
        for s in &dec.segs {
            segs += 1;
            if (s.gen_line, s.gen_col) < prev {
                problems.entry("segments-unordered".into()).or_insert(format!("{s:?} after {prev:?}"));
            }
            prev = (s.gen_line, s.gen_col);
            if s.gen_line as usize >= glines.len() || s.gen_col < 0 || s.gen_col as usize > utf16_len(glines[s.gen_line as usize]) {
                problems.entry("segment-outside-generated-text".into()).or_insert(format!("{s:?}"));
                continue;
            }
            let Some((si, ol, oc)) = s.src else { continue };
            if si < 0 || si as usize >= sources.len() {
                problems.entry(format!("source-index-out-of-range|{}", if si < 0 { "negative" } else { "too-large" })).or_insert(format!("{s:?} with {} sources", sources.len()));
                last_named = None;
                continue;
            }
            let Some(sf) = src_files[si as usize] else {
                problems.entry("segment-references-a-source-that-is-not-an-input-file".into()).or_insert(format!("{s:?}: sources[{si}] = {}", sources[si as usize]));
                continue;
            };
            let nlines = sf.text.split('\n').count() as i64;
            if ol < 0 || ol >= nlines || oc < 0 {
                problems.entry("original-position-outside-file".into()).or_insert(format!("{s:?}"));
                continue;
            }
            match s.name {
                Some(ni) => {
                    let name = names.get(ni.max(0) as usize).and_then(|n| n.as_str()).map(|s| s.to_string());
                    let Some(name) = name else {
                        problems.entry("name-index-out-of-range".into()).or_insert(format!("{s:?}"));
                        continue;
                    };
                    match tok_at(sf, ol, oc) {
                        None => {
                            problems.entry("named-segment-not-at-token-start".into()).or_insert(format!("{s:?} name {name:?}"));
                        }
                        Some(t) => {
                            let ok = t.text == name || definition_named(sf, t, &name);
                            if !ok {
                                problems.entry("name-is-not-the-construct-there".into()).or_insert(format!("{s:?}: name {name:?} but the token there is {:?}", t.text));
                            }
                        }
                    }
                    named_hits.push((si as usize, ol, oc, name.clone()));
                    last_named = Some(((si, ol, oc), name));
                }
                None => {
                    // range-closing segment: just past the mapped name, counted from where the named segment started
                    let closing = last_named.as_ref().is_some_and(|((lsi, ll, lc), n)| *lsi == si && *ll == ol && *lc + utf16_len(n) as i64 == oc);
                    if !closing && tok_at(sf, ol, oc).is_none() {
                        problems.entry("nameless-segment-not-at-token-start".into()).or_insert(format!("{s:?}"));
                    }
                }
            }
        }
        for (k, d) in problems {
            v06.push(Violation { sig: format!("C06|e2e|{k}|{kind}"), detail: format!("{map_path}: {d}"), replay: replay06.clone() });
        }
        // ---- completeness: every definition printed in this file has a named segment into its header
        let src_index_of = |abs_path: &str| -> Option<usize> { sources.iter().position(|s| norm(&format!("{map_dir}/{}", s.as_str().unwrap_or(""))) == abs_path) };
        let has_hit = |abs_path: &str, line: u32, col: u32, col16: u32, name: &str| -> bool {
            match src_index_of(abs_path) {
                None => false,
                Some(i) => named_hits.iter().any(|(si, l, c, n)| *si == i && *l == line as i64 && (*c == col as i64 || *c == col16 as i64) && n == name),
            }
        };
        if kind == "schemaTypeDefinition" || kind == "resolversTypeDefinition" {
            for (apath, sf) in inputs.iter().filter(|(_, f)| f.is_schema) {
                let Ok(doc) = refparse::parse_ts(&sf.text) else { continue };
                for t in doc.types() {
                    if t.ext {
                        continue; // extensions contribute members; the declaring identifier belongs to the definition
                    }
                    if kind == "resolversTypeDefinition" && matches!(t.kind, TKind::Input) {
                        continue;
                    }
                    if !has_hit(apath, t.name.p.line, t.name.p.col, t.name.p.col16, &t.name.s) {
                        v06.push(Violation { sig: format!("C06|e2e|completeness|type-name-not-mapped|{kind}|{}", t.kind.keyword()), detail: format!("{map_path}: no segment maps an identifier to the name of {} {} at {}:{} in {apath}", t.kind.keyword(), t.name.s, t.name.p.line, t.name.p.col), replay: replay06.clone() });
                    }
                    // interfaces are printed as the union of their implementers: their fields are not printed
                    if kind == "schemaTypeDefinition" && matches!(t.kind, TKind::Object | TKind::Input) {
                        for f in t.fields.iter().map(|f| &f.name).chain(t.input_fields.iter().map(|f| &f.name)) {
                            if !has_hit(apath, f.p.line, f.p.col, f.p.col16, &f.s) {
                                v06.push(Violation { sig: format!("C06|e2e|completeness|field-not-mapped|{kind}|{}", t.kind.keyword()), detail: format!("{map_path}: field {}.{} at {}:{} has no segment", t.name.s, f.s, f.p.line, f.p.col), replay: replay06.clone() });
                            }
                        }
                    }
                }
            }
        }
        if kind == "operationTypeDefinition" {
            // which operation file is this the declaration of?
            let opfile = pv.op_paths.iter().find(|p| {
                let stem = p.strip_suffix(".graphql").unwrap_or(p);
                abs(&format!("{stem}.{}", pv.decl_ext)) == *path
            });
            if let Some(opfile) = opfile {
                let parsed: Vec<(String, ExecDoc)> = pv.op_paths.iter().filter_map(|p| refparse::parse_exec(&inputs[&abs(p)].text).ok().map(|d| (abs(p), d))).collect();
                if let Some(idx) = parsed.iter().position(|(p, _)| *p == abs(opfile)) {
                    let cl = crate::refimport::closure(&parsed, idx);
                    // own definitions
                    for d in &parsed[idx].1.defs {
                        let (pos, name) = match d {
                            ExecDef::Op(o) => match &o.name {
                                Some(n) => (n.p, n.s.clone()),
                                None => continue,
                            },
                            ExecDef::Frag(f) => (f.p, f.name.s.clone()),
                            _ => continue,
                        };
                        if !has_hit(&parsed[idx].0, pos.line, pos.col, pos.col16, &name) {
                            v06.push(Violation { sig: format!("C06|e2e|completeness|own-definition-not-mapped|{}", if matches!(d, ExecDef::Op(_)) { "operation" } else { "fragment" }), detail: format!("{map_path}: {name} at {}:{} of {opfile} has no segment", pos.line, pos.col), replay: replay06.clone() });
                        }
                    }
                    // imported fragments: into the header of their definition in the *other* file
                    for (fi, n) in &cl.imported {
                        if let Some(fr) = parsed[*fi].1.frag(n) {
                            if !has_hit(&parsed[*fi].0, fr.p.line, fr.p.col, fr.p.col16, n) {
                                v06.push(Violation { sig: "C06|e2e|completeness|imported-fragment-not-mapped-to-its-file".into(), detail: format!("{map_path}: imported fragment {n} (defined in {}) has no segment into that file", parsed[*fi].0), replay: replay06.clone() });
                            }
                        }
                    }
                }
            }
        }
    }
    cli::cleanup(&dir);
    for v in [&mut v06, &mut v20] {
        v.sort_by(|a, b| a.sig.cmp(&b.sig));
        v.dedup_by(|a, b| a.sig == b.sig);
    }
    (v06, v20, maps, segs)
}

pub fn view_json(pv: &ProjView) -> Value {
    json!({"files":pv.files.iter().map(|(a,b)| json!([a,b])).collect::<Vec<_>>(),"root":pv.root,"schema_paths":pv.schema_paths,"op_paths":pv.op_paths,"schema_output":pv.schema_output,"resolvers_output":pv.resolvers_output,"decl_ext":pv.decl_ext,"schema_module_specifier":pv.schema_module_specifier})
}

/// is `t` the keyword of a definition named `name`? (fragments map their identifier to the `fragment` keyword)
fn definition_named(f: &SrcFile, t: &Tok, name: &str) -> bool {
    if t.kind != TK::Name || !matches!(t.text.as_str(), "fragment" | "query" | "mutation" | "subscription" | "type" | "interface" | "union" | "enum" | "input" | "scalar" | "directive") {
        return false;
    }
    // the next Name token after the keyword (skipping '@' for directives)
    let i = f.toks.iter().position(|x| x.byte == t.byte).unwrap_or(0);
    f.toks.iter().skip(i + 1).find(|x| x.kind == TK::Name).is_some_and(|x| x.text == name)
}

fn import_specifier(text: &str, alias: &str) -> Option<String> {
    for line in text.lines() {
        let l = line.trim();
        if l.starts_with("import") && l.contains(&format!("* as {alias} from")) {
            let i = l.find("from")? + 4;
            let rest = l[i..].trim().trim_end_matches(';').trim();
            return Some(rest.trim_matches('"').trim_matches('\'').to_string());
        }
    }
    None
}

/// run `n` generated projects; push the violations of `prop` ("C06" or "C20") into the report
pub fn run_projects(ctx: &Ctx, rep: &mut Report, prop: &str, quick: u64, thorough: u64) {
    crate::gen_syntax::set_allow_block(false);
    let n = ctx.budget(quick, thorough);
    let mut maps = 0;
    let mut segs = 0;
    for case in 0..n {
        let mut rng = ctx.rng("project", case);
        let Some(mut proj) = gen_project(&mut rng, &ProjOpts { hostile_trivia: true, ..ProjOpts::standard() }) else { continue };
        // a quarter of the projects configure plugins (the model plugin contributes a virtual schema source)
        if rng.chance(1, 4) {
            let set = *rng.pick(crate::genproj::PLUGIN_SETS);
            if crate::genproj::add_plugins(&mut proj.files, set) {
                rep.count(&format!("projects_with_plugins|{}", set.iter().map(|p| p.trim_start_matches("nitrogql:")).collect::<Vec<_>>().join("+")));
            }
        }
        let pv = ProjView::of(&proj);
        rep.trace_case(|| json!({"property":prop,"kind":"project","view":view_json(&pv)}));
        rep.eval();
        rep.count("cli_projects");
        let (v06, v20, m, s) = check_project(ctx, case, &pv);
        maps += m;
        segs += s;
        if m > 0 {
            rep.nontrivial(&format!("{:?}", pv.files));
            rep.count(&format!("projects_generated|mode={}", pv.decl_ext));
            rep.count(&format!("layout|schema_output={}", pv.schema_output.as_deref().map(|s| s.rsplit_once('/').map(|x| x.0).unwrap_or(".")).unwrap_or("-")));
            if pv.files.iter().any(|(_, t)| t.contains("#import")) {
                rep.count("projects_with_fragment_imports");
            }
            if pv.schema_paths.len() > 1 {
                rep.count("projects_with_several_schema_files");
            }
        } else {
            rep.count("projects_where_generate_did_not_succeed");
        }
        if case == 0 {
            rep.sample(json!({"kind":"project","schema_output":pv.schema_output,"resolvers_output":pv.resolvers_output,"files":pv.files.iter().map(|(p,t)| json!({"path":p,"text":clip(t,160)})).collect::<Vec<_>>()}));
        }
        rep.violations(if prop == "C06" { v06 } else { v20 });
        let _ = proj_json;
    }
    rep.add("cli_maps_checked", maps);
    rep.add("cli_segments_checked", segs);
}

pub fn replay(case: &Value, ctx: &Ctx, prop: &str) -> Vec<Violation> {
    match ProjView::from_json(&case["view"]) {
        Some(pv) => {
            let (a, b, _, _) = check_project(ctx, 0, &pv);
            if prop == "C06" { a } else { b }
        }
        None => vec![],
    }
}
