//! C03 — `check` accepts no operation that violates an implemented validation rule.
//! C04 — `check` raises no diagnostic on spec-valid operation documents.

use serde_json::{Value, json};

use crate::ctx::Ctx;
use crate::gen_ops::{OpOpts, gen_valid_doc, split_into_files};
use crate::gen_schema::{SchemaOpts, gen_valid_schema};
use crate::inject_ops::inject;
use crate::model::*;
use crate::pipeline::{Diag, PipelineResult, ProjectInput, run_project};
use crate::refimport::closure;
use crate::refparse;
use crate::render::{Feat, render_exec, render_ts};
use crate::report::{Report, Violation, clip};
use crate::schema_ix::{SchemaIx, merge_extensions};
use crate::validate::{validate_operations, validate_type_system, validate_unimplemented_rules};

pub const CONFIG: &str = "schema: ./schema.graphql\nextensions:\n  nitrogql:\n    generate:\n      schemaModuleSpecifier: \"@/schema\"\n      type:\n        scalarTypes:\n          Date: string\n          JSON: unknown\n          URL: string\n";

pub fn run_real(schema: &str, files: &[(String, String)]) -> PipelineResult {
    run_real_opt(schema, files, false)
}

pub fn run_real_opt(schema: &str, files: &[(String, String)], check_only: bool) -> PipelineResult {
    let sf = vec![("/proj/schema.graphql".to_string(), schema.to_string())];
    let of: Vec<(String, String)> = files.iter().map(|(p, t)| (format!("/proj/{p}"), t.clone())).collect();
    run_project(&ProjectInput { schema_files: &sf, op_files: &of, config: CONFIG, generate: false, check_only })
}

/// reference view of a project: (schema index, per file resolved document) — None if the reference parser rejects something
pub fn reference_project(schema: &str, files: &[(String, String)]) -> Option<(SchemaIx, Vec<(String, ExecDoc)>, Vec<ExecDoc>)> {
    let sdoc = refparse::parse_ts(schema).ok()?;
    if !validate_type_system(&sdoc).is_empty() {
        return None;
    }
    let ix = SchemaIx::new(&merge_extensions(&sdoc));
    let mut parsed = vec![];
    for (p, t) in files {
        parsed.push((format!("/proj/{p}"), refparse::parse_exec(t).ok()?));
    }
    let mut resolved = vec![];
    for i in 0..parsed.len() {
        let cl = closure(&parsed, i);
        if !cl.offenders.is_empty() {
            return None;
        }
        let mut defs: Vec<ExecDef> = parsed[i].1.defs.iter().filter(|d| !matches!(d, ExecDef::Import(_))).cloned().collect();
        for (f, n) in &cl.imported {
            if let Some(fr) = parsed[*f].1.frag(n) {
                defs.push(ExecDef::Frag(fr.clone()));
            }
        }
        resolved.push(ExecDoc { defs });
    }
    Some((ix, parsed, resolved))
}

fn op_diag_site(files: &[(String, String)], d: &Diag) -> String {
    match d.pos {
        None => "no-position".into(),
        Some((f, l, c)) => {
            // file indices: schema file is 0, operation files follow
            match f.checked_sub(1).and_then(|i| files.get(i)).and_then(|(_, t)| refparse::parse_exec(t).ok()) {
                None => "position-not-in-operation-file".into(),
                Some(doc) => site_class(&execdoc_node(&doc), l, c),
            }
        }
    }
}

// ------------------------------------------------------------------------------------ C04

pub fn check_valid(schema: &str, files: &[(String, String)]) -> Option<Vec<Violation>> {
    let replay = json!({"property":"C04","kind":"valid","schema":schema,"files":files.iter().map(|(p,t)| json!([p,t])).collect::<Vec<_>>()});
    let (ix, _, resolved) = reference_project(schema, files)?;
    // the reference validator must agree that every file is valid (implemented and unimplemented rules)
    for (i, d) in resolved.iter().enumerate() {
        let mut iss = validate_operations(&ix, d);
        // a fragment-only file legitimately has unused fragments; other unimplemented rules must hold
        iss.extend(validate_unimplemented_rules(&ix, d).into_iter().filter(|x| !(x.rule == "fragment-unused" && i > 0)));
        if !iss.is_empty() {
            return None;
        }
    }
    let r = run_real(schema, files);
    let mut out = vec![];
    for (stage, p) in &r.panics {
        out.push(Violation { sig: format!("C04|panic|{}|{}", p.site(), p.msg_class()), detail: format!("{stage}: {}", p.msg), replay: replay.clone() });
    }
    if !r.schema_diags.is_empty() {
        return None; // C05's business
    }
    for d in &r.op_diags {
        if d.kind == "ParseError" {
            return None;
        }
        let mut site = op_diag_site(files, d);
        if d.kind == "TypeMismatch" {
            let expected = d.message.split('\'').nth(1).unwrap_or("");
            let class = if expected.starts_with('[') { "list".to_string() } else { let b = expected.trim_end_matches('!'); if matches!(b, "Int" | "Float" | "String" | "Boolean" | "ID") { b.to_string() } else { "other-named".to_string() } };
            let nn = if expected.ends_with('!') { "non-null" } else { "nullable" };
            let value_kind = site.rsplit('>').next().unwrap_or("").to_string();
            site = format!("expected={class}|{nn}|value={value_kind}");
        }
        out.push(Violation { sig: format!("C04|false-positive|{}|{}", d.kind, site), detail: format!("valid document rejected: {} at {:?} — {}", d.message, d.pos, clip(&files.iter().map(|(p, t)| format!("== {p}\n{t}")).collect::<Vec<_>>().join("\n"), 900)), replay: replay.clone() });
    }
    out.sort_by(|a, b| a.sig.cmp(&b.sig));
    out.dedup_by(|a, b| a.sig == b.sig);
    Some(out)
}

pub fn gen_project(rng: &mut crate::rng::Rng, rare_features: bool) -> Option<(String, ExecDoc, SchemaIx)> {
    let mut so = SchemaOpts::default_for(rng);
    so.interface_chains = true;
    let (schema, _) = gen_valid_schema(rng, &so);
    let ix = SchemaIx::new(&schema);
    let mut oo = OpOpts::standard();
    oo.shorthand = true;
    if rare_features {
        oo.shared_names = true;
        oo.coercing_literals = rng.coin();
        oo.nullable_var_with_default = rng.coin();
    }
    let doc = gen_valid_doc(rng, &ix, &oo)?;
    Some((render_ts(&schema, None, Feat::plain()), doc, ix))
}

pub fn run_c04(ctx: &Ctx, rep: &mut Report) {
    crate::gen_syntax::set_allow_block(false);
    rep.note("feature mask: no block strings (C07)");
    let n = ctx.budget(48_000, 1_000_000);
    for case in 0..n {
        let mut rng = ctx.rng("case", case);
        let Some((schema, doc, _)) = gen_project(&mut rng, true) else {
            rep.count("generator_gave_up");
            continue;
        };
        let files = split_into_files(&doc, &mut rng);
        let texts: Vec<(String, String)> = files.iter().map(|(p, d)| (p.clone(), if rng.chance(1, 5) { render_exec(d, Some(&mut rng), Feat::hostile()) } else { render_exec(d, None, Feat::plain()) })).collect();
        rep.trace_case(|| json!({"property":"C04","kind":"valid","schema":schema,"files":texts.iter().map(|(p,t)| json!([p,t])).collect::<Vec<_>>()}));
        rep.eval();
        if case == 0 {
            rep.sample(json!({"files": texts.iter().map(|(p,t)| json!({"path":p,"text":clip(t, 600)})).collect::<Vec<_>>()}));
        }
        // a sample also goes through the real CLI with the schema given as an introspection result (the other schema
        // route of `check`): the same valid documents must be accepted there
        if case % 24 == 0 {
            if let Some((ix2, _, _)) = reference_project(&schema, &texts) {
                use crate::introspect::{IntroStyle, introspect};
                let style = IntroStyle { full: rng.coin(), meta_types: rng.coin(), shuffle: rng.coin() };
                let intro = introspect(&ix2, None, style, &mut rng).to_string();
                let dir = crate::cli::scratch_dir(&ctx.out, "c04json", case);
                let mut files: Vec<(String, String)> = texts.clone();
                files.push(("schema.json".into(), intro));
                files.push(("graphql.config.yaml".into(), "schema: ./schema.json\ndocuments:\n  - ./ops/**/*.graphql\n  - ./shared/*.graphql\n".into()));
                if crate::cli::write_project(&dir, &files).is_ok() {
                    let r = crate::cli::run_cli(&ctx.cli, &dir, &["check", "--output-format", "json"], std::time::Duration::from_secs(60));
                    rep.count("valid_documents_checked_through_cli_with_introspection_schema");
                    if r.status != Some(0) && r.panicked().is_none() && !r.timed_out {
                        let msg = serde_json::from_str::<Value>(r.stdout.lines().rev().find(|l| l.starts_with('{')).unwrap_or("{}")).ok().and_then(|v| v["check"]["errors"][0]["message"].as_str().map(|s| s.to_string())).unwrap_or_default();
                        let class: String = msg.split('\'').step_by(2).collect::<Vec<_>>().join("_").chars().take(60).collect();
                        rep.violations(vec![Violation { sig: format!("C04|false-positive|introspection-schema-route|{class}"), detail: format!("valid documents are accepted with the SDL schema but rejected when the same schema is given as an introspection result: {} — {}", clip(&r.stdout, 400), clip(&texts.iter().map(|(p, t)| format!("== {p}\n{t}")).collect::<Vec<_>>().join("\n"), 600)), replay: json!({"property":"C04","kind":"valid","schema":schema,"files":texts.iter().map(|(p,t)| json!([p,t])).collect::<Vec<_>>()}) }]);
                    }
                }
                crate::cli::cleanup(&dir);
            }
        }
        match check_valid(&schema, &texts) {
            None => rep.count("skipped"),
            Some(vs) => {
                rep.count("valid_documents_checked");
                rep.nontrivial(&format!("{}\u{1}{}", schema, texts.iter().map(|(_, t)| t.as_str()).collect::<Vec<_>>().join("\u{1}")));
                if files.len() > 1 {
                    rep.count("with_imports");
                }
                rep.violations(vs);
            }
        }
    }
}

// ------------------------------------------------------------------------------------ C03

pub fn check_fault(schema: &str, op_text: &str, rule: &str, label: &str, kinds: &[String]) -> Option<Vec<Violation>> {
    let replay = json!({"property":"C03","kind":"fault","schema":schema,"op":op_text,"rule":rule,"label":label,"kinds":kinds});
    let files = vec![("ops/main.graphql".to_string(), op_text.to_string())];
    let (ix, _, resolved) = reference_project(schema, &files)?;
    let issues = validate_operations(&ix, &resolved[0]);
    if issues.is_empty() || !issues.iter().any(|i| i.rule.starts_with(rule)) || !issues.iter().all(|i| i.rule.starts_with(rule)) {
        return None; // not a confirmed single-rule fault
    }
    // what happens after a wrongly accepted document (panics, unbounded recursion in the generators) is C08's business:
    // this monitor stops after check
    let r = run_real_opt(schema, &files, true);
    if !r.schema_diags.is_empty() || r.op_diags.iter().any(|d| d.kind == "ParseError") {
        return None;
    }
    let mut out = vec![];
    for (stage, p) in &r.panics {
        out.push(Violation { sig: format!("C03|panic-after-accepting|{rule}|{}|{}", p.site(), p.msg_class()), detail: format!("{stage} panicked: {} — document {:?}", p.msg, clip(op_text, 500)), replay: replay.clone() });
    }
    if r.op_diags.is_empty() {
        if r.panics.is_empty() || r.check_passed {
            out.push(Violation { sig: format!("C03|accepted|{rule}|{label}"), detail: format!("document violating {rule} ({label}: {}) passes check — {:?}", issues[0].detail, clip(op_text, 700)), replay: replay.clone() });
        }
    } else if !r.op_diags.iter().any(|d| kinds.iter().any(|k| *k == d.kind)) {
        let got: Vec<String> = {
            let mut g: Vec<String> = r.op_diags.iter().map(|d| d.kind.clone()).collect();
            g.sort();
            g.dedup();
            g
        };
        out.push(Violation { sig: format!("C03|diagnosed-with-foreign-kind|{rule}|{label}|got={}", got.join("+")), detail: format!("document violating {rule} ({label}) is only diagnosed as {got:?} — {:?}", clip(op_text, 700)), replay: replay.clone() });
    }
    Some(out)
}

pub fn run_c03(ctx: &Ctx, rep: &mut Report) {
    crate::gen_syntax::set_allow_block(false);
    rep.note("feature mask: no block strings (C07), no coercing literals in the base documents (C04)");
    let n = ctx.budget(25_000, 600_000);
    for case in 0..n {
        let mut rng = ctx.rng("case", case);
        let Some((schema, doc, ix)) = gen_project(&mut rng, false) else {
            rep.count("generator_gave_up");
            continue;
        };
        for k in 0..4 {
            let Some(f) = inject(&mut rng, &ix, &doc) else {
                rep.count("no_injector_applicable");
                continue;
            };
            let text = render_exec(&f.doc, None, Feat::plain());
            let kinds: Vec<String> = f.kinds.iter().map(|s| s.to_string()).collect();
            rep.trace_case(|| json!({"property":"C03","kind":"fault","schema":schema,"op":text,"rule":f.rule,"label":f.label,"kinds":kinds}));
            rep.eval();
            // a sample of the mutants also goes through the real CLI (its `check` command is what the property names):
            // as one file, or -- for faults of fragment definitions themselves -- with the fragments in a file of their
            // own that no document imports
            if (case * 4 + k) % 25 == 0 || ((f.rule == "R13" || f.label.starts_with("fragment-on-")) && (case + k) % 3 == 0) {
                let frag_only = (f.rule == "R13" || f.label.starts_with("fragment-on-")) && rng.coin();
                let mut files: Vec<(String, String)> = vec![("schema.graphql".into(), schema.clone()), ("graphql.config.yaml".into(), "schema: ./schema.graphql\ndocuments:\n  - ./ops/*.graphql\n".into())];
                if frag_only {
                    let frags = ExecDoc { defs: f.doc.defs.iter().filter(|d| matches!(d, ExecDef::Frag(_))).cloned().collect() };
                    files.push(("ops/frags.graphql".into(), render_exec(&frags, None, Feat::plain())));
                    files.push(("ops/main.graphql".into(), "query Other {\n  __typename\n}\n".into()));
                } else {
                    files.push(("ops/main.graphql".into(), text.clone()));
                }
                // the reference validator must confirm the fault on what the CLI will see
                let confirmed = if frag_only {
                    let frags = ExecDoc { defs: f.doc.defs.iter().filter(|d| matches!(d, ExecDef::Frag(_))).cloned().collect() };
                    validate_operations(&ix, &frags).iter().any(|i| i.rule.starts_with(f.rule))
                } else {
                    true
                };
                let dir = crate::cli::scratch_dir(&ctx.out, "c03cli", case * 4 + k);
                if confirmed && crate::cli::write_project(&dir, &files).is_ok() {
                    let r = crate::cli::run_cli(&ctx.cli, &dir, &["check", "--output-format", "json"], std::time::Duration::from_secs(60));
                    rep.count(if frag_only { "cli_mutants|fragment-only-file" } else { "cli_mutants|single-file" });
                    if r.status == Some(0) && r.panicked().is_none() {
                        // only meaningful when the library route diagnoses this mutant (otherwise it is the library finding)
                        let lib = check_fault(&schema, &text, f.rule, &f.label, &kinds);
                        if lib.as_ref().is_some_and(|v| v.is_empty()) {
                            rep.violations(vec![Violation { sig: format!("C03|cli-accepts-what-the-library-diagnoses|{}|{}", f.rule, if frag_only { "fragment-only-file" } else { "single-file" }), detail: format!("`nitrogql check` exits 0 on a project whose document violates {} ({}) — files {:?}", f.rule, f.label, clip(&format!("{:?}", &files[2..]), 700)), replay: json!({"property":"C03","kind":"fault","schema":schema,"op":text,"rule":f.rule,"label":f.label,"kinds":kinds}) }]);
                        }
                    }
                }
                crate::cli::cleanup(&dir);
            }
            match check_fault(&schema, &text, f.rule, &f.label, &kinds) {
                None => rep.count("mutant_not_confirmed_single_fault"),
                Some(vs) => {
                    let mut parts = f.label.split('|');
                    let variant = parts.next().unwrap_or("");
                    let site = f.label.rsplit('|').next().unwrap_or("");
                    rep.count(&format!("mutants|{}|{variant}", f.rule));
                    rep.count(&format!("site|{site}"));
                    rep.nontrivial(&format!("{schema}\u{1}{text}"));
                    rep.violations(vs);
                }
            }
            if case == 0 && k == 0 {
                rep.sample(json!({"rule":f.rule,"label":f.label,"operation":clip(&text, 600)}));
            }
        }
    }
}

pub fn replay(case: &Value) -> Vec<Violation> {
    let files: Vec<(String, String)> = case["files"].as_array().map(|a| a.iter().map(|x| (x[0].as_str().unwrap_or("").to_string(), x[1].as_str().unwrap_or("").to_string())).collect()).unwrap_or_default();
    let s = |k: &str| case[k].as_str().unwrap_or("").to_string();
    match case["kind"].as_str() {
        Some("valid") => check_valid(&s("schema"), &files).unwrap_or_default(),
        Some("fault") => {
            let kinds: Vec<String> = case["kinds"].as_array().map(|a| a.iter().filter_map(|x| x.as_str().map(|s| s.to_string())).collect()).unwrap_or_default();
            check_fault(&s("schema"), &s("op"), &s("rule"), &s("label"), &kinds).unwrap_or_default()
        }
        _ => vec![],
    }
}
