//! C18 — CLI status, diagnostics and written files are consistent and well-located.
//! Engine: the real `nitrogql-cli` binary over generated project directories with 0-3 injected faults.

use std::collections::{BTreeMap, BTreeSet};
use std::path::Path;
use std::time::Duration;

use serde_json::{Value, json};

use crate::cli;
use crate::ctx::Ctx;
use crate::genproj::{ProjOpts, Project, gen_project};
use crate::inject_ops;
use crate::inject_ts;
use crate::model::*;
use crate::refparse::{self, TK};
use crate::render::{Feat, render_exec, render_ts};
use crate::report::{Report, Violation, clip};
use crate::rng::Rng;
use crate::schema_ix::{SchemaIx, merge_extensions};
use crate::validate::{validate_operations, validate_type_system};

/// stages in the order the CLI reaches them
#[derive(Clone, Copy, Debug, PartialEq, Eq, PartialOrd, Ord)]
pub enum Stage {
    SchemaParse,
    OpParse,
    SchemaCheck,
    OpImport,
    OpCheck,
}

#[derive(Clone, Debug)]
pub struct FaultRec {
    pub stage: Stage,
    /// path relative to the scratch root
    pub file: String,
    pub label: String,
}

fn norm(p: &str) -> String {
    let mut st: Vec<&str> = vec![];
    for c in p.split('/') {
        match c {
            "" | "." => {}
            ".." => {
                st.pop();
            }
            n => st.push(n),
        }
    }
    format!("/{}", st.join("/"))
}

fn token_starts(text: &str) -> Option<BTreeSet<(u32, u32)>> {
    let toks = refparse::lex(text).ok()?;
    let mut s = BTreeSet::new();
    for t in toks {
        if t.kind != TK::Eof {
            s.insert((t.p.line, t.p.col));
            s.insert((t.p.line, t.p.col16));
        }
    }
    Some(s)
}

fn break_syntax(text: &str, rng: &mut Rng) -> String {
    let variants = 4;
    match rng.below(variants) {
        0 => {
            // drop the last closing brace
            match text.rfind('}') {
                Some(i) => format!("{}{}", &text[..i], &text[i + 1..]),
                None => format!("{text} {{"),
            }
        }
        1 => format!("{text}\n%%%\n"),
        2 => format!("{text}\n\"unterminated\n"),
        _ => {
            // a stray closing parenthesis in the middle
            let mid = text.len() / 2;
            let mut k = mid;
            while !text.is_char_boundary(k) {
                k += 1;
            }
            format!("{} ) {}", &text[..k], &text[k..])
        }
    }
}

pub struct Case {
    pub files: Vec<(String, String)>,
    pub root: String,
    pub schema_paths: Vec<String>,
    pub op_paths: Vec<String>,
    pub faults: Vec<FaultRec>,
    pub commands: Vec<String>,
    pub format: String,
    pub decl_ext: String,
}

fn case_json(c: &Case) -> Value {
    json!({"property":"C18","kind":"cli","files":c.files.iter().map(|(p,t)| json!([p,t])).collect::<Vec<_>>(),"root":c.root,"schema_paths":c.schema_paths,"op_paths":c.op_paths,
        "faults":c.faults.iter().map(|f| json!({"stage":format!("{:?}", f.stage),"file":f.file,"label":f.label})).collect::<Vec<_>>(),"commands":c.commands,"format":c.format,"decl_ext":c.decl_ext})
}

fn case_from_json(v: &Value) -> Option<Case> {
    let strs = |v: &Value| -> Vec<String> { v.as_array().map(|a| a.iter().filter_map(|x| x.as_str().map(|s| s.to_string())).collect()).unwrap_or_default() };
    let stage = |s: &str| match s {
        "SchemaParse" => Stage::SchemaParse,
        "OpParse" => Stage::OpParse,
        "SchemaCheck" => Stage::SchemaCheck,
        "OpImport" => Stage::OpImport,
        _ => Stage::OpCheck,
    };
    Some(Case {
        files: v["files"].as_array()?.iter().map(|x| (x[0].as_str().unwrap_or("").to_string(), x[1].as_str().unwrap_or("").to_string())).collect(),
        root: v["root"].as_str()?.to_string(),
        schema_paths: strs(&v["schema_paths"]),
        op_paths: strs(&v["op_paths"]),
        faults: v["faults"].as_array()?.iter().map(|f| FaultRec { stage: stage(f["stage"].as_str().unwrap_or("")), file: f["file"].as_str().unwrap_or("").to_string(), label: f["label"].as_str().unwrap_or("").to_string() }).collect(),
        commands: strs(&v["commands"]),
        format: v["format"].as_str()?.to_string(),
        decl_ext: v["decl_ext"].as_str().unwrap_or("d.graphql.ts").to_string(),
    })
}

/// a located diagnostic extracted from the CLI output
#[derive(Debug, Clone)]
struct Located {
    path: String,
    /// 0-based
    line: u32,
    col: u32,
    file_type: Option<String>,
    stage_hint: &'static str,
}

/// `path:line:col` occurrences (1-based) in free text
fn locations_in_text(text: &str, known_paths: &[String]) -> Vec<Located> {
    let mut out = vec![];
    for line in text.lines() {
        for p in known_paths {
            if let Some(i) = line.find(p.as_str()) {
                let rest = &line[i + p.len()..];
                let mut it = rest.strip_prefix(':').unwrap_or("").split(':');
                if let (Some(l), Some(c)) = (it.next(), it.next()) {
                    let c: String = c.chars().take_while(|x| x.is_ascii_digit()).collect();
                    if let (Ok(l), Ok(c)) = (l.parse::<u32>(), c.parse::<u32>()) {
                        if l >= 1 && c >= 1 {
                            out.push(Located { path: p.clone(), line: l - 1, col: c - 1, file_type: None, stage_hint: "text" });
                        }
                    }
                }
            }
        }
    }
    out
}

pub fn check_case(ctx: &Ctx, n: u64, case: &Case) -> Vec<Violation> {
    let replay = case_json(case);
    let mk = |sig: String, detail: String| Violation { sig, detail, replay: replay.clone() };
    let dir = cli::scratch_dir(&ctx.out, "c18", n);
    let mut out = vec![];
    if cli::write_project(&dir, &case.files).is_err() {
        cli::cleanup(&dir);
        return out;
    }
    let before = cli::snapshot(&dir);
    let mut args: Vec<&str> = case.commands.iter().map(|s| s.as_str()).collect();
    args.push("--output-format");
    args.push(&case.format);
    let (r, style) = cli::run_cli_any_style(&ctx.cli, &dir, &case.root, &case.files, &args, Duration::from_secs(120));
    let after = cli::snapshot(&dir);
    let abs = |rel: &str| norm(&format!("{}/{}", dir.to_string_lossy(), rel));
    let input_abs: BTreeMap<String, (String, &'static str)> = case
        .schema_paths
        .iter()
        .map(|p| (abs(p), (p.clone(), "schema")))
        .chain(case.op_paths.iter().map(|p| (abs(p), (p.clone(), "operation"))))
        .collect();
    let text_of = |rel: &str| case.files.iter().find(|(p, _)| p == rel).map(|(_, t)| t.clone()).unwrap_or_default();
    let first_stage = case.faults.iter().map(|f| f.stage).min();
    let fmt = case.format.as_str();
    let what = format!("commands {:?} ({style}) format {fmt} faults {:?}", case.commands, case.faults.iter().map(|f| format!("{:?}:{}:{}", f.stage, f.file, f.label)).collect::<Vec<_>>());

    // ---- crash detection
    if let Some(l) = r.panicked() {
        out.push(mk(format!("C18|cli-panicked|{}", r.panic_site().unwrap_or_default()), format!("{l} (exit {:?}) — {what}", r.status)));
        cli::cleanup(&dir);
        return out;
    }
    if r.timed_out || r.signal.is_some() {
        out.push(mk(format!("C18|cli-abnormal-termination|signal={:?}|timeout={}", r.signal, r.timed_out), format!("{what} stderr {}", clip(&r.stderr, 300))));
        cli::cleanup(&dir);
        return out;
    }
    // ---- exit status
    let expect_ok = case.faults.is_empty();
    match (expect_ok, r.status) {
        (true, Some(0)) | (false, Some(1)) => {}
        (true, s) => {
            // a diagnostic on a project without faults: say which
            let diag = first_message(&r, fmt);
            out.push(mk(format!("C18|exit-nonzero-without-fault|status={s:?}|{}", crate::real::strip_names(&diag).chars().take(60).collect::<String>()), format!("exit {s:?} although the project has no fault: {diag} — {what}; stderr {}", clip(&r.stderr, 400))));
            cli::cleanup(&dir);
            return out;
        }
        (false, s) => {
            out.push(mk(format!("C18|exit-status-with-fault|status={s:?}|first-stage={:?}", first_stage.unwrap()), format!("exit {s:?} although the project has faults — {what}; stderr {}", clip(&r.stderr, 300))));
        }
    }
    // ---- output well-formedness and located diagnostics
    let mut located: Vec<Located> = vec![];
    let known: Vec<String> = input_abs.keys().cloned().collect();
    let mut listed_files: Vec<String> = vec![];
    match fmt {
        "json" => match serde_json::from_str::<Value>(r.stdout.trim()) {
            Err(e) => out.push(mk("C18|json-stdout-not-one-document".into(), format!("{e}: stdout {:?} — {what}", clip(&r.stdout, 300)))),
            Ok(v) => {
                if let Some(errs) = v["check"]["errors"].as_array() {
                    for e in errs {
                        if let Some(f) = e["file"].as_object() {
                            located.push(Located { path: norm(f["path"].as_str().unwrap_or("")), line: f["line"].as_u64().unwrap_or(0) as u32, col: f["column"].as_u64().unwrap_or(0) as u32, file_type: e["fileType"].as_str().map(|s| s.to_string()), stage_hint: "check" });
                        }
                    }
                }
                if let Some(m) = v["error"]["message"].as_str() {
                    // command errors (parse stage etc.) carry their location in the rendered text
                    let raw_known: Vec<String> = known.clone();
                    let mut l = locations_in_text(&m.replace("/./", "/"), &raw_known);
                    for x in l.iter_mut() {
                        x.stage_hint = "command-error";
                    }
                    located.extend(l);
                }
                if let Some(fs) = v["generate"]["files"].as_array() {
                    for f in fs {
                        listed_files.push(norm(f["path"].as_str().unwrap_or("")));
                    }
                }
            }
        },
        "rdjson" => match serde_json::from_str::<Value>(r.stdout.trim()) {
            Err(e) => out.push(mk("C18|rdjson-stdout-not-one-document".into(), format!("{e}: stdout {:?} — {what}", clip(&r.stdout, 300)))),
            Ok(v) => {
                if let Some(ds) = v["diagnostics"].as_array() {
                    for d in ds {
                        if let Some(p) = d["location"]["path"].as_str() {
                            let l = d["location"]["range"]["start"]["line"].as_u64().unwrap_or(1) as u32;
                            let c = d["location"]["range"]["start"]["column"].as_u64().unwrap_or(1) as u32;
                            located.push(Located { path: norm(p), line: l.saturating_sub(1), col: c.saturating_sub(1), file_type: None, stage_hint: "check" });
                        }
                    }
                }
            }
        },
        _ => {
            if !r.stdout.trim().is_empty() && !expect_ok {
                // human format prints diagnostics on stderr; nothing is demanded of stdout
            }
            located.extend(locations_in_text(&r.stderr.replace("/./", "/"), &known));
        }
    }
    // ---- every located diagnostic names an input file of the right kind at a token start
    for l in &located {
        match input_abs.get(&l.path) {
            None => out.push(mk(format!("C18|diagnostic-names-non-input-file|{}", l.stage_hint), format!("{} is not an input file — {what}", l.path))),
            Some((rel, kind)) => {
                if let Some(ft) = &l.file_type {
                    if ft != kind {
                        out.push(mk(format!("C18|diagnostic-file-kind|says={ft}|is={kind}"), format!("{} reported as {ft} — {what}", l.path)));
                    }
                }
                let text = text_of(rel);
                let nlines = text.split('\n').count() as u32;
                if l.line >= nlines {
                    out.push(mk(format!("C18|diagnostic-line-outside-file|{}", l.stage_hint), format!("{}:{}:{} but the file has {nlines} lines — {what}", l.path, l.line, l.col)));
                    continue;
                }
                // token-start check only for check-stage diagnostics of files that lex
                if l.stage_hint == "check" {
                    if let Some(starts) = token_starts(&text) {
                        if !starts.contains(&(l.line, l.col)) {
                            out.push(mk(format!("C18|diagnostic-not-at-token-start|{fmt}"), format!("{}:{}:{} (0-based) is not the start of a token — {what}", l.path, l.line, l.col)));
                        }
                    }
                }
            }
        }
    }
    // ---- faults must be located; every offending file of the reported stage named
    if let Some(stage) = first_stage {
        let offenders: BTreeSet<String> = case.faults.iter().filter(|f| f.stage == stage).map(|f| abs(&f.file)).collect();
        let named: BTreeSet<String> = located.iter().map(|l| l.path.clone()).collect();
        // a check-stage fault of an operation file may legitimately be located in a file it imports: the variable
        // definition is in the operation file, the ill-typed use of it inside the imported fragment (nitrogql reports
        // at the use). Such an offender counts as named when a diagnostic names it or a file of its import closure.
        let reach_of = |o: &String| -> BTreeSet<String> {
            let mut seen: BTreeSet<String> = BTreeSet::new();
            let mut work = vec![o.clone()];
            while let Some(f) = work.pop() {
                if !seen.insert(f.clone()) {
                    continue;
                }
                if let Some((rel, _)) = input_abs.get(&f) {
                    for line in text_of(rel).lines() {
                        let l = line.trim_start();
                        if l.starts_with("#import") {
                            if let Some(q) = l.rfind(" from ") {
                                let path = l[q + 6..].trim().trim_matches('"');
                                work.push(crate::refimport::resolve_path(&f, path));
                            }
                        }
                    }
                }
            }
            seen
        };
        let named_for = |o: &String| -> bool { if stage == Stage::OpCheck { reach_of(o).iter().any(|f| named.contains(f)) } else { named.contains(o) } };
        if located.is_empty() {
            let st = if matches!(stage, Stage::SchemaParse | Stage::OpParse) { "parse-stage".to_string() } else { format!("{stage:?}") };
            out.push(mk(format!("C18|no-located-diagnostic|{fmt}|stage={st}"), format!("exit {:?} but nothing in the output locates a fault by file, line and column — {what}; stdout {:?} stderr {:?}", r.status, clip(&r.stdout, 300), clip(&r.stderr, 300))));
        } else if !offenders.iter().any(|o| named_for(o)) {
            out.push(mk(format!("C18|located-diagnostics-miss-the-faulty-files|{fmt}|stage={stage:?}"), format!("faulty files {offenders:?}, named files {named:?} — {what}")));
        } else if matches!(stage, Stage::OpCheck | Stage::OpParse | Stage::OpImport) {
            for o in &offenders {
                if !named_for(o) {
                    out.push(mk(format!("C18|offending-operation-file-not-named|{fmt}|stage={stage:?}"), format!("{o} has a fault but no diagnostic names it (named: {named:?}) — {what}")));
                }
            }
        }
    }
    // ---- file system effects
    let changed: BTreeSet<String> = after.iter().filter(|(p, h)| before.get(*p) != Some(h)).map(|(p, _)| abs(p)).chain(before.keys().filter(|p| !after.contains_key(*p)).map(|p| abs(p))).collect();
    let is_generate = case.commands.iter().any(|c| c == "generate");
    if !is_generate || !expect_ok {
        if !changed.is_empty() {
            out.push(mk(format!("C18|files-written-without-successful-generate|generate={is_generate}|faults={}", !expect_ok), format!("changed files {changed:?} — {what}")));
        }
    } else if fmt == "json" && r.status == Some(0) {
        let listed: BTreeSet<String> = listed_files.iter().cloned().collect();
        for l in &listed {
            if !Path::new(l).exists() {
                out.push(mk("C18|listed-file-does-not-exist".into(), format!("{l} is listed but does not exist — {what}")));
            }
        }
        for c in &changed {
            if !listed.contains(c) {
                out.push(mk("C18|file-written-but-not-listed".into(), format!("{c} was written but is not listed — {what}")));
            }
        }
        for l in &listed {
            if !changed.contains(l) {
                out.push(mk("C18|listed-file-not-written".into(), format!("{l} is listed but was not written — {what}")));
            }
        }
        // one declaration file per operation file
        for p in &case.op_paths {
            let stem = p.strip_suffix(".graphql").unwrap_or(p);
            let want = abs(&format!("{stem}.{}", case.decl_ext));
            if !listed.contains(&want) {
                out.push(mk("C18|declaration-file-missing-for-operation-file".into(), format!("{want} not among the listed files {listed:?} — {what}")));
            }
        }
    } else if r.status == Some(0) && changed.is_empty() {
        out.push(mk("C18|generate-wrote-nothing".into(), format!("{what}")));
    }
    cli::cleanup(&dir);
    out.sort_by(|a, b| a.sig.cmp(&b.sig));
    out.dedup_by(|a, b| a.sig == b.sig);
    out
}

fn first_message(r: &cli::CliRun, fmt: &str) -> String {
    if fmt == "json" {
        if let Ok(v) = serde_json::from_str::<Value>(r.stdout.trim()) {
            if let Some(e) = v["check"]["errors"].as_array().and_then(|a| a.first()) {
                return e["message"].as_str().unwrap_or("").to_string();
            }
            if let Some(m) = v["error"]["message"].as_str() {
                return m.lines().last().unwrap_or("").to_string();
            }
        }
    }
    r.stderr.lines().find(|l| !l.trim().is_empty() && !l.contains("finished")).unwrap_or("").to_string()
}

/// build a case from a valid project by injecting `k` faults
pub fn make_case(rng: &mut Rng, proj: &Project, k: usize) -> Option<Case> {
    let mut files = proj.files.clone();
    let mut faults: Vec<FaultRec> = vec![];
    let schema_ix = SchemaIx::new(&merge_extensions(&proj.schema_model));
    let mut touched: BTreeSet<String> = BTreeSet::new();
    for _ in 0..k {
        let which = rng.below(6);
        if proj.schema_is_json && matches!(which, 0 | 2 | 5) {
            continue; // the SDL fault injectors do not apply to an introspection result
        }
        match which {
            0 => {
                let p = proj.schema_paths[rng.below(proj.schema_paths.len())].clone();
                if touched.contains(&p) {
                    continue;
                }
                let t = files.iter_mut().find(|(fp, _)| *fp == p)?;
                let broken = break_syntax(&t.1, rng);
                if refparse::parse_ts(&broken).is_ok() {
                    continue;
                }
                t.1 = broken;
                touched.insert(p.clone());
                faults.push(FaultRec { stage: Stage::SchemaParse, file: p, label: "schema-syntax".into() });
            }
            1 => {
                let p = proj.op_paths[rng.below(proj.op_paths.len())].clone();
                if touched.contains(&p) {
                    continue;
                }
                let t = files.iter_mut().find(|(fp, _)| *fp == p)?;
                let broken = break_syntax(&t.1, rng);
                if refparse::parse_exec(&broken).is_ok() {
                    continue;
                }
                t.1 = broken;
                touched.insert(p.clone());
                faults.push(FaultRec { stage: Stage::OpParse, file: p, label: "operation-syntax".into() });
            }
            2 => {
                // a type-system rule fault inside one schema file (the file is re-rendered from its own definitions)
                if faults.iter().any(|f| f.stage == Stage::SchemaCheck) {
                    continue;
                }
                let Some(f) = inject_ts::inject(rng, &proj.schema_model) else { continue };
                let issues = validate_type_system(&f.doc);
                if issues.is_empty() {
                    continue;
                }
                // put the whole mutated schema into the first schema file, empty the others? that changes file roles:
                // instead render the mutated schema into one extra file and drop the old schema files
                let keep = proj.schema_paths[0].clone();
                if touched.contains(&keep) || proj.schema_paths.iter().any(|p| touched.contains(p)) {
                    continue;
                }
                // the rendered mutant must still be syntactically valid: this fault belongs to the check stage
                let mutant_text = render_ts(&f.doc, None, Feat::plain());
                if refparse::parse_ts(&mutant_text).is_err() {
                    continue;
                }
                files.retain(|(p, _)| !proj.schema_paths.contains(p) || *p == keep);
                if let Some(t) = files.iter_mut().find(|(p, _)| *p == keep) {
                    t.1 = mutant_text;
                }
                for p in &proj.schema_paths {
                    touched.insert(p.clone());
                }
                faults.push(FaultRec { stage: Stage::SchemaCheck, file: keep, label: format!("{}|{}", f.rule, f.label) });
            }
            3 => {
                let i = rng.below(proj.op_models.len());
                let (p, model) = &proj.op_models[i];
                if touched.contains(p) || model.ops().count() == 0 {
                    continue;
                }
                // inject into the file's own document; the reference validator must confirm on the resolved document
                let Some(f) = inject_ops::inject(rng, &schema_ix, &ExecDoc { defs: model.defs.iter().filter(|d| !matches!(d, ExecDef::Import(_))).cloned().collect() }) else { continue };
                if f.label.contains("unused-fragment") {
                    continue; // known root cause owned by C03
                }
                let mut defs: Vec<ExecDef> = model.defs.iter().filter(|d| matches!(d, ExecDef::Import(_))).cloned().collect();
                defs.extend(f.doc.defs.clone());
                let new_model = ExecDoc { defs };
                // confirm: resolved document of this file is invalid
                let mut all: Vec<(String, ExecDoc)> = proj.op_models.clone();
                all[i].1 = new_model.clone();
                let cl = crate::refimport::closure(&all.iter().map(|(p, d)| (format!("/{p}"), d.clone())).collect::<Vec<_>>(), i);
                let mut rdefs: Vec<ExecDef> = new_model.defs.iter().filter(|d| !matches!(d, ExecDef::Import(_))).cloned().collect();
                for (fi, n) in &cl.imported {
                    if let Some(fr) = all[*fi].1.frag(n) {
                        rdefs.push(ExecDef::Frag(fr.clone()));
                    }
                }
                if !cl.offenders.is_empty() || validate_operations(&schema_ix, &ExecDoc { defs: rdefs }).is_empty() {
                    continue;
                }
                // the fault may also break files that import fragments from this file: they become offenders too, which is
                // fine for "exit 1", but the every-offender clause is only applied to this file
                if let Some(t) = files.iter_mut().find(|(fp, _)| fp == p) {
                    t.1 = render_exec(&new_model, None, Feat::plain());
                }
                touched.insert(p.clone());
                faults.push(FaultRec { stage: Stage::OpCheck, file: p.clone(), label: format!("{}|{}", f.rule, f.label) });
            }
            5 => {
                // a fault that only a plugin's schema check reports: the model plugin is configured (alone, or with the
                // other built-in plugin before or after it) and one schema file misuses @model
                if faults.iter().any(|f| f.stage == Stage::SchemaCheck) {
                    continue;
                }
                let p = proj.schema_paths[rng.below(proj.schema_paths.len())].clone();
                if touched.contains(&p) || files.iter().any(|(_, t)| t.contains("ZzPluginFault")) {
                    continue;
                }
                let (text, label) = *rng.pick(&[
                    ("type ZzPluginFault @model { id: ID }", "model-type-argument-missing"),
                    ("type ZzPluginFault @model(type: null) { id: ID }", "model-type-argument-null"),
                    ("type ZzPluginFault @model(type: \"string\") { id: ID @model }", "model-on-field-of-modelled-object"),
                    ("type ZzPluginFault { id: ID @model(type: \"string\") }", "model-type-argument-on-field"),
                    ("interface ZzPluginFault { id: ID @model }", "model-on-interface-field"),
                ]);
                let sets: Vec<&&[&str]> = crate::genproj::PLUGIN_SETS.iter().filter(|s| s.contains(&"nitrogql:model-plugin")).collect();
                let set = **rng.pick(&sets);
                if !crate::genproj::add_plugins(&mut files, set) {
                    continue;
                }
                let t = files.iter_mut().find(|(fp, _)| *fp == p)?;
                t.1 = format!("{}\n{text}\n", t.1.trim_end());
                touched.insert(p.clone());
                faults.push(FaultRec { stage: Stage::SchemaCheck, file: p, label: format!("plugin|{label}|plugins={}", set.len()) });
            }
            _ => {
                let p = proj.op_paths[rng.below(proj.op_paths.len())].clone();
                if touched.contains(&p) {
                    continue;
                }
                let t = files.iter_mut().find(|(fp, _)| *fp == p)?;
                t.1 = format!("#import * from \"./does-not-exist.graphql\"\n{}", t.1);
                touched.insert(p.clone());
                faults.push(FaultRec { stage: Stage::OpImport, file: p, label: "import-of-missing-file".into() });
            }
        }
    }
    // an unparsable operation file whose lines are all indented, one of them with multi-byte white space (an illegal
    // character outside strings: one more syntax fault in the same file): the human-format code frame strips the common
    // indentation of the lines around the reported position
    if rng.chance(1, 3) {
        if let Some(f) = faults.iter().find(|f| f.stage == Stage::OpParse).cloned() {
            if let Some(t) = files.iter_mut().find(|(p, _)| *p == f.file) {
                let pad = " ".repeat(*rng.pick(&[2usize, 4]));
                let wide = *rng.pick(&["\u{3000}", "\u{3000}\u{3000}", "\u{a0}"]);
                let mut lines: Vec<String> = t.1.lines().map(|l| if l.is_empty() { String::new() } else { format!("{pad}{l}") }).collect();
                let cands: Vec<usize> = (0..lines.len()).filter(|i| !lines[*i].trim().is_empty() && !lines[*i].trim_start().starts_with('#')).collect();
                if let Some(&k) = rng.pick_opt(&cands) {
                    lines[k] = format!("{wide}{}", lines[k].trim_start());
                    t.1 = lines.join("\n") + "\n";
                }
            }
        }
    }
    // copy-paste twin: the same faulty text under a second name in the same directory gives identical diagnostics
    // (same message, line and column) in two different files; both are offenders and both must be named
    let mut op_paths = proj.op_paths.clone();
    if rng.chance(1, 3) {
        let cands: Vec<FaultRec> = faults.iter().filter(|f| matches!(f.stage, Stage::OpCheck | Stage::OpParse)).cloned().collect();
        if let Some(f) = rng.pick_opt(&cands) {
            let twin = format!("{}_twin.graphql", f.file.strip_suffix(".graphql").unwrap_or(&f.file));
            if let Some((_, text)) = files.iter().find(|(p, _)| *p == f.file).cloned() {
                if !files.iter().any(|(p, _)| *p == twin) {
                    files.push((twin.clone(), text));
                    op_paths.push(twin.clone());
                    faults.push(FaultRec { stage: f.stage, file: twin, label: format!("{}|twin", f.label) });
                }
            }
        }
    }
    let schema_paths: Vec<String> = proj.schema_paths.iter().filter(|p| files.iter().any(|(fp, _)| fp == *p)).cloned().collect();
    let commands: Vec<String> = match rng.below(4) {
        0 => vec!["check".into()],
        1 => vec!["check".into(), "generate".into()],
        _ => vec!["generate".into()],
    };
    let format = rng.s(&["json", "json", "human", "rdjson"]).to_string();
    Some(Case { files, root: proj.root.clone(), schema_paths, op_paths, faults, commands, format, decl_ext: proj.config.decl_extension().to_string() })
}

pub fn run(ctx: &Ctx, rep: &mut Report) {
    crate::gen_syntax::set_allow_block(false);
    let n = ctx.budget(12_800, 240_000);
    for case_n in 0..n {
        let mut rng = ctx.rng("case", case_n);
        let Some(mut proj) = gen_project(&mut rng, &ProjOpts::standard()) else {
            rep.count("generator_gave_up");
            continue;
        };
        if rng.chance(1, 6) {
            proj = crate::genproj::introspection_variant(&proj, &mut rng);
            rep.count("projects_with_introspection_json_schema");
        }
        let k = *rng.pick(&[0usize, 0, 1, 1, 2, 3]);
        let Some(case) = make_case(&mut rng, &proj, k) else { continue };
        rep.trace_case(|| case_json(&case));
        rep.eval();
        rep.count(&format!("runs|format={}|faults={}", case.format, case.faults.len()));
        for f in &case.faults {
            rep.count(&format!("fault|{:?}", f.stage));
            if f.label.starts_with("plugin|") {
                rep.count("fault|SchemaCheck|reported-by-the-model-plugin-only");
            } else if f.label.contains("built-in-scalar-declared-again") {
                rep.count("fault|SchemaCheck|built-in-scalar-declared-again");
            }
        }
        rep.nontrivial(&format!("{:?}{:?}{:?}", case.files, case.commands, case.format));
        if case_n == 0 {
            rep.sample(json!({"commands": case.commands, "format": case.format, "faults": case.faults.iter().map(|f| format!("{:?}:{}:{}", f.stage, f.file, f.label)).collect::<Vec<_>>(), "files": case.files.iter().map(|(p, t)| json!({"path": p, "text": clip(t, 200)})).collect::<Vec<_>>()}));
        }
        rep.violations(check_case(ctx, case_n, &case));
    }
}

pub fn replay(case: &Value, ctx: &Ctx) -> Vec<Violation> {
    match case_from_json(case) {
        Some(c) => check_case(ctx, 0, &c),
        None => vec![],
    }
}
