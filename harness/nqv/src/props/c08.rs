//! C08 — no input text makes the toolchain panic; failures are diagnostics.
//! Detector: catch_unwind at every public stage (library route), "panicked at" / signal /
//! exit status for the CLI, process death for the loader ABI (diagnosed by trace replay).

use std::time::Duration;

use serde_json::{Value, json};

use crate::cli;
use crate::ctx::Ctx;
use crate::gen_syntax::{ExecOpts, gen_exec_doc, gen_ts_doc};
use crate::pipeline::{ProjectInput, run_project};
use crate::real;
use crate::refparse::{TK, lex};
use crate::render::{Feat, render_exec, render_ts};
use crate::report::{Report, Violation, clip};
use crate::rng::Rng;

const TOKENS: &[&str] = &[
    "{", "}", "(", ")", "[", "]", ":", "=", "!", "$", "@", "&", "|", "...", "query", "mutation", "subscription", "fragment", "on", "type", "interface", "union", "enum", "input", "scalar", "schema",
    "directive", "extend", "implements", "repeatable", "true", "false", "null", "a", "b", "Query", "Int", "String", "ID", "Float", "Boolean", "__typename", "skip", "include", "if", "deprecated", "reason",
    "0", "-1", "1.5", "1e3", "\"s\"", "\"\"", "\"\"\"b\"\"\"", "#import * from \"./f.graphql\"\n", "#import A from \"x\"\n", "# c\n", "FIELD", "OBJECT", "QUERY", ",", "\n", "*", "from", "import",
];

const UNICODE: &[&str] = &["\u{FEFF}", "\u{0}", "é", "日本", "𝒳", "\u{202e}", "\u{7f}", "\\", "\"", "\"\\uD800\"", "\"\\u{110000}\"", "\"\\uDFFF\\uD800\"", "\"\\u{}\"", "\"\\u{FFFFFFFFF}\"", "\\u0041", "\r", "\u{2028}", "\u{85}", "`", "${", "#", "'"];

pub const BASE_SCHEMA: &str = "type Query { a: Int b(x: In, y: [E!]): T u: U i: I }\ntype T implements I { id: ID! t: T s: String @deprecated(reason: \"no\") }\ninterface I { id: ID! }\nunion U = T | V\ntype V { v: Float }\nenum E { A B }\ninput In { k: Int = 1 l: [In!] }\nscalar Date\ndirective @d(a: Int) repeatable on FIELD | QUERY | FRAGMENT_SPREAD\ntype Mutation { m(i: In!): T }\ntype Subscription { s: T }\n";
pub const BASE_OP: &str = "#import F2 from \"./frag.graphql\"\nquery Q($v: Int = 1, $b: Boolean!) @d {\n  a\n  b(x: {k: $v, l: [{k: 2}]}, y: [A]) { id ...F1 ...F2 t @skip(if: $b) { id } }\n  u { __typename ... on T { id } ... on V { v } }\n  i { id }\n}\nfragment F1 on T { s x: id }\nmutation M { m(i: {k: 1}) { id } }\nsubscription S { s { id } }\n";
pub const BASE_FRAG: &str = "fragment F2 on I { id }\n";
pub const BASE_CONFIG: &str = "schema: ./schema.graphql\ndocuments:\n  - ./op.graphql\n  - ./frag.graphql\nextensions:\n  nitrogql:\n    generate:\n      schemaOutput: ./out/schema.d.ts\n      resolversOutput: ./out/resolvers.d.ts\n      serverGraphqlOutput: ./out/server.ts\n      type:\n        scalarTypes:\n          Date: string\n";

fn mutate_tokens(text: &str, rng: &mut Rng) -> String {
    let toks = match lex(text) {
        Ok(t) => t,
        Err(_) => return text.to_string(),
    };
    let mut ts: Vec<String> = toks.iter().filter(|t| t.kind != TK::Eof).map(|t| if t.kind == TK::ImportHash { "#import".to_string() } else { t.text.clone() }).collect();
    // the lexer splits "#" + "import": drop the following "import" word
    let mut i = 0;
    while i + 1 < ts.len() {
        if ts[i] == "#import" && ts[i + 1] == "import" {
            ts.remove(i + 1);
        }
        i += 1;
    }
    if ts.is_empty() {
        return text.to_string();
    }
    let n = rng.range(1, 3);
    for _ in 0..n {
        if ts.is_empty() {
            break;
        }
        let i = rng.below(ts.len());
        match rng.below(6) {
            0 => {
                ts.remove(i);
            }
            1 => {
                let t = ts[i].clone();
                ts.insert(i, t);
            }
            2 => {
                let j = rng.below(ts.len());
                ts.swap(i, j);
            }
            3 => ts[i] = rng.s(TOKENS).to_string(),
            4 => ts.insert(i, rng.s(TOKENS).to_string()),
            _ => ts[i] = rng.s(UNICODE).to_string(),
        }
    }
    let mut out = String::new();
    for t in ts {
        out.push_str(&t);
        if t.starts_with("#import") {
            out.push(' ');
        } else {
            out.push(if rng.chance(1, 6) { '\n' } else { ' ' });
        }
    }
    out
}

fn token_soup(rng: &mut Rng) -> String {
    let n = rng.range(1, 40);
    let mut s = String::new();
    for _ in 0..n {
        s.push_str(if rng.chance(1, 10) { rng.s(UNICODE) } else { rng.s(TOKENS) });
        s.push(' ');
    }
    s
}

fn unicode_soup(rng: &mut Rng) -> String {
    let n = rng.range(0, 30);
    let mut s = String::new();
    for _ in 0..n {
        match rng.below(4) {
            0 => s.push_str(rng.s(UNICODE)),
            1 => s.push(char::from_u32(rng.below(0x2FFFF) as u32).unwrap_or('x')),
            2 => s.push_str(rng.s(TOKENS)),
            _ => s.push((b' ' + rng.below(95) as u8) as char),
        }
    }
    if rng.chance(1, 20) {
        s.push_str(&"a ".repeat(5000));
    }
    s
}

/// the inside of a string literal made of escape sequences at and around every boundary the grammar and the string
/// builder have to agree on: surrogate range ends, the scalar-value ceiling, leading zeros, pairs, truncated forms
fn escape_soup(rng: &mut Rng) -> String {
    const CP: &[&str] = &["0", "41", "7F", "D7FF", "D800", "D801", "DBFF", "DC00", "DFFF", "E000", "FFFF", "10000", "1F600", "10FFFF", "110000", "FFFFFF", "d800", "dfff", "10ffff"];
    const U4: &[&str] = &["0041", "00e9", "D7FF", "D800", "D83D", "DBFF", "DC00", "DE00", "DFFF", "E000", "FFFF", "d83d", "de00"];
    const MISC: &[&str] = &["\\u", "\\u{", "\\u{}", "\\u{G}", "\\u12", "\\u{12", "\\x41", "\\", "\\\"", "\\\\", "\\/", "\\b", "\\f", "\\n", "\\r", "\\t", "\\a", "\\0", "x", " ", "é", "😀", "$", "{", "}"];
    let n = rng.range(1, 5);
    let mut s = String::new();
    for _ in 0..n {
        match rng.below(5) {
            0 | 1 => {
                s.push_str("\\u{");
                for _ in 0..rng.below(4) * rng.below(3) {
                    s.push('0');
                }
                s.push_str(rng.s(CP));
                s.push('}');
            }
            2 => {
                s.push_str("\\u");
                s.push_str(rng.s(U4));
            }
            3 => {
                // a high surrogate escape followed by something
                s.push_str("\\u");
                s.push_str(rng.s(&["D83D", "D800", "DBFF", "d83d"]));
                match rng.below(4) {
                    0 => {
                        s.push_str("\\u");
                        s.push_str(rng.s(&["DE00", "DC00", "DFFF", "0041", "D83D"]));
                    }
                    1 => {
                        s.push_str("\\u{");
                        s.push_str(rng.s(&["DE00", "DC00", "41"]));
                        s.push('}');
                    }
                    2 => s.push('x'),
                    _ => {}
                }
            }
            _ => s.push_str(rng.s(MISC)),
        }
    }
    s
}

fn nested(rng: &mut Rng, depth: usize) -> (String, String) {
    // (schema, operation) with nesting
    let mut op = String::from("query N { ");
    for _ in 0..depth {
        op.push_str("t { ");
    }
    op.push_str("id ");
    for _ in 0..depth {
        op.push_str("} ");
    }
    op.push('}');
    let mut val = String::new();
    for _ in 0..depth {
        val.push_str(if rng.coin() { "[" } else { "{k: " });
    }
    val.push('1');
    let opens: Vec<char> = val.chars().filter(|c| *c == '[' || *c == '{').collect();
    for c in opens.iter().rev() {
        val.push(if *c == '[' { ']' } else { '}' });
    }
    // list types: non-null at every level, at no level, or mixed; sometimes left unclosed
    let style = rng.below(4);
    let mut ty = String::new();
    for _ in 0..depth {
        ty.push('[');
    }
    ty.push_str("Int");
    let closers = if style == 3 { rng.below(depth + 1) } else { depth };
    for _ in 0..closers {
        ty.push_str(match style {
            0 => "]!",
            1 => "]",
            _ => if rng.coin() { "]!" } else { "]" },
        });
    }
    let schema = format!("type Query {{ t: T a(x: {ty}): Int }}\ntype T {{ t: T id: ID }}\n");
    // the same type as a variable type; the value sometimes left unclosed as well
    if rng.chance(1, 4) {
        let cut = rng.below(val.len() + 1);
        let mut k = cut;
        while !val.is_char_boundary(k) {
            k -= 1;
        }
        val.truncate(k);
    }
    let op2 = format!("{op}\nquery V($v: {ty}) {{ a(x: {val}) b: a(x: $v) }}\n");
    (schema, op2)
}

fn mutate_config(rng: &mut Rng) -> String {
    let mut c = BASE_CONFIG.to_string();
    match rng.below(8) {
        0 => c = c.replace("string", "{ send: string, receive: Date }"),
        1 => c = c.replace("string", "[1, 2]"),
        2 => c.push_str("      mode: nonsense\n"),
        3 => c = c.replace("schema: ./schema.graphql", "schema: [\n"),
        4 => c = c.replace("generate:", "generate: 3"),
        5 => c = format!("{{\"schema\": \"./schema.graphql\", \"documents\": [\"./*.graphql\"], \"extensions\": {{\"nitrogql\": {{\"generate\": {{\"schemaOutput\": \"./out/schema.d.ts\", \"type\": {{\"allowUndefinedAsOptionalInput\": \"{}\"}}}}}}}}}}", rng.s(&["yes", "true", "1"])),
        6 => c = unicode_soup(rng),
        _ => c = c.replace("./out/schema.d.ts", rng.s(&["", "..", "/", "./out/schema.ts", "./a b/é.d.ts"])),
    }
    c
}

/// parser step budget: generous (a valid document needs a few dozen rule calls per byte)
pub const PARSER_STEPS_PER_BYTE: usize = 5_000;
pub const PARSER_STEPS_BASE: usize = 500_000;

pub fn check_case(schema: &str, op: &str, frag: &str, config: &str) -> Vec<Violation> {
    let replay = json!({"property":"C08","kind":"project","schema":schema,"op":op,"frag":frag,"config":config});
    let mut out = vec![];
    let mk = |stage: &str, p: &crate::panicguard::Panicked| Violation {
        sig: format!("C08|panic|{}|{}", p.site(), p.msg_class()),
        detail: format!("stage {stage} panicked at {}:{}: {} — schema {:?} op {:?}", p.file, p.line, clip(&p.msg, 200), clip(schema, 300), clip(op, 300)),
        replay: replay.clone(),
    };
    // a budget of parser steps (pest's running total of rule calls) proportional to the input: a parse that exhausts
    // it returns the error "call limit reached" — a logical, load-independent way to observe super-linear parsing
    let longest = schema.len().max(op.len()).max(frag.len());
    pest::set_call_limit(std::num::NonZeroUsize::new(PARSER_STEPS_PER_BYTE * longest + PARSER_STEPS_BASE));
    let over_budget = |grammar: &str, t: &str, out: &mut Vec<Violation>| {
        out.push(Violation {
            sig: format!("C08|parser-step-budget-exceeded|{grammar}"),
            detail: format!("parsing {} bytes with the {grammar} grammar needs more than {} rule calls ({PARSER_STEPS_PER_BYTE} per byte + {PARSER_STEPS_BASE}): super-linear parsing — text {:?}", t.len(), PARSER_STEPS_PER_BYTE * longest + PARSER_STEPS_BASE, clip(t, 300)),
            replay: replay.clone(),
        });
    };
    for t in [schema, op, frag] {
        if let Err(real::Fail::Err(m, _)) = real::parse_exec(t) {
            if m.contains("call limit reached") {
                over_budget("operation", t, &mut out);
            }
        }
        if let Err(real::Fail::Err(m, _)) = real::parse_ts(t) {
            if m.contains("call limit reached") {
                over_budget("type-system", t, &mut out);
            }
        }
    }
    pest::set_call_limit(None);
    if out.iter().any(|v| v.sig.starts_with("C08|parser-step-budget-exceeded")) {
        // the remaining stages would parse the same text again without a budget
        out.sort_by(|a, b| a.sig.cmp(&b.sig));
        out.dedup_by(|a, b| a.sig == b.sig);
        return out;
    }
    // every text to both grammars
    for t in [schema, op, frag] {
        if let Err(real::Fail::Panic(p)) = real::parse_exec(t) {
            out.push(mk("parse_operation_document", &p));
        }
        if let Err(real::Fail::Panic(p)) = real::parse_ts(t) {
            out.push(mk("parse_type_system_document", &p));
        }
    }
    let schema_files = vec![("/proj/schema.graphql".to_string(), schema.to_string())];
    let op_files = vec![("/proj/op.graphql".to_string(), op.to_string()), ("/proj/frag.graphql".to_string(), frag.to_string())];
    // An unused fragment that spreads itself is the listed finding whose effect is a stack overflow in `generate`: it
    // would kill this engine process and lose the rest of its workload (its committed repro is replayed on its own by
    // `check`). Such inputs go through every stage up to and including `check` only.
    let killer = [op, frag].iter().any(|t| unused_recursive_fragment_in_text(t));
    if killer {
        KILLER_SKIPS.with(|c| c.set(c.get() + 1));
    }
    let r = run_project(&ProjectInput { schema_files: &schema_files, op_files: &op_files, config, generate: false, check_only: killer });
    for (stage, p) in &r.panics {
        let mut v = mk(stage, p);
        if p.site().starts_with("crates/printer/") {
            // a printer that trips after an accepted check: say whether the listed root cause (bodies of unused
            // fragments are never checked) can be behind it, so that any other way to get there has its own signature
            // (the stage label of a per-file printer ends in #<index of the operation file>)
            let texts = [op, frag];
            let of_file: Vec<&str> = match stage.rsplit_once('#').and_then(|(_, k)| k.parse::<usize>().ok()).and_then(|k| texts.get(k).copied()) {
                Some(t) => vec![t],
                None => texts.to_vec(),
            };
            let unused = of_file.iter().any(|t| unused_fragment_in_text(t));
            v.sig = format!("{}|{}", v.sig, if unused { "document-has-unused-fragment" } else { "every-fragment-used" });
        }
        out.push(v);
    }
    // introspection reader on arbitrary text
    for t in [schema, config] {
        if let Err(p) = crate::panicguard::guarded(|| nitrogql_introspection::schema_from_introspection_json::<nitrogql_ast::base::Pos>(t).is_ok()) {
            out.push(mk("schema_from_introspection_json", &p));
        }
    }
    out.sort_by(|a, b| a.sig.cmp(&b.sig));
    out.dedup_by(|a, b| a.sig == b.sig);
    out
}

pub const FUZZ_SEP: &str = "\n#=====#\n";

/// one libFuzzer input: up to four parts (operation, schema, fragment file, config) separated by FUZZ_SEP; missing parts
/// are the base project's. Violations are written to $NQV_FUZZ_OUT/finding-<hash of signature>.json (first witness per
/// signature); `check` classifies them against the known findings afterwards.
pub fn fuzz_one(text: &str) {
    let parts: Vec<&str> = text.splitn(4, FUZZ_SEP).collect();
    let op = parts.first().copied().unwrap_or(BASE_OP);
    let schema = parts.get(1).copied().unwrap_or(BASE_SCHEMA);
    let frag = parts.get(2).copied().unwrap_or(BASE_FRAG);
    let config = parts.get(3).copied().unwrap_or(BASE_CONFIG);
    let vs = check_case(schema, op, frag, config);
    if vs.is_empty() {
        return;
    }
    let Ok(dir) = std::env::var("NQV_FUZZ_OUT") else { return };
    for v in vs {
        let mut h: u64 = 0xcbf29ce484222325;
        for b in v.sig.bytes() {
            h = (h ^ b as u64).wrapping_mul(0x100000001b3);
        }
        let path = format!("{dir}/finding-{h:016x}.json");
        if !std::path::Path::new(&path).exists() {
            let _ = std::fs::write(&path, serde_json::to_string(&json!({"sig": v.sig, "detail": v.detail, "replay": v.replay})).unwrap_or_default());
        }
    }
}

/// seed corpus for the fuzzer: the generated workload of the monitor, one file per input
pub fn write_fuzz_corpus(dir: &str, n: u64, seed: u64) {
    let _ = std::fs::create_dir_all(dir);
    for case in 0..n {
        let mut rng = Rng::from_parts(seed, "C08/fuzz-corpus", 0, case);
        let (schema, op, frag, config, _) = gen_inputs(&mut rng);
        let text = [op.as_str(), schema.as_str(), frag.as_str(), config.as_str()].join(FUZZ_SEP);
        let _ = std::fs::write(format!("{dir}/seed-{case:05}"), text);
    }
}

thread_local! {
    /// CLI runs in which `generate` went all the way (exit 0): the CLI part has reached the printers
    pub static CLI_OK: std::cell::Cell<u64> = const { std::cell::Cell::new(0) };
}

pub fn check_cli(ctx: &Ctx, n: u64, schema: &str, op: &str, frag: &str, config: &str) -> Vec<Violation> {
    let replay = json!({"property":"C08","kind":"cli","schema":schema,"op":op,"frag":frag,"config":config});
    let dir = cli::scratch_dir(&ctx.out, "c08", n);
    let files = vec![("schema.graphql".to_string(), schema.to_string()), ("op.graphql".to_string(), op.to_string()), ("frag.graphql".to_string(), frag.to_string()), ("graphql.config.yaml".to_string(), config.to_string())];
    let mut out = vec![];
    if cli::write_project(&dir, &files).is_ok() {
        // (the listed finding's killer shape is taken through `check` only, as in the library part)
        let killer = [op, frag].iter().any(|t| unused_recursive_fragment_in_text(t));
        let r = cli::run_cli(&ctx.cli, &dir, &[if killer { "check" } else { "generate" }, "--output-format", "json"], Duration::from_secs(60));
        if r.status == Some(0) && r.panicked().is_none() {
            CLI_OK.with(|c| c.set(c.get() + 1));
        }
        if let Some(l) = r.panicked() {
            // the same signature as the library route gives this panic: one defect, one signature, whatever the route
            let site = r.panic_site().unwrap_or_default();
            let p = crate::panicguard::Panicked { file: site.clone(), line: 0, msg: r.panic_message().unwrap_or_default() };
            let mut sig = format!("C08|panic|{site}|{}", p.msg_class());
            if site.starts_with("crates/printer/") {
                let unused = [op, frag].iter().any(|t| unused_fragment_in_text(t));
                // the CLI does not say which file it was printing: a project with an unused fragment anywhere gets the
                // listed finding's class only if the library route (same inputs, per-file labels) agrees
                let lib: Vec<String> = check_case(schema, op, frag, config).into_iter().map(|v| v.sig).collect();
                let with = |c: &str| format!("{sig}|{c}");
                sig = if lib.contains(&with("every-fragment-used")) || !unused { with("every-fragment-used") } else { with("document-has-unused-fragment") };
            }
            out.push(Violation { sig, detail: format!("nitrogql-cli printed a panic: {l} (exit {:?})", r.status), replay: replay.clone() });
        } else if r.signal.is_some() || r.timed_out || !matches!(r.status, Some(0) | Some(1)) {
            // clap exits 2 on usage errors; we never pass bad arguments
            out.push(Violation { sig: format!("C08|cli-abnormal-exit|status={:?}|signal={:?}|timeout={}", r.status, r.signal, r.timed_out), detail: format!("stderr: {}", clip(&r.stderr, 500)), replay: replay.clone() });
        }
    }
    cli::cleanup(&dir);
    out
}

fn gen_inputs(rng: &mut Rng) -> (String, String, String, String, &'static str) {
    let mut schema = BASE_SCHEMA.to_string();
    let mut op = BASE_OP.to_string();
    let mut frag = BASE_FRAG.to_string();
    let mut config = BASE_CONFIG.to_string();
    let kind;
    match rng.below(20) {
        18 => {
            // a configuration from the space of accepted ones: every mode, each output present or absent (the schema types
            // can come from schemaModuleSpecifier alone), name/export/type options, YAML or JSON spelling
            kind = "valid-config-variant";
            let mut c = crate::genproj::random_config(rng, &["Date".to_string()], true, true);
            if rng.coin() {
                c.schema_module_specifier = Some(rng.s(&["@/generated/schema", "./schema-types", "my-schema-package", "../types/schema.js"]).to_string());
            }
            if c.schema_module_specifier.is_some() && rng.coin() && !c.emit_schema_runtime {
                c.schema_output = None;
            }
            if rng.chance(1, 8) {
                c.schema_output = None; // (with no specifier either: the configuration is refused, by a diagnostic)
            }
            config = c.render(&["./schema.graphql".to_string()], &["./op.graphql".to_string(), "./frag.graphql".to_string()]);
        }
        17 => {
            // the schema text defines a directive that nitrogql also defines itself (@skip, @include, @deprecated,
            // @specifiedBy, @nitrogql_ts_type), with the same or with other arguments, types, locations; the documents and
            // the schema then apply it the way the user's definition asks for (or the built-in way). Code that interprets
            // these directives by name must not assume the built-in shape.
            kind = "redefined-built-in-directive";
            let name = *rng.pick(&["skip", "skip", "include", "include", "deprecated", "specifiedBy", "nitrogql_ts_type"]);
            let (bi_arg, bi_ty, bi_loc): (&str, &str, &str) = match name {
                "skip" | "include" => ("if", "Boolean!", "FIELD | FRAGMENT_SPREAD | INLINE_FRAGMENT"),
                "deprecated" => ("reason", "String", "FIELD_DEFINITION | ENUM_VALUE | ARGUMENT_DEFINITION | INPUT_FIELD_DEFINITION"),
                "specifiedBy" => ("url", "String!", "SCALAR"),
                _ => ("type", "String!", "SCALAR"),
            };
            // (argument list of the definition, argument text of an application that fits it)
            let lit_for = |ty: &str, var: bool| -> String {
                match ty.trim_end_matches('!') {
                    "Boolean" => if var { "$b".into() } else { "true".into() },
                    "String" => "\"s\"".into(),
                    "Int" => if var { "$v".into() } else { "1".into() },
                    "[Boolean!]" => "[true, false]".into(),
                    "In" => "{k: 1}".into(),
                    "E" => "A".into(),
                    _ => "null".into(),
                }
            };
            let exec = matches!(name, "skip" | "include");
            let var = exec && rng.coin();
            let (def_args, app_args): (String, String) = match rng.below(8) {
                0 => (format!("({bi_arg}: {bi_ty})"), format!("({bi_arg}: {})", lit_for(bi_ty, var))),
                1 => {
                    let other = *rng.pick(&["when", "unless", "If", "cond", "_if"]);
                    (format!("({other}: {bi_ty})"), format!("({other}: {})", lit_for(bi_ty, var)))
                }
                2 => {
                    let ty = *rng.pick(&["String", "Int", "[Boolean!]", "In", "E", "Boolean"]);
                    (format!("({bi_arg}: {ty})"), format!("({bi_arg}: {})", lit_for(ty, var)))
                }
                3 => (String::new(), String::new()),
                4 => (format!("({bi_arg}: {bi_ty}, extra: Int)"), format!("(extra: 2, {bi_arg}: {})", lit_for(bi_ty, var))),
                5 => (format!("({bi_arg}: {bi_ty} = {})", lit_for(bi_ty, false)), String::new()),
                6 => (format!("(extra: Int, {bi_arg}: Boolean)"), "(extra: 1)".to_string()),
                _ => (format!("({bi_arg}: {bi_ty})"), format!("({bi_arg}: null)")),
            };
            let loc = match rng.below(4) {
                0 => "FIELD",
                1 => "FIELD | FRAGMENT_SPREAD | INLINE_FRAGMENT | QUERY | FIELD_DEFINITION | ENUM_VALUE | ARGUMENT_DEFINITION | INPUT_FIELD_DEFINITION | SCALAR | OBJECT",
                _ => bi_loc,
            };
            let rep = if rng.chance(1, 5) { " repeatable" } else { "" };
            let def = format!("directive @{name}{def_args}{rep} on {loc}\n");
            // where the definition goes: before the rest, after it, or twice
            schema = match rng.below(4) {
                0 => format!("{schema}{def}"),
                1 => format!("{def}{schema}{def}"),
                _ => format!("{def}{schema}"),
            };
            let app = format!("@{name}{app_args}");
            match name {
                "skip" | "include" => {
                    // on a field, a fragment spread, an inline fragment, below a field and at the root
                    match rng.below(5) {
                        0 => op = op.replace("  a\n", &format!("  a {app}\n")),
                        1 => op = op.replace("...F1", &format!("...F1 {app}")),
                        2 => op = op.replace("... on V {", &format!("... on V {app} {{")),
                        3 => op = op.replace("t @skip(if: $b)", &format!("t {app}")),
                        _ => op = op.replace("  i { id }", &format!("  i {app} {{ id {app} }}")),
                    }
                    if rng.chance(1, 3) {
                        // and nothing applies it the built-in way any more
                        op = op.replace("@skip(if: $b)", "");
                    }
                }
                "deprecated" => match rng.below(4) {
                    0 => schema = schema.replace("@deprecated(reason: \"no\")", &app),
                    1 => schema = schema.replace("enum E { A B }", &format!("enum E {{ A B {app} }}")),
                    2 => schema = schema.replace("b(x: In,", &format!("b(x: In {app},")),
                    _ => schema = schema.replace("l: [In!]", &format!("l: [In!] {app}")),
                },
                _ => schema = schema.replace("scalar Date", &format!("scalar Date {app}")),
            }
        }
        16 => {
            // every line indented with ASCII spaces, one line beginning with multi-byte white space instead (legal inside
            // a block string, an illegal character elsewhere): the diagnostics renderer strips the common indentation of
            // the lines around the reported position
            kind = "multibyte-indentation";
            let pad = " ".repeat(*rng.pick(&[2usize, 3, 4, 6]));
            let wide = *rng.pick(&["\u{3000}", "\u{3000}\u{3000}", "\u{a0}", "\u{2003}\u{2003}", "\u{feff}"]);
            let src = if rng.coin() { BASE_OP } else { BASE_SCHEMA };
            let mut lines: Vec<String> = src.lines().map(|l| format!("{pad}{l}")).collect();
            let k = rng.below(lines.len());
            match rng.below(3) {
                0 => lines[k] = format!("{wide}{}", lines[k].trim_start()),
                1 => lines.insert(k, format!("{pad}\"\"\"\n{wide}doc line\n{pad}\"\"\"")),
                _ => lines.insert(k, format!("{wide}")),
            }
            // a syntax error one or two lines away
            let e = (k + 1 + rng.below(2)).min(lines.len() - 1);
            if rng.coin() {
                lines[e].push_str(" )");
            }
            let text = lines.join("\n");
            if src == BASE_OP { op = text } else { schema = text }
        }
        15 => {
            // one response key, two fields that cannot be merged (nitrogql does not implement FieldsInSetCanMerge, so
            // check accepts these and every printer then sees them)
            kind = "conflicting-response-keys";
            let body = *rng.pick(&[
                "b { x: id x: t { id } }",
                "b { x: id x: s }",
                "b { x: t { id } x: s }",
                "u { ... on T { x: id } ... on V { x: v } }",
                "b { ...CA ...CB }",
                "b { x: id ... on T { x: t { id } } }",
                "i { x: id ... on T { x: s } }",
                "x: a x: b { id }",
            ]);
            op = format!("query Conflict {{ {body} }}\nfragment CA on T {{ x: id }}\nfragment CB on T {{ x: t {{ id }} }}\n");
            if !body.contains("...CA") {
                op = format!("query Conflict {{ {body} }}\n");
            }
        }
        12 | 13 => {
            // a valid generated project (the workload of the type-level monitors): after an accepted check every printer
            // runs, so a printer precondition that check does not establish shows up as a panic here
            kind = "valid-generated-project";
            use crate::gen_ops::{OpOpts, gen_valid_doc};
            use crate::gen_schema::{SchemaOpts, gen_valid_schema};
            let mut so = SchemaOpts::default_for(rng);
            so.interface_chains = true;
            let (sm, _) = gen_valid_schema(rng, &so);
            let ix = crate::schema_ix::SchemaIx::new(&sm);
            let mut oo = OpOpts::standard();
            oo.coercing_literals = rng.coin();
            oo.shared_names = true;
            if let Some(d) = gen_valid_doc(rng, &ix, &oo) {
                schema = render_ts(&sm, None, Feat::plain());
                op = render_exec(&d, None, Feat::plain());
                // the second file must not hold an unused fragment (the listed finding's precondition): an operation instead
                frag = "query Unrelated { __typename }\n".to_string();
                let mut cfg = String::from("schema: ./schema.graphql\ndocuments:\n  - ./op.graphql\n  - ./frag.graphql\nextensions:\n  nitrogql:\n    generate:\n      schemaOutput: ./out/schema.d.ts\n      resolversOutput: ./out/resolvers.d.ts\n      serverGraphqlOutput: ./out/server.ts\n      type:\n        scalarTypes:\n");
                let mut any = false;
                for t in &ix.order {
                    if ix.kind(t) == Some(crate::model::TKind::Scalar) && !crate::schema_ix::BUILTIN_SCALARS.contains(&t.as_str()) {
                        // TypeScript type texts with non-ASCII string-literal types before an identifier
                        let ty = rng.s(&["string", "string", "\"'😀' | '日本語' | string\"", "\"Record<'é', number>\"", "\"'ü' | Date\"", "\"{ readonly 'ключ': string } | null\""]);
                        cfg.push_str(&format!("          {t}: {ty}\n"));
                        any = true;
                    }
                }
                if !any {
                    cfg.push_str("          Unused: string\n");
                }
                config = cfg;
            }
        }
        14 => {
            // fragment cycles of length 1-3, reached from every kind of operation, at the root or below a field, or unused
            kind = "fragment-cycles";
            let n = 1 + rng.below(3);
            let (opkw, root_ty, root_field) = *rng.pick(&[("query", "Query", "b"), ("mutation", "Mutation", "m(i: {k: 1})"), ("subscription", "Subscription", "s")]);
            let at_root = rng.coin();
            let on = if at_root { root_ty } else { "T" };
            let body = if at_root { if root_ty == "Query" { "a" } else { "__typename" } } else { "id" };
            let mut d = String::new();
            // always reached from the operation: an *unused* recursive fragment is the listed finding (check never looks at
            // it and generate overflows the stack), whose committed repro is replayed on its own; generating it here
            // would only kill the shard and lose the rest of its workload
            let entry = "...C0".to_string();
            if at_root {
                d.push_str(&format!("{opkw} Cyc {{ {entry} {} }}\n", if root_ty == "Subscription" && !entry.is_empty() { "" } else if root_ty == "Query" { "a" } else if root_ty == "Mutation" { "m(i: {k: 1}) { id }" } else { "s { id }" }));
            } else {
                d.push_str(&format!("{opkw} Cyc {{ {root_field} {{ id {entry} }} }}\n"));
            }
            for i in 0..n {
                let next = (i + 1) % n;
                let extra = if rng.chance(1, 4) { format!(" ... on {on} {{ ...C{next} }}") } else { String::new() };
                d.push_str(&format!("fragment C{i} on {on} {{ {body} ...C{next}{extra} }}\n"));
            }
            op = d;
        }
        11 => {
            kind = "escape-soup";
            let e = escape_soup(rng);
            let lit = if rng.chance(1, 5) { format!("\"\"\"{e}\"\"\"") } else { format!("\"{e}\"") };
            match rng.below(6) {
                0 => op = op.replace("  a\n", &format!("  a @skip(if: {lit})\n")),
                1 => op = op.replace("{k: 1}", &format!("{{k: {lit}}}")),
                2 => op = op.replace("\"./frag.graphql\"", &format!("\"{e}\"")),
                3 => schema = schema.replace("\"no\"", &lit),
                4 => schema = format!("{lit}\n{schema}"),
                _ => schema = schema.replace("k: Int = 1", &format!("k: Int = 1 s: String = {lit}")),
            }
        }
        0 => {
            kind = "mutated-operation";
            op = mutate_tokens(&op, rng);
        }
        1 => {
            kind = "mutated-schema";
            schema = mutate_tokens(&schema, rng);
        }
        2 => {
            kind = "mutated-both";
            op = mutate_tokens(&op, rng);
            schema = mutate_tokens(&schema, rng);
            frag = mutate_tokens(&frag, rng);
        }
        3 => {
            kind = "random-syntactic-documents";
            let hostile = rng.coin();
            schema = render_ts(&gen_ts_doc(rng, hostile), Some(rng), Feat::hostile());
            op = render_exec(&gen_exec_doc(rng, &ExecOpts { imports: true, shorthand: true, hostile }), Some(rng), Feat::hostile());
        }
        4 => {
            kind = "random-operation-over-base-schema";
            let hostile = rng.coin();
            op = render_exec(&gen_exec_doc(rng, &ExecOpts { imports: false, shorthand: true, hostile }), Some(rng), Feat::plain());
        }
        5 => {
            kind = "token-soup";
            if rng.coin() { op = token_soup(rng) } else { schema = token_soup(rng) }
        }
        6 => {
            kind = "unicode-soup";
            if rng.coin() { op = unicode_soup(rng) } else { schema = unicode_soup(rng) }
        }
        7 => {
            kind = "config-mutation";
            config = mutate_config(rng);
        }
        8 => {
            kind = "nesting";
            let depth = rng.range(1, 40);
            let (s, o) = nested(rng, depth);
            schema = s;
            op = o;
            frag = "fragment Z on T { id }".into();
        }
        9 => {
            kind = "spliced";
            // splice two documents
            let a = mutate_tokens(BASE_OP, rng);
            let cut = rng.below(a.len().max(1));
            let mut k = cut;
            while !a.is_char_boundary(k) {
                k -= 1;
            }
            op = format!("{}{}", &a[..k], BASE_SCHEMA);
        }
        10 => {
            kind = "mutated-fragment-file";
            frag = mutate_tokens(&frag, rng);
            if rng.coin() {
                op = op.replace("F2 from", rng.s(&["F2, F2 from", "* from", "Nope from", "F2 F1 from"]));
            }
        }
        _ => {
            kind = "valid-base";
        }
    }
    (schema, op, frag, config, kind)
}

/// CPU time consumed by the calling thread (load-independent, unlike wall-clock time)
fn thread_cpu_ms() -> f64 {
    let mut ts = libc::timespec { tv_sec: 0, tv_nsec: 0 };
    unsafe {
        libc::clock_gettime(libc::CLOCK_THREAD_CPUTIME_ID, &mut ts);
    }
    ts.tv_sec as f64 * 1000.0 + ts.tv_nsec as f64 / 1e6
}

/// Scaling families: the same construct at three sizes; the thread's CPU time of the check stage and of the whole
/// pipeline is measured and a growth factor far above the growth of the input is reported. The decision is a *ratio* of
/// CPU times of one thread on one machine (size 18 against size 14: 1.3x more input; 8x more CPU and at least 100 ms is
/// called super-linear), not a deadline.
pub fn scaling_family(name: &str, size: usize) -> (String, String) {
    match name {
        "fragment-chain-doubly-spread" => {
            let mut op = String::from("query Chain { b { ...L0 } }\n");
            for i in 0..size {
                op.push_str(&format!("fragment L{i} on T {{ id ...L{} ...L{} }}\n", i + 1, i + 1));
            }
            op.push_str(&format!("fragment L{size} on T {{ id }}\n"));
            (BASE_SCHEMA.to_string(), op)
        }
        "list-type-depth" => {
            let ty = format!("{}Int{}", "[".repeat(size), "]".repeat(size));
            (format!("type Query {{ a(x: {ty}): Int }}\n"), "query S { a }\n".to_string())
        }
        "selection-depth" => {
            let mut op = String::from("query Deep { b { ");
            for _ in 0..size {
                op.push_str("t { ");
            }
            op.push_str("id ");
            for _ in 0..size {
                op.push_str("} ");
            }
            op.push_str("} }\n");
            (BASE_SCHEMA.to_string(), op)
        }
        "input-value-depth" => {
            let v = format!("{}{{k: 1}}{}", "{l: [".repeat(size), "]}".repeat(size));
            (BASE_SCHEMA.to_string(), format!("query V {{ b(x: {v}) {{ id }} }}\n"))
        }
        "same-fragment-spread-many-times" => {
            let mut op = String::from("query Many { b { ");
            for _ in 0..size * 8 {
                op.push_str("...M ");
            }
            op.push_str("} }\nfragment M on T { id s }\n");
            (BASE_SCHEMA.to_string(), op)
        }
        _ => (BASE_SCHEMA.to_string(), BASE_OP.to_string()),
    }
}

pub const SCALING_FAMILIES: &[&str] = &["fragment-chain-doubly-spread", "list-type-depth", "selection-depth", "input-value-depth", "same-fragment-spread-many-times", "import-diamond-layers", "import-chain-with-back-edges"];

/// the operation files of a family (most have one)
pub fn scaling_family_files(name: &str, size: usize) -> (String, Vec<(String, String)>) {
    match name {
        // `size` layers of two fragment files; both files of a layer import from both files of the next layer (a file is
        // reachable along 2^layer import chains, but there are only 2*size files); every fragment spreads one fragment of
        // the next layer only, so the fragment graph itself is two plain chains
        "import-diamond-layers" => {
            let mut files = vec![("/proj/op.graphql".to_string(), "#import A0 from \"./l0a.graphql\"\n#import B0 from \"./l0b.graphql\"\nquery Layers { b { ...A0 ...B0 } }\n".to_string())];
            for i in 0..size {
                for (me, frag) in [("a", "A"), ("b", "B")] {
                    let text = if i + 1 < size {
                        let other = if frag == "A" { "B" } else { "A" };
                        let other_file = if me == "a" { "b" } else { "a" };
                        format!("#import {frag}{n} from \"./l{n}{me}.graphql\"\n#import {other}{n} from \"./l{n}{other_file}.graphql\"\nfragment {frag}{i} on T {{ id ...{frag}{n} }}\n", n = i + 1)
                    } else {
                        format!("fragment {frag}{i} on T {{ id }}\n")
                    };
                    files.push((format!("/proj/l{i}{me}.graphql"), text));
                }
            }
            (BASE_SCHEMA.to_string(), files)
        }
        // a chain of files, each importing the next one and also the first one (a cycle through every file)
        "import-chain-with-back-edges" => {
            let mut files = vec![("/proj/op.graphql".to_string(), "#import C0 from \"./c0.graphql\"\nquery Chain { b { ...C0 } }\n".to_string())];
            for i in 0..size * 2 {
                let text = if i + 1 < size * 2 {
                    let back = if i > 0 { "#import * from \"./c0.graphql\"\n" } else { "" };
                    format!("#import C{n} from \"./c{n}.graphql\"\n{back}fragment C{i} on T {{ id ...C{n} }}\n", n = i + 1)
                } else {
                    format!("#import * from \"./c0.graphql\"\nfragment C{i} on T {{ id }}\n")
                };
                files.push((format!("/proj/c{i}.graphql"), text));
            }
            (BASE_SCHEMA.to_string(), files)
        }
        _ => {
            let (schema, op) = scaling_family(name, size);
            (schema, vec![("/proj/op.graphql".to_string(), op)])
        }
    }
}

pub fn check_scaling(family: &str) -> Vec<Violation> {
    let replay = json!({"property":"C08","kind":"scaling","family":family});
    let mut out = vec![];
    let measure = |size: usize, check_only: bool| -> f64 {
        let (schema, of) = scaling_family_files(family, size);
        let sf = vec![("/proj/schema.graphql".to_string(), schema)];
        let mut best = f64::MAX;
        for _ in 0..2 {
            let t0 = thread_cpu_ms();
            let _ = run_project(&ProjectInput { schema_files: &sf, op_files: &of, config: BASE_CONFIG, generate: false, check_only });
            best = best.min(thread_cpu_ms() - t0);
        }
        best
    };
    for (stage, check_only) in [("check", true), ("generate", false)] {
        let small = measure(14, check_only);
        let large = measure(18, check_only);
        if large >= 100.0 && large >= 8.0 * small.max(0.05) {
            out.push(Violation { sig: format!("C08|super-linear|{stage}|{family}"), detail: format!("family {family}: size 14 takes {small:.1} ms of CPU, size 18 takes {large:.1} ms ({}x for 1.3x the input) up to and including the {stage} stage: at this rate size 40 does not return", (large / small.max(0.05)).round()), replay: replay.clone() });
        }
    }
    out
}

pub fn run(ctx: &Ctx, rep: &mut Report) {
    // scaling families (shard 0 only: CPU time is measured on an otherwise idle thread of this process)
    if ctx.shard == 0 {
        for f in SCALING_FAMILIES {
            rep.trace_case(|| json!({"property":"C08","kind":"scaling","family":f}));
            rep.eval();
            rep.count(&format!("scaling_families|{f}"));
            rep.violations(check_scaling(f));
        }
    }
    let n = ctx.budget(160_000, 4_000_000);
    let cli_every = if ctx.thorough { 400 } else { 150 };
    for case in 0..n {
        let mut rng = ctx.rng("case", case);
        let (schema, op, frag, config, kind) = gen_inputs(&mut rng);
        rep.trace_case(|| json!({"property":"C08","kind":"project","schema":schema,"op":op,"frag":frag,"config":config}));
        rep.eval();
        rep.count(&format!("inputs|{kind}"));
        if kind != "valid-base" {
            rep.nontrivial(&format!("{schema}\u{1}{op}\u{1}{frag}\u{1}{config}"));
        }
        if case == 1 {
            rep.sample(json!({"kind": kind, "operation": clip(&op, 400), "schema": clip(&schema, 300)}));
        }
        rep.violations(check_case(&schema, &op, &frag, &config));
        if case % cli_every == 0 || (kind == "valid-config-variant" && case % 8 == 0) {
            rep.count("cli_runs");
            rep.violations(check_cli(ctx, case, &schema, &op, &frag, &config));
        }
    }
    rep.add("cli_runs_where_generate_completed", CLI_OK.with(|c| c.get()));
    rep.add("inputs_checked_without_printers(unused recursive fragment: listed finding)", KILLER_SKIPS.with(|c| c.get()));
    rep.note("stages observed per input: both parsers on every text, parse_config, resolve_schema_extensions, check_type_system_document, resolve_operation_extensions/imports, check_operation_document, and after an accepted check all printers; print_positioned_error on every diagnostic; schema_from_introspection_json on arbitrary text");
}

/// loader ABI without a prior check: a panic here aborts the process, so this part runs in its own jobs
pub fn run_loader(ctx: &Ctx, rep: &mut Report) {
    crate::panicguard::set_print(true);
    let n = ctx.budget(24_000, 600_000);
    for case in 0..n {
        let mut rng = ctx.rng("loader", case);
        let (_, op, frag, config, kind) = gen_inputs(&mut rng);
        let replay = json!({"property":"C08","kind":"loader","op":op,"frag":frag,"config":config});
        rep.trace_case(|| replay.clone());
        rep.eval();
        rep.count(&format!("loader_inputs|{kind}"));
        rep.nontrivial(&format!("L{op}\u{1}{frag}\u{1}{config}"));
        // the same parser-step budget as in the library part (the loader links the same pest instance)
        if unused_recursive_fragment_in_text(&op) || unused_recursive_fragment_in_text(&frag) {
            rep.count("loader_inputs_skipped(unused recursive fragment: listed finding)");
            continue;
        }
        let longest = op.len().max(frag.len());
        pest::set_call_limit(std::num::NonZeroUsize::new(PARSER_STEPS_PER_BYTE * longest + PARSER_STEPS_BASE));
        let texts = loader_case(&op, &frag, &config);
        pest::set_call_limit(None);
        if texts.iter().any(|t| t.contains("call limit reached")) {
            rep.violations(vec![Violation { sig: "C08|parser-step-budget-exceeded|loader".into(), detail: format!("the loader needs more than {} parser rule calls for {} bytes: super-linear parsing — operation {:?} fragment file {:?}", PARSER_STEPS_PER_BYTE * longest + PARSER_STEPS_BASE, longest, clip(&op, 300), clip(&frag, 200)), replay: replay.clone() }]);
        }
    }
    rep.note("loader part: load_config -> initiate_task -> get_required_files -> load_file -> emit_js -> free_task over the extern \"C\" ABI, no prior check");
}

/// -> the result / error texts the loader produced along the way
fn loader_case(op: &str, frag: &str, config: &str) -> Vec<String> {
    use crate::props::c19::abi;
    let mut texts = vec![];
    abi::init();
    abi::config(config);
    let id = abi::initiate("/proj/op.graphql", op);
    if id != 0 {
        loader_shim::get_required_files(id);
        texts.push(abi::read_result());
        if !abi::load(id, "/proj/frag.graphql", frag) {
            texts.push(abi::read_result());
        }
        loader_shim::get_required_files(id);
        loader_shim::emit_js(id);
        texts.push(abi::read_result());
        loader_shim::free_task(id);
    } else {
        texts.push(abi::read_result());
    }
    texts
}

/// input-feature class of a case, used to key findings whose death leaves no site behind (stack overflow)
pub fn classify(case: &Value) -> String {
    let op = case["op"].as_str().unwrap_or("");
    let frag = case["frag"].as_str().unwrap_or("");
    let mut classes = vec![];
    for text in [op, frag] {
        if let Ok(doc) = crate::refparse::parse_exec(text) {
            if has_unused_recursive_fragment(&doc) {
                classes.push("unused-recursive-fragment");
            }
        }
    }
    classes.sort();
    classes.dedup();
    if classes.is_empty() { "other".into() } else { classes.join("+") }
}

fn spreads_of(ss: &crate::model::SelSet, out: &mut Vec<String>) {
    for s in &ss.items {
        match s {
            crate::model::Sel::Field(f) => {
                if let Some(ss) = &f.sels {
                    spreads_of(ss, out);
                }
            }
            crate::model::Sel::Spread { name, .. } => out.push(name.s.clone()),
            crate::model::Sel::Inline { sels, .. } => spreads_of(sels, out),
        }
    }
}

thread_local! {
    /// inputs whose printers were not run because they carry the listed finding's killer shape
    pub static KILLER_SKIPS: std::cell::Cell<u64> = const { std::cell::Cell::new(0) };
}

pub fn unused_recursive_fragment_in_text(text: &str) -> bool {
    match crate::refparse::parse_exec(text) {
        Ok(d) => has_unused_recursive_fragment(&d),
        Err(_) => crate::refparse::parse_exec(&text.replace("#import", "#_mport")).map(|d| has_unused_recursive_fragment(&d)).unwrap_or(false),
    }
}

/// does `text` (an operation file nitrogql parsed) hold a fragment that none of its operations reaches? A malformed
/// `#import` line is a comment for nitrogql but an error for the reference parser: it is read as a comment here too.
pub fn unused_fragment_in_text(text: &str) -> bool {
    match crate::refparse::parse_exec(text) {
        Ok(d) => {
            if std::env::var("NQV_DEBUG").is_ok() {
                eprintln!("DEBUG parsed ok: ops {} frags {} unused {}", d.ops().count(), d.frags().count(), has_unused_fragment(&d));
            }
            has_unused_fragment(&d)
        }
        Err(_) => {
            let r = crate::refparse::parse_exec(&text.replace("#import", "#_mport"));
            if std::env::var("NQV_DEBUG").is_ok() {
                match &r {
                    Ok(d) => eprintln!("DEBUG retry ok: ops {} frags {}", d.ops().count(), d.frags().count()),
                    Err(e) => eprintln!("DEBUG retry err {}:{} {}", e.line, e.col, e.msg),
                }
            }
            r.map(|d| has_unused_fragment(&d)).unwrap_or(false)
        }
    }
}

/// a fragment that no operation of the document reaches (its body is never checked: the listed finding's precondition)
pub fn has_unused_fragment(doc: &crate::model::ExecDoc) -> bool {
    use std::collections::BTreeSet;
    let mut reach: BTreeSet<String> = BTreeSet::new();
    let mut work: Vec<String> = vec![];
    for o in doc.ops() {
        spreads_of(&o.sels, &mut work);
    }
    while let Some(n) = work.pop() {
        if reach.insert(n.clone()) {
            if let Some(f) = doc.frag(&n) {
                spreads_of(&f.sels, &mut work);
            }
        }
    }
    doc.frags().any(|f| !reach.contains(&f.name.s))
}

/// a fragment that transitively spreads itself and is not reachable from any operation of the document
pub fn has_unused_recursive_fragment(doc: &crate::model::ExecDoc) -> bool {
    use std::collections::BTreeSet;
    let mut reach: BTreeSet<String> = BTreeSet::new();
    let mut work: Vec<String> = vec![];
    for o in doc.ops() {
        spreads_of(&o.sels, &mut work);
    }
    while let Some(n) = work.pop() {
        if reach.insert(n.clone()) {
            if let Some(f) = doc.frag(&n) {
                spreads_of(&f.sels, &mut work);
            }
        }
    }
    for f in doc.frags() {
        if reach.contains(&f.name.s) {
            continue;
        }
        // cycle through f?
        let mut seen: BTreeSet<String> = BTreeSet::new();
        let mut w = vec![];
        spreads_of(&f.sels, &mut w);
        while let Some(n) = w.pop() {
            if n == f.name.s {
                return true;
            }
            if seen.insert(n.clone()) {
                if let Some(g) = doc.frag(&n) {
                    spreads_of(&g.sels, &mut w);
                }
            }
        }
    }
    false
}

pub fn replay(case: &Value, ctx: &Ctx) -> Vec<Violation> {
    if case["kind"].as_str() == Some("scaling") {
        return check_scaling(case["family"].as_str().unwrap_or(""));
    }
    let g = |k: &str| case[k].as_str().unwrap_or("").to_string();
    match case["kind"].as_str() {
        Some("project") => check_case(&g("schema"), &g("op"), &g("frag"), &g("config")),
        Some("cli") => check_cli(ctx, 0, &g("schema"), &g("op"), &g("frag"), &g("config")),
        Some("loader") => {
            crate::panicguard::set_print(true);
            loader_case(&g("op"), &g("frag"), &g("config"));
            vec![]
        }
        _ => vec![],
    }
}
