//! C01 — result types admit every spec-conformant response.
//! C02 — result types admit nothing no execution could return (per-selection-set reference).
//! C09 — Variables types admit only coercible inputs and every explicit one.

use std::collections::{BTreeMap, BTreeSet};
use std::rc::Rc;

use serde_json::{Value, json};

use crate::ctx::Ctx;
use crate::exec::{self, Cand, Chooser, ExecCx, Sigma};
use crate::gen_ops::{OpOpts, gen_valid_doc};
use crate::gen_schema::{SchemaOpts, gen_valid_schema};
use crate::genproj::GenConfig;
use crate::model::*;
use crate::pipeline::{ProjectInput, run_project};
use crate::refparse;
use crate::refts::ScalarMap;
use crate::render::{Feat, render_exec, render_ts};
use crate::report::{Report, Violation, clip};
use crate::rng::Rng;
use crate::schema_ix::{BUILTIN_SCALARS, SchemaIx, merge_extensions};
use crate::ts::{self, Eval, NF, Stmt, Ty as TsTy, V};
use crate::validate::{validate_operations, validate_type_system, validate_unimplemented_rules};

pub struct Case {
    pub schema: String,
    pub op: String,
    pub scalars: Vec<(String, String)>,
    pub allow_undefined: bool,
    /// the schema reaches nitrogql as an introspection result (JSON file, through the CLI) instead of SDL
    pub json: bool,
}

/// (CLI binary, scratch directory) for the introspection route; unset = that route is skipped
pub static CLI_ROUTE: std::sync::OnceLock<(String, String)> = std::sync::OnceLock::new();
thread_local! {
    pub static JSON_ROUTE_LOADED: std::cell::Cell<u64> = const { std::cell::Cell::new(0) };
    pub static JSON_ROUTE_DEPRECATED_SELECTED: std::cell::Cell<u64> = const { std::cell::Cell::new(0) };
}

fn case_json(prop: &str, c: &Case) -> Value {
    json!({"property":prop,"kind":"types","schema":c.schema,"op":c.op,"scalars":c.scalars.iter().map(|(a,b)| json!([a,b])).collect::<Vec<_>>(),"allow_undefined":c.allow_undefined,"json":c.json})
}

fn case_from_json(v: &Value) -> Case {
    Case {
        schema: v["schema"].as_str().unwrap_or("").to_string(),
        op: v["op"].as_str().unwrap_or("").to_string(),
        scalars: v["scalars"].as_array().map(|a| a.iter().map(|x| (x[0].as_str().unwrap_or("").to_string(), x[1].as_str().unwrap_or("").to_string())).collect()).unwrap_or_default(),
        allow_undefined: v["allow_undefined"].as_bool().unwrap_or(true),
        json: v["json"].as_bool().unwrap_or(false),
    }
}

const SCALAR_TS: &[&str] = &["string", "number", "Date", "string | number", "Date | string", "boolean"];

pub fn gen_case(rng: &mut Rng, for_c09: bool) -> Option<Case> {
    let mut so = SchemaOpts::default_for(rng);
    so.interface_chains = true;
    so.descriptions = false;
    let (mut schema, _) = gen_valid_schema(rng, &so);
    // name clash: an input object, enum, object or union named like an identifier that scalar mappings use (Date, Record)
    if rng.chance(1, 5) {
        let ix0 = SchemaIx::new(&schema);
        let victims: Vec<String> = ix0.order.iter().filter(|t| matches!(ix0.kind(t), Some(TKind::Input | TKind::Enum | TKind::Object | TKind::Union)) && !matches!(t.as_str(), "Query" | "Mutation" | "Subscription" | "RootQ" | "RootM" | "RootS")).cloned().collect();
        if let Some(v) = rng.pick_opt(&victims) {
            let new = "Date";
            if ix0.kind(new).is_none() {
                crate::props::c10::rename_type(&mut schema, v, new);
            }
        }
    }
    // one case in six takes the introspection route; there a third of the output fields are deprecated (a server lists
    // them under includeDeprecated: true, and documents may still select them)
    let json = rng.chance(1, 6);
    if json {
        for d in schema.defs.iter_mut() {
            if let TsDef::Type(t) = d {
                if matches!(t.kind, TKind::Object | TKind::Interface) {
                    for f in t.fields.iter_mut() {
                        if rng.chance(1, 3) && !f.dirs.iter().any(|d| d.name.s == "deprecated") {
                            f.dirs.push(Dir::new("deprecated", vec![]));
                        }
                    }
                }
            }
        }
    }
    let ix = SchemaIx::new(&schema);
    let mut oo = OpOpts::standard();
    oo.max_depth = if for_c09 { 2 } else { 3 };
    oo.max_ops = 2;
    // half of the documents have no duplicate response keys at all: there the merge finding cannot interfere
    oo.unique_response_keys = rng.coin();
    oo.shared_names = true;
    let doc = gen_valid_doc(rng, &ix, &oo)?;
    let custom: Vec<String> = ix.order.iter().filter(|t| ix.kind(t) == Some(TKind::Scalar) && !BUILTIN_SCALARS.contains(&t.as_str())).cloned().collect();
    let mut scalars = vec![];
    for s in &custom {
        let v = match rng.below(3) {
            0 => format!("{}||{}", rng.s(SCALAR_TS), rng.s(SCALAR_TS)),
            1 => format!("{}||{}||{}||{}", rng.s(SCALAR_TS), rng.s(SCALAR_TS), rng.s(SCALAR_TS), rng.s(SCALAR_TS)),
            _ => rng.s(SCALAR_TS).to_string(),
        };
        scalars.push((s.clone(), v));
    }
    if rng.chance(1, 5) {
        scalars.push(("ID".into(), rng.s(&["string", "number||string"]).to_string()));
    }
    // some scalars get their TypeScript types from the schema directive instead of the configuration
    // a third of the schemas are written with extensions (fields, interfaces, members, values moved into `extend` items)
    if rng.chance(1, 3) {
        schema = crate::gen_schema::split_extensions(&schema, rng);
    }
    if !json {
        // (an introspection result does not carry directive applications)
        crate::gen_schema::scalars_via_directive(&mut schema, &mut scalars, SCALAR_TS, rng);
    }
    Some(Case { schema: render_ts(&schema, None, Feat::plain()), op: render_exec(&doc, None, Feat::plain()), scalars, allow_undefined: rng.chance(2, 3), json })
}

pub struct Loaded {
    pub ix: SchemaIx,
    pub doc: ExecDoc,
    pub sm: ScalarMap,
    pub l: ts::Loaded,
    pub op_stmts: Vec<Stmt>,
}

/// run the real pipeline on a case and load its outputs; None = not a case of these properties (check did not accept, ...)
pub fn load_case(prop: &str, c: &Case, out: &mut Vec<Violation>) -> Option<Loaded> {
    let replay = case_json(prop, c);
    let sdoc = refparse::parse_ts(&c.schema).ok()?;
    if !validate_type_system(&sdoc).is_empty() {
        return None;
    }
    let ix = SchemaIx::new(&merge_extensions(&sdoc));
    let doc = refparse::parse_exec(&c.op).ok()?;
    if !validate_operations(&ix, &doc).is_empty() || !validate_unimplemented_rules(&ix, &doc).is_empty() {
        return None;
    }
    let mut cfg = GenConfig::basic();
    cfg.scalars = c.scalars.clone();
    cfg.allow_undefined_as_optional_input = Some(c.allow_undefined);
    cfg.schema_module_specifier = Some("@/schema".into());
    if c.json {
        return load_case_json(prop, c, cfg, ix, doc, out);
    }
    let config_text = cfg.render(&["./schema.graphql".to_string()], &["./op.graphql".to_string()]);
    let sf = vec![("/proj/schema.graphql".to_string(), c.schema.clone())];
    let of = vec![("/proj/op.graphql".to_string(), c.op.clone())];
    let r = run_project(&ProjectInput { schema_files: &sf, op_files: &of, config: &config_text, generate: false, check_only: false });
    for (stage, p) in &r.panics {
        out.push(Violation { sig: format!("{prop}|panic|{}|{}", p.site(), p.msg_class()), detail: format!("{stage}: {}", p.msg), replay: replay.clone() });
    }
    let o = r.outputs.as_ref()?;
    if !r.generate_errors.is_empty() || o.ops.is_empty() {
        return None;
    }
    let l = match ts::load(&o.schema_dts, Some(&o.ops[0].dts)) {
        Ok(l) => l,
        Err(e) => {
            out.push(Violation { sig: format!("{prop}|declaration-file-does-not-parse"), detail: format!("{e} — {:?}", clip(&o.ops[0].dts, 400)), replay: replay.clone() });
            return None;
        }
    };
    let op_stmts = ts::parse_module(&o.ops[0].dts).ok()?;
    let sm = ScalarMap::new(&ix, &c.scalars);
    Some(Loaded { ix, doc, sm, l, op_stmts })
}

/// the introspection route: the merged schema is written as the JSON a server would answer (deprecated fields listed),
/// the real CLI generates from it, and its declaration files are loaded like those of the library route
fn load_case_json(prop: &str, c: &Case, cfg: GenConfig, ix: SchemaIx, doc: ExecDoc, out: &mut Vec<Violation>) -> Option<Loaded> {
    use crate::cli;
    use crate::introspect::{IntroStyle, introspect};
    let (cli_bin, scratch) = CLI_ROUTE.get()?;
    let replay = case_json(prop, c);
    let h = crate::rng::hash_str(&c.schema) ^ crate::rng::hash_str(&c.op).rotate_left(17);
    let mut jr = Rng::new(h);
    let style = IntroStyle { full: jr.coin(), meta_types: jr.coin(), shuffle: jr.coin() };
    let intro = introspect(&ix, None, style, &mut jr);
    let text = if jr.coin() { serde_json::to_string_pretty(&intro).unwrap_or_default() } else { intro.to_string() };
    let config_text = cfg.render(&["./schema.json".to_string()], &["./op.graphql".to_string()]);
    let dir = cli::scratch_dir(scratch, "c01", h);
    let files = vec![("schema.json".to_string(), text), ("op.graphql".to_string(), c.op.clone()), ("graphql.config.yaml".to_string(), config_text)];
    let mut loaded = None;
    if cli::write_project(&dir, &files).is_ok() {
        let r = cli::run_cli(cli_bin, &dir, &["generate", "--output-format", "json"], std::time::Duration::from_secs(60));
        if let Some(l) = r.panicked() {
            out.push(Violation { sig: format!("{prop}|panic|{}|introspection-route", r.panic_site().unwrap_or_default()), detail: format!("nitrogql-cli printed a panic: {l}"), replay: replay.clone() });
        } else if r.status != Some(0) {
            if std::env::var("NQV_DEBUG_JSON").is_ok() { eprintln!("JSON route: status {:?} stdout {} stderr {}", r.status, clip(&r.stdout, 600), clip(&r.stderr, 300)); }
        } else if r.status == Some(0) {
            if std::env::var("NQV_DEBUG_JSON").is_ok() { eprintln!("JSON route ok: {:?}", crate::cli::snapshot(&dir).keys().collect::<Vec<_>>()); }
            if let (Ok(schema_dts), Ok(op_dts)) = (std::fs::read_to_string(dir.join("generated/schema.d.ts")), std::fs::read_to_string(dir.join(format!("op.{}", cfg.decl_extension())))) {
                match ts::load(&schema_dts, Some(&op_dts)) {
                    Ok(l) => {
                        if let Ok(op_stmts) = ts::parse_module(&op_dts) {
                            let sm = ScalarMap::new(&ix, &c.scalars);
                            JSON_ROUTE_LOADED.with(|k| k.set(k.get() + 1));
                            loaded = Some(Loaded { ix, doc, sm, l, op_stmts });
                        }
                    }
                    Err(e) => out.push(Violation { sig: format!("{prop}|declaration-file-does-not-parse|introspection-route"), detail: format!("{e} — {:?}", clip(&op_dts, 400)), replay: replay.clone() }),
                }
            }
        }
    }
    cli::cleanup(&dir);
    loaded
}

/// (result type, variables type) of the TypedDocumentNode constant named `name`
fn doc_node_types(stmts: &[Stmt], name: &str) -> Option<(TsTy, TsTy)> {
    stmts.iter().find_map(|s| match s {
        Stmt::Const { name: n, ty: Some(TsTy::Ref(path, args)), .. } if n == name && path.join(".") == "TypedDocumentNode" && args.len() == 2 => Some((args[0].clone(), args[1].clone())),
        _ => None,
    })
}

fn capitalize(s: &str) -> String {
    let mut c = s.chars();
    match c.next() {
        Some(f) => f.to_uppercase().chain(c).collect(),
        None => String::new(),
    }
}

pub fn const_name_of(d: &ExecDef) -> Option<String> {
    match d {
        ExecDef::Op(o) => {
            let n = o.name.as_ref()?;
            Some(format!("{}{}", capitalize(&n.s), match o.kind {
                OpKind::Query => "Query",
                OpKind::Mutation => "Mutation",
                OpKind::Subscription => "Subscription",
            }))
        }
        ExecDef::Frag(f) => Some(f.name.s.clone()),
        _ => None,
    }
}

fn bool_defaults(o: &OpDef) -> BTreeMap<String, bool> {
    o.vars.iter().filter_map(|v| match &v.default { Some(Val::Bool(b, _)) => Some((v.name.s.clone(), *b)), _ => None }).collect()
}

fn literals_in_play(ix: &SchemaIx) -> Vec<String> {
    let mut v: Vec<String> = ix.order.iter().filter(|t| ix.kind(t) == Some(TKind::Object)).cloned().collect();
    for t in &ix.order {
        if ix.kind(t) == Some(TKind::Enum) {
            v.extend(ix.enum_values(t));
        }
    }
    v
}

fn contains_impossible(v: &V) -> bool {
    match v {
        V::Opaque(s) => s == "<impossible>",
        V::List(items) => items.iter().any(contains_impossible),
        V::Obj(m) => m.values().any(contains_impossible),
        _ => false,
    }
}

/// which constructs does the selection set use (for signatures and non-triviality)
fn features(cx: &ExecCx, ss: &SelSet, out: &mut BTreeSet<&'static str>, parent: &str, seen: &mut Vec<String>) {
    let mut keys = BTreeSet::new();
    for s in &ss.items {
        for d in s.dirs() {
            if matches!(d.name.s.as_str(), "skip" | "include") {
                out.insert(if matches!(d.arg("if"), Some(Val::Var(_))) { "conditional-variable" } else { "conditional-literal" });
            }
        }
        match s {
            Sel::Field(f) => {
                if !keys.insert(f.key().to_string()) {
                    out.insert("duplicate-response-key");
                }
                if let (Some(sub), Some(fd)) = (&f.sels, cx.ix.field(parent, &f.name.s)) {
                    let base = fd.ty.base().to_string();
                    if matches!(cx.ix.kind(&base), Some(TKind::Interface | TKind::Union)) {
                        out.insert("abstract-parent");
                    }
                    features(cx, sub, out, &base, seen);
                }
            }
            Sel::Inline { cond, sels, .. } => {
                out.insert("inline-fragment");
                let p = cond.as_ref().map(|c| c.s.clone()).unwrap_or_else(|| parent.to_string());
                features(cx, sels, out, &p, seen);
            }
            Sel::Spread { name, .. } => {
                out.insert("fragment-spread");
                if !seen.contains(&name.s) {
                    seen.push(name.s.clone());
                    if let Some(f) = cx.doc.frag(&name.s) {
                        features(cx, &f.sels, out, &f.cond.s, seen);
                    }
                }
            }
        }
    }
}

// ------------------------------------------------------------------------------------ normalisation (attribution of merge findings)

fn same_args(a: &Field, b: &Field) -> bool {
    a.args.len() == b.args.len() && a.args.iter().all(|(k, v)| b.args.iter().any(|(k2, v2)| k.s == k2.s && canon(&val_node(v)) == canon(&val_node(v2))))
}

/// semantics-preserving rewrite that removes duplicate response keys wherever that is syntactically possible:
/// spreads without directives become inline fragments, inline fragments without directives on the parent type are
/// flattened, sibling fields with the same key and no directives are merged (recursively)
pub fn normalize_selset(ix: &SchemaIx, doc: &ExecDoc, ss: &SelSet, parent: &str, depth: usize) -> SelSet {
    let mut flat: Vec<Sel> = vec![];
    fn push_flat(ix: &SchemaIx, doc: &ExecDoc, s: &Sel, parent: &str, out: &mut Vec<Sel>, depth: usize) {
        match s {
            Sel::Spread { name, dirs, .. } if dirs.is_empty() && depth < 12 => match doc.frag(&name.s) {
                Some(f) if f.dirs.is_empty() => {
                    let inl = Sel::Inline { p: P::none(), cond: Some(nm(&f.cond.s)), dirs: vec![], sels: f.sels.clone() };
                    push_flat(ix, doc, &inl, parent, out, depth + 1);
                }
                _ => out.push(s.clone()),
            },
            Sel::Inline { cond, dirs, sels, .. } if dirs.is_empty() && (cond.is_none() || cond.as_ref().is_some_and(|c| c.s == parent)) => {
                for x in &sels.items {
                    push_flat(ix, doc, x, parent, out, depth + 1);
                }
            }
            other => out.push(other.clone()),
        }
    }
    for s in &ss.items {
        push_flat(ix, doc, s, parent, &mut flat, depth);
    }
    // merge sibling fields
    let mut merged: Vec<Sel> = vec![];
    for s in flat {
        if let Sel::Field(f) = &s {
            if f.dirs.is_empty() {
                if let Some(Sel::Field(prev)) = merged.iter_mut().find(|m| matches!(m, Sel::Field(p) if p.key() == f.key() && p.dirs.is_empty() && p.name.s == f.name.s && same_args(p, f))) {
                    if let (Some(a), Some(b)) = (&mut prev.sels, &f.sels) {
                        a.items.extend(b.items.clone());
                    }
                    continue;
                }
            }
        }
        merged.push(s);
    }
    // recurse
    let items = merged
        .into_iter()
        .map(|s| match s {
            Sel::Field(mut f) => {
                if let (Some(sub), Some(fd)) = (&f.sels, ix.field(parent, &f.name.s)) {
                    f.sels = Some(normalize_selset(ix, doc, sub, fd.ty.base(), depth + 1));
                }
                Sel::Field(f)
            }
            Sel::Inline { p, cond, dirs, sels } => {
                let target = cond.as_ref().map(|c| c.s.clone()).unwrap_or_else(|| parent.to_string());
                Sel::Inline { p, cond, dirs, sels: normalize_selset(ix, doc, &sels, &target, depth + 1) }
            }
            other => other,
        })
        .collect();
    SelSet { p: P::none(), items }
}

/// does the selection set (after normalisation) still contain a duplicate response key among sibling fields?
fn has_sibling_duplicates(ss: &SelSet) -> bool {
    let mut keys = BTreeSet::new();
    for s in &ss.items {
        match s {
            Sel::Field(f) => {
                if !keys.insert(f.key().to_string()) {
                    return true;
                }
                if f.sels.as_ref().is_some_and(has_sibling_duplicates) {
                    return true;
                }
            }
            Sel::Inline { sels, .. } => {
                if has_sibling_duplicates(sels) {
                    return true;
                }
            }
            _ => {}
        }
    }
    false
}

pub fn normalize_doc(ix: &SchemaIx, doc: &ExecDoc) -> ExecDoc {
    let mut defs = vec![];
    for d in &doc.defs {
        match d {
            ExecDef::Op(o) => {
                let Some(root) = ix.root(o.kind) else { continue };
                let mut o2 = o.clone();
                o2.sels = normalize_selset(ix, doc, &o.sels, root, 0);
                defs.push(ExecDef::Op(o2));
            }
            ExecDef::Frag(f) => {
                let mut f2 = f.clone();
                f2.sels = normalize_selset(ix, doc, &f.sels, &f.cond.s, 0);
                defs.push(ExecDef::Frag(f2));
            }
            other => defs.push(other.clone()),
        }
    }
    ExecDoc { defs }
}

// ------------------------------------------------------------------------------------ C01 / C02

fn collect_syntactic<'a>(cx: &'a ExecCx, obj: &str, ss: &'a SelSet, out: &mut Vec<(String, Vec<&'a Field>)>, depth: usize) {
    if depth > 12 {
        return;
    }
    for s in &ss.items {
        match s {
            Sel::Field(f) => {
                let key = f.key().to_string();
                match out.iter_mut().find(|(k, _)| *k == key) {
                    Some((_, v)) => v.push(f),
                    None => out.push((key, vec![f])),
                }
            }
            Sel::Inline { cond, sels, .. } => {
                if cond.as_ref().is_none_or(|c| cx.ix.possible(&c.s).iter().any(|p| p == obj)) {
                    collect_syntactic(cx, obj, sels, out, depth + 1);
                }
            }
            Sel::Spread { name, .. } => {
                if let Some(f) = cx.doc.frag(&name.s) {
                    if cx.ix.possible(&f.cond.s).iter().any(|p| p == obj) {
                        collect_syntactic(cx, obj, &f.sels, out, depth + 1);
                    }
                }
            }
        }
    }
}


/// does the selection set (fragments followed) contain a selection with a variable-driven @skip / @include?
fn has_variable_conditional(cx: &ExecCx, ss: &SelSet, depth: usize) -> bool {
    if depth > 12 {
        return false;
    }
    ss.items.iter().any(|s| {
        let dirs = match s {
            Sel::Field(f) => &f.dirs,
            Sel::Inline { dirs, .. } => dirs,
            Sel::Spread { dirs, .. } => dirs,
        };
        if dirs.iter().any(|d| matches!(d.name.s.as_str(), "skip" | "include") && matches!(d.arg("if"), Some(Val::Var(_)))) {
            return true;
        }
        match s {
            Sel::Field(f) => f.sels.as_ref().is_some_and(|x| has_variable_conditional(cx, x, depth + 1)),
            Sel::Inline { sels, .. } => has_variable_conditional(cx, sels, depth + 1),
            Sel::Spread { name, .. } => cx.doc.frag(&name.s).is_some_and(|f| has_variable_conditional(cx, &f.sels, depth + 1)),
        }
    })
}

/// occurrences of every response key for object type `obj`: in syntactic order, or (`fields_first`) in the order of a
/// printer that takes the directly written fields of a selection set before its fragments, at every level
fn collect_occurrences<'a>(cx: &'a ExecCx, obj: &str, ss: &'a SelSet, fields_first: bool, out: &mut Vec<(String, Vec<&'a Field>)>, depth: usize) {
    if depth > 12 {
        return;
    }
    let passes: &[u8] = if fields_first { &[1, 2] } else { &[0] };
    for pass in passes {
        for s in &ss.items {
            match s {
                Sel::Field(f) => {
                    if *pass == 2 {
                        continue;
                    }
                    let key = f.key().to_string();
                    match out.iter_mut().find(|(k, _)| *k == key) {
                        Some((_, v)) => v.push(f),
                        None => out.push((key, vec![f])),
                    }
                }
                Sel::Inline { cond, sels, .. } => {
                    if *pass != 1 && cond.as_ref().is_none_or(|c| cx.ix.possible(&c.s).iter().any(|p| p == obj)) {
                        collect_occurrences(cx, obj, sels, fields_first, out, depth + 1);
                    }
                }
                Sel::Spread { name, .. } => {
                    if *pass != 1 {
                        if let Some(f) = cx.doc.frag(&name.s) {
                            if cx.ix.possible(&f.cond.s).iter().any(|p| p == obj) {
                                collect_occurrences(cx, obj, &f.sels, fields_first, out, depth + 1);
                            }
                        }
                    }
                }
            }
        }
    }
}

/// The listed merge finding, precisely: `merge_selection_trees` keeps the variable branches of the occurrence it
/// merges *into* and drops those of the occurrence it merges *from*. Observed on the pinned tree: `me { name @include(if:$w) }
/// me { id }` is right, `me { id } me { name @include(if:$w) }` and two conditional occurrences are wrong. So a duplicated
/// object-typed response key is hazardous iff an occurrence with a variable conditional inside its sub-selection is not
/// the first one -- in syntactic order or in the printer's "directly written fields first" order (either may be the
/// merge order; an occurrence that is first in both is certainly merged into).
fn merge_hazard(cx: &ExecCx, ss: &SelSet, parent: &str, depth: usize) -> bool {
    if depth > 10 {
        return false;
    }
    for obj in cx.ix.possible(parent) {
        let mut occ = vec![];
        collect_occurrences(cx, &obj, ss, false, &mut occ, 0);
        let mut occ_ff = vec![];
        collect_occurrences(cx, &obj, ss, true, &mut occ_ff, 0);
        for (key, nodes) in &occ {
            let f0 = nodes[0];
            let Some(fd) = cx.ix.field(&obj, &f0.name.s) else { continue };
            if nodes.len() > 1 {
                let first_ff: Option<&Field> = occ_ff.iter().find(|(k, _)| k == key).map(|(_, v)| v[0]);
                for (i, f) in nodes.iter().enumerate() {
                    let cond_inside = f.sels.as_ref().is_some_and(|x| has_variable_conditional(cx, x, 0));
                    let first_in_both = i == 0 && first_ff.is_some_and(|g| std::ptr::eq(g, *f));
                    if cond_inside && !first_in_both {
                        return true;
                    }
                }
            }
            // below: the sub-selections of all occurrences are merged into one selection set
            let mut merged = SelSet { p: P::none(), items: vec![] };
            for f in nodes {
                if let Some(sub) = &f.sels {
                    merged.items.extend(sub.items.iter().cloned());
                }
            }
            if !merged.items.is_empty() && merge_hazard(cx, &merged, fd.ty.base(), depth + 1) {
                return true;
            }
        }
    }
    false
}

/// is some response key selected more than once for some possible object type, once fragments are expanded?
fn expanded_duplicates(cx: &ExecCx, ss: &SelSet, parent: &str, depth: usize) -> bool {
    if depth > 10 {
        return false;
    }
    for obj in cx.ix.possible(parent) {
        let mut fields = vec![];
        // syntactic expansion: unlike CollectFields, a fragment spread twice is expanded twice (that is what the printer
        // merges); nothing is skipped: directives count as included
        collect_syntactic(cx, &obj, ss, &mut fields, 0);
        for (_, nodes) in &fields {
            if nodes.len() > 1 {
                return true;
            }
            let f = nodes[0];
            if let (Some(sub), Some(fd)) = (&f.sels, cx.ix.field(&obj, &f.name.s)) {
                if expanded_duplicates(cx, sub, fd.ty.base(), depth + 1) {
                    return true;
                }
            }
        }
    }
    false
}

/// membership of `v` in the result type the real pipeline emits for constant `cname` of this case
fn member_in_case(c: &Case, cname: &str, v: &V) -> Option<bool> {
    let mut sink = vec![];
    let ld = load_case("C01", c, &mut sink)?;
    let ev = Eval::new(&ld.l.prog);
    let om = ld.l.other_module?;
    let (rty, _) = doc_node_types(&ld.op_stmts, cname)?;
    let nf = ev.eval(ld.l.prog.modules[om], &rty, &Rc::new(BTreeMap::new()));
    if ev.out_of_fuel() {
        return None;
    }
    Some(ts::member(&ev, v, &nf, 0))
}

/// the same case with duplicate response keys merged away syntactically (None if nothing could be merged)
fn normalized_case(c: &Case, ix: &SchemaIx, doc: &ExecDoc) -> Option<Case> {
    let n = normalize_doc(ix, doc);
    if canon(&execdoc_node(&n)) == canon(&execdoc_node(doc)) {
        return None;
    }
    Some(Case { schema: c.schema.clone(), op: render_exec(&n, None, Feat::plain()), scalars: c.scalars.clone(), allow_undefined: c.allow_undefined, json: c.json })
}

pub struct TypeStats {
    pub responses: u64,
    pub inhabitants: u64,
    pub features: BTreeSet<&'static str>,
    pub targets: u64,
}

pub fn check_results(prop: &str, c: &Case, rng: &mut Rng, stats: &mut TypeStats) -> Option<Vec<Violation>> {
    let mut out = vec![];
    let ld = load_case(prop, c, &mut out)?;
    let replay = case_json(prop, c);
    let ev = Eval::new(&ld.l.prog);
    let om = ld.l.other_module?;
    let cx = ExecCx { ix: &ld.ix, doc: &ld.doc, scalars: &ld.sm };
    let lits = literals_in_play(&ld.ix);
    let root_scope = ld.l.prog.modules[om];
    // known weak spot (one finding): merging of duplicate response keys loses variable-conditional branches. A document that
    // has both a duplicate response key (after fragment expansion) and a variable conditional is attributed to it as a whole.
    let doc_has_merge_hazard = {
        let mut all = BTreeSet::new();
        for d in &ld.doc.defs {
            let (ss, parent) = match d {
                ExecDef::Op(o) => (&o.sels, ld.ix.root(o.kind).cloned().unwrap_or_default()),
                ExecDef::Frag(f) => (&f.sels, f.cond.s.clone()),
                _ => continue,
            };
            features(&cx, ss, &mut all, &parent, &mut vec![]);
            if merge_hazard(&cx, ss, &parent, 0) {
                all.insert("merge-hazard");
            }
        }
        all.contains("merge-hazard")
    };
    for d in &ld.doc.defs {
        let Some(cname) = const_name_of(d) else { continue };
        let Some((rty, _)) = doc_node_types(&ld.op_stmts, &cname) else {
            out.push(Violation { sig: format!("{prop}|typed-document-constant-missing|{}", if matches!(d, ExecDef::Op(_)) { "operation" } else { "fragment" }), detail: format!("no `{cname}: TypedDocumentNode<..>` in the declaration file"), replay: replay.clone() });
            continue;
        };
        let nf = ev.eval(root_scope, &rty, &Rc::new(BTreeMap::new()));
        let (parents, ss, defaults): (Vec<String>, &SelSet, BTreeMap<String, bool>) = match d {
            ExecDef::Op(o) => (vec![ld.ix.root(o.kind)?.clone()], &o.sels, bool_defaults(o)),
            ExecDef::Frag(f) => (vec![f.cond.s.clone()], &f.sels, BTreeMap::new()),
            _ => continue,
        };
        let parent = parents[0].clone();
        let mut feats = BTreeSet::new();
        features(&cx, ss, &mut feats, &parent, &mut vec![]);
        stats.features.extend(feats.iter().copied());
        stats.targets += 1;
        let feat_sig = feats.iter().copied().collect::<Vec<_>>().join("+");
        let what = if matches!(d, ExecDef::Op(_)) { "operation" } else { "fragment" };
        let mut vars = BTreeSet::new();
        exec::all_bool_vars(&cx, ss, &mut vars, &mut vec![]);
        let vars: Vec<String> = vars.into_iter().collect();
        let k = vars.len().min(4);
        if prop == "C01" {
            // every response under every assignment of (up to 4 of) the boolean variables, several data choices each
            let mut reported = false;
            for mask in 0..(1u32 << k) {
                let mut sigma: Sigma = vars.iter().take(k).enumerate().map(|(i, n)| (n.clone(), mask & (1 << i) != 0)).collect();
                for n in vars.iter().skip(k) {
                    sigma.insert(n.clone(), rng.coin());
                }
                for obj in ld.ix.possible(&parent) {
                    for round in 0..6 {
                        let mut ch = Chooser { rng, null_bias: (round % 3) as u32 };
                        let r = exec::respond(&cx, &obj, ss, &sigma, &defaults, &mut ch, 0);
                        if contains_impossible(&r) {
                            continue;
                        }
                        stats.responses += 1;
                        if !ts::member(&ev, &r, &nf, 0) && !reported {
                            reported = true;
                            // attribution: does the response become admitted once duplicate response keys are merged by hand?
                            let attributed = doc_has_merge_hazard || normalized_case(c, &ld.ix, &ld.doc).and_then(|nc| member_in_case(&nc, &cname, &r)) == Some(true);
                            out.push(Violation {
                                sig: if attributed { "C01|response-not-admitted|document-has-duplicate-response-key-and-variable-conditional".to_string() } else { format!("C01|response-not-admitted|{what}|{feat_sig}") },
                                detail: format!("{cname}: response {} (sigma {:?}, root object {obj}) is not a member of the emitted type `{}` — operation {:?}", r.show(), sigma, clip(&ts::canon(&ev, &nf), 600), clip(&c.op, 600)),
                                replay: replay.clone(),
                            });
                        }
                    }
                }
            }
        } else {
            // C02: inhabitants of the emitted type and perturbed real responses must be producible per selection set
            let mut cands: Vec<V> = exec::inhabitants(&ev, &nf, &lits, 0, 60);
            let sigma: Sigma = vars.iter().map(|n| (n.clone(), rng.coin())).collect();
            for obj in ld.ix.possible(&parent).iter().take(2) {
                let mut ch = Chooser { rng, null_bias: 0 };
                let r = exec::respond(&cx, obj, ss, &sigma, &defaults, &mut ch, 0);
                if !contains_impossible(&r) {
                    cands.extend(exec::perturb(&r, ch.rng));
                }
            }
            let mut reported = false;
            for v in cands {
                if !ts::member(&ev, &v, &nf, 0) {
                    continue;
                }
                stats.inhabitants += 1;
                if !exec::ref_local_member(&cx, &v, &parent, ss, &defaults, 0) && !reported {
                    reported = true;
                    // attribution: is the value rejected once duplicate response keys are merged by hand?
                    let attributed = doc_has_merge_hazard || normalized_case(c, &ld.ix, &ld.doc).and_then(|nc| member_in_case(&nc, &cname, &v)) == Some(false);
                    out.push(Violation {
                        sig: if attributed { "C02|admits-impossible-value|document-has-duplicate-response-key-and-variable-conditional".to_string() } else { format!("C02|admits-impossible-value|{what}|{feat_sig}") },
                        detail: format!("{cname}: the emitted type `{}` admits {} which no execution of the selection set can produce — operation {:?}", clip(&ts::canon(&ev, &nf), 600), v.show(), clip(&c.op, 600)),
                        replay: replay.clone(),
                    });
                }
            }
        }
    }
    if ev.out_of_fuel() {
        return None; // the evaluator gave up on this case: not a verdict
    }
    for e in ev.errors.borrow().iter() {
        out.push(Violation { sig: format!("{prop}|evaluation-problem|{}", e.split(' ').take(4).collect::<Vec<_>>().join("-")), detail: e.clone(), replay: replay.clone() });
    }
    out.sort_by(|a, b| a.sig.cmp(&b.sig));
    out.dedup_by(|a, b| a.sig == b.sig);
    Some(out)
}

fn run_results(prop: &str, ctx: &Ctx, rep: &mut Report) {
    let st = ts::selftest();
    if !st.is_empty() {
        rep.inconclusive(format!("TypeScript evaluator self-test failed: {}", st.join("; ")));
        return;
    }
    crate::gen_syntax::set_allow_block(false);
    let _ = CLI_ROUTE.set((ctx.cli.clone(), ctx.out.clone()));
    let n = ctx.budget(16_000, 240_000);
    let mut stats = TypeStats { responses: 0, inhabitants: 0, features: BTreeSet::new(), targets: 0 };
    let mut feature_counts: BTreeMap<&'static str, u64> = BTreeMap::new();
    for case in 0..n {
        let mut rng = ctx.rng("case", case);
        let Some(c) = gen_case(&mut rng, false) else {
            rep.count("generator_gave_up");
            continue;
        };
        rep.trace_case(|| case_json(prop, &c));
        rep.eval();
        let before = stats.features.clone();
        stats.features.clear();
        match check_results(prop, &c, &mut rng, &mut stats) {
            None => rep.count("skipped"),
            Some(vs) => {
                rep.count("documents_compared");
                if stats.features.contains("duplicate-response-key") && stats.features.contains("conditional-variable") {
                    rep.count("documents_with_duplicate_key_and_variable_conditional(attributed to the known merge finding)");
                } else {
                    rep.count("documents_without_the_merge_hazard(precise signatures)");
                }
                if !stats.features.is_empty() {
                    rep.nontrivial(&format!("{}\u{1}{}", c.schema, c.op));
                }
                for f in &stats.features {
                    *feature_counts.entry(f).or_insert(0) += 1;
                }
                rep.violations(vs);
            }
        }
        stats.features.extend(before);
        if case == 0 {
            rep.sample(json!({"operation": clip(&c.op, 700), "scalars": c.scalars}));
        }
    }
    rep.add("operations_and_fragments_compared", stats.targets);
    rep.add("documents_loaded_through_the_introspection_route(real CLI, JSON schema with deprecated fields)", JSON_ROUTE_LOADED.with(|k| k.get()));
    if prop == "C01" {
        rep.add("responses_evaluated", stats.responses);
    } else {
        rep.add("admitted_values_checked_against_ref_local", stats.inhabitants);
    }
    for (f, c) in feature_counts {
        rep.add(&format!("documents_with|{f}"), c);
    }
    rep.note("membership is observational: an absent key satisfies a property iff it is optional or its type admits undefined (so `x?: never` and `x: undefined` both mean 'x absent'); values carry exactly their keys");
}

pub fn run_c01(ctx: &Ctx, rep: &mut Report) {
    run_results("C01", ctx, rep)
}
pub fn run_c02(ctx: &Ctx, rep: &mut Report) {
    run_results("C02", ctx, rep)
}

// ------------------------------------------------------------------------------------ C09

pub fn check_variables(c: &Case, stats: &mut (u64, u64)) -> Option<Vec<Violation>> {
    let mut out = vec![];
    let ld = load_case("C09", c, &mut out)?;
    let replay = case_json("C09", c);
    let ev = Eval::new(&ld.l.prog);
    let om = ld.l.other_module?;
    let root_scope = ld.l.prog.modules[om];
    for d in &ld.doc.defs {
        let ExecDef::Op(o) = d else { continue };
        let Some(cname) = const_name_of(d) else { continue };
        let Some((_, vty)) = doc_node_types(&ld.op_stmts, &cname) else { continue };
        let nf = ev.eval(root_scope, &vty, &Rc::new(BTreeMap::new()));
        stats.0 += 1;
        if o.vars.is_empty() {
            // no variables: the empty object must be admitted
            if !ts::member(&ev, &V::Obj(BTreeMap::new()), &nf, 0) {
                out.push(Violation { sig: "C09|no-variables|empty-object-rejected".into(), detail: format!("{cname}: Variables type `{}` does not admit {{}}", ts::canon(&ev, &nf)), replay: replay.clone() });
            }
            continue;
        }
        // candidates per variable (+ absence)
        let mut per: Vec<(&VarDef, Vec<Cand>)> = vec![];
        for v in &o.vars {
            let mut cs = exec::input_candidates(&ld.ix, &ld.sm, &v.ty, 0);
            cs.truncate(24);
            let required = v.ty.is_non_null() && v.default.is_none();
            let nullable = !v.ty.is_non_null();
            cs.push(Cand { v: None, coercible: !required, explicit: false, omission_only: nullable });
            per.push((v, cs));
        }
        let base: Vec<Option<Cand>> = per.iter().map(|(_, cs)| cs.iter().find(|x| x.explicit).cloned()).collect();
        if base.iter().any(|b| b.is_none()) {
            continue; // some variable has no explicit inhabitant in the abstract domain (e.g. scalar mapped to an exotic type)
        }
        let base: Vec<Cand> = base.into_iter().map(|b| b.unwrap()).collect();
        let mut assignments: Vec<Vec<Cand>> = vec![base.clone()];
        for (i, (_, cs)) in per.iter().enumerate() {
            for alt in cs {
                let mut a = base.clone();
                a[i] = alt.clone();
                assignments.push(a);
            }
        }
        // all nullable variables omitted at once
        let all_omitted: Vec<Cand> = per.iter().zip(base.iter()).map(|((v, cs), b)| if !v.ty.is_non_null() { cs.last().unwrap().clone() } else { b.clone() }).collect();
        assignments.push(all_omitted);
        let mut seen_sigs = BTreeSet::new();
        for a in assignments {
            let mut m = BTreeMap::new();
            let mut coercible = true;
            let mut explicit = true;
            let mut omission_only = true;
            let mut any_omission = false;
            let mut has_nonnull_default_omitted = false;
            for ((v, _), cnd) in per.iter().zip(a.iter()) {
                coercible &= cnd.coercible;
                match &cnd.v {
                    Some(val) => {
                        m.insert(v.name.s.clone(), val.clone());
                        explicit &= cnd.explicit;
                        omission_only &= cnd.explicit || cnd.omission_only;
                        any_omission |= cnd.omission_only && !cnd.explicit;
                    }
                    None => {
                        explicit = false;
                        omission_only &= cnd.omission_only;
                        any_omission = true;
                        if v.ty.is_non_null() && v.default.is_some() {
                            has_nonnull_default_omitted = true;
                        }
                    }
                }
            }
            let val = V::Obj(m);
            let member = ts::member(&ev, &val, &nf, 0);
            stats.1 += 1;
            let kinds = |a: &Vec<Cand>| -> String { per.iter().zip(a.iter()).map(|((v, _), c)| format!("${}={}", v.name.s, c.v.as_ref().map(|x| x.show()).unwrap_or_else(|| "<absent>".into()))).collect::<Vec<_>>().join(", ") };
            if member && !coercible {
                let cls = classify_var_problem(&per, &a);
                if seen_sigs.insert(format!("a{cls}")) {
                    out.push(Violation { sig: format!("C09|admits-uncoercible|{cls}"), detail: format!("{cname}: Variables type `{}` admits {{{}}} which variable coercion rejects — variables {}", clip(&ts::canon(&ev, &nf), 500), kinds(&a), vars_show(o)), replay: replay.clone() });
                }
            }
            let omission_ok = omission_only && any_omission && coercible;
            if explicit && !member {
                let cls = classify_var_problem(&per, &a);
                if seen_sigs.insert(format!("e{cls}")) {
                    out.push(Violation { sig: format!("C09|rejects-explicit|{cls}"), detail: format!("{cname}: Variables type `{}` rejects the explicit coercible assignment {{{}}} — variables {}", clip(&ts::canon(&ev, &nf), 500), kinds(&a), vars_show(o)), replay: replay.clone() });
                }
            }
            if omission_ok && !has_nonnull_default_omitted {
                if c.allow_undefined && !member && seen_sigs.insert("o1".into()) {
                    out.push(Violation { sig: "C09|omission-rejected-although-option-on".into(), detail: format!("{cname}: allowUndefinedAsOptionalInput is on but `{}` rejects {{{}}} — variables {}", clip(&ts::canon(&ev, &nf), 500), kinds(&a), vars_show(o)), replay: replay.clone() });
                }
                if !c.allow_undefined && member && seen_sigs.insert("o2".into()) {
                    out.push(Violation { sig: "C09|omission-admitted-although-option-off".into(), detail: format!("{cname}: allowUndefinedAsOptionalInput is off but `{}` admits {{{}}} — variables {}", clip(&ts::canon(&ev, &nf), 500), kinds(&a), vars_show(o)), replay: replay.clone() });
                }
            }
        }
    }
    if ev.out_of_fuel() {
        return None;
    }
    for e in ev.errors.borrow().iter() {
        out.push(Violation { sig: format!("C09|evaluation-problem|{}", e.split(' ').take(4).collect::<Vec<_>>().join("-")), detail: e.clone(), replay: replay.clone() });
    }
    out.sort_by(|a, b| a.sig.cmp(&b.sig));
    out.dedup_by(|a, b| a.sig == b.sig);
    Some(out)
}

fn vars_show(o: &OpDef) -> String {
    o.vars.iter().map(|v| format!("${}: {}{}", v.name.s, v.ty.show(), if v.default.is_some() { " = <default>" } else { "" })).collect::<Vec<_>>().join(", ")
}

/// which variable deviates from the explicit base and how (type shape class of the variable + the deviating value's kind)
fn classify_var_problem(per: &[(&VarDef, Vec<Cand>)], a: &[Cand]) -> String {
    for ((v, cs), c) in per.iter().zip(a.iter()) {
        let base = cs.iter().find(|x| x.explicit);
        let same = match (base, &c.v) {
            (Some(b), Some(x)) => b.v.as_ref() == Some(x),
            _ => false,
        };
        if !same {
            let shape = format!("{}{}{}", if v.ty.list_depth() > 0 { "list-of-" } else { "" }, "named", if v.ty.is_non_null() { "-non-null" } else { "-nullable" });
            let vk = match &c.v {
                None => "absent",
                Some(V::Null) => "null",
                Some(V::List(_)) => "list",
                Some(V::Obj(_)) => "object",
                Some(V::Str(_)) | Some(V::OtherStr) => "string",
                Some(V::Num) => "number",
                Some(V::Bool) => "boolean",
                Some(V::Opaque(_)) => "opaque",
            };
            return format!("{shape}|value={vk}|default={}", v.default.is_some());
        }
    }
    "base-assignment".into()
}

pub fn run_c09(ctx: &Ctx, rep: &mut Report) {
    let st = ts::selftest();
    if !st.is_empty() {
        rep.inconclusive(format!("TypeScript evaluator self-test failed: {}", st.join("; ")));
        return;
    }
    crate::gen_syntax::set_allow_block(false);
    let _ = CLI_ROUTE.set((ctx.cli.clone(), ctx.out.clone()));
    let n = ctx.budget(24_000, 300_000);
    let mut stats = (0u64, 0u64);
    for case in 0..n {
        let mut rng = ctx.rng("case", case);
        let Some(c) = gen_case(&mut rng, true) else {
            rep.count("generator_gave_up");
            continue;
        };
        rep.trace_case(|| case_json("C09", &c));
        rep.eval();
        match check_variables(&c, &mut stats) {
            None => rep.count("skipped"),
            Some(vs) => {
                rep.count(&format!("documents_compared|allowUndefinedAsOptionalInput={}", c.allow_undefined));
                if c.op.contains('$') {
                    rep.nontrivial(&format!("{}\u{1}{}\u{1}{}", c.schema, c.op, c.allow_undefined));
                }
                rep.violations(vs);
            }
        }
        if case == 0 {
            rep.sample(json!({"operation": clip(&c.op, 700), "scalars": c.scalars, "allowUndefinedAsOptionalInput": c.allow_undefined}));
        }
    }
    rep.add("operations_compared", stats.0);
    rep.add("assignments_evaluated", stats.1);
}

pub fn replay(case: &Value, ctx: &Ctx) -> Vec<Violation> {
    let _ = CLI_ROUTE.set((ctx.cli.clone(), ctx.out.clone()));
    let c = case_from_json(case);
    let mut rng = Rng::new(1);
    match case["property"].as_str() {
        Some("C09") => check_variables(&c, &mut (0, 0)).unwrap_or_default(),
        Some(p @ ("C01" | "C02")) => {
            let mut st = TypeStats { responses: 0, inhabitants: 0, features: BTreeSet::new(), targets: 0 };
            check_results(p, &c, &mut rng, &mut st).unwrap_or_default()
        }
        _ => vec![],
    }
}
