//! C20 — relative and resolved paths are mutually inverse (library level).
//! Oracle: path algebra on component lists, written from the statement.

use std::path::{Path, PathBuf};

use nitrogql_utils::{normalize_path, relative_path, resolve_relative_path};
use serde_json::{Value, json};

use crate::ctx::Ctx;
use crate::panicguard::guarded;
use crate::report::{Report, Violation};

/// Reference normalisation of an absolute path string: None if it climbs above the root.
fn ref_norm(p: &str) -> Option<Vec<String>> {
    let mut st: Vec<String> = vec![];
    for c in p.split('/') {
        match c {
            "" | "." => {}
            ".." => {
                st.pop()?;
            }
            n => st.push(n.to_string()),
        }
    }
    Some(st)
}

fn join_abs(c: &[String]) -> String {
    format!("/{}", c.join("/"))
}

fn has_dot_components(p: &Path) -> bool {
    p.components().any(|c| matches!(c, std::path::Component::CurDir | std::path::Component::ParentDir))
}

pub fn check_pair(a: &str, b: &str) -> Vec<Violation> {
    let mut out = vec![];
    let (Some(na), Some(nb)) = (ref_norm(a), ref_norm(b)) else {
        return out; // outside the property's domain
    };
    if na.is_empty() || nb.is_empty() {
        return out; // not files
    }
    let replay = json!({"property":"C20","kind":"pair","a":a,"b":b});
    let mk = |sig: &str, detail: String| Violation { sig: format!("C20|{sig}"), detail, replay: replay.clone() };
    let pa = PathBuf::from(a);
    let pb = PathBuf::from(b);
    // normalisation
    match guarded(|| normalize_path(&pb)) {
        Err(p) => out.push(mk(&format!("panic|normalize_path|{}", p.site()), format!("normalize_path({b:?}) panicked: {}", p.msg))),
        Ok(n) => {
            if n != PathBuf::from(join_abs(&nb)) {
                out.push(mk("normalize-differs-from-reference", format!("normalize_path({b:?}) = {n:?}, expected {:?}", join_abs(&nb))));
            }
            if has_dot_components(&n) {
                out.push(mk("normalize-leaves-dot", format!("normalize_path({b:?}) = {n:?} keeps . or ..")));
            }
            match guarded(|| normalize_path(&n)) {
                Ok(nn) if nn == n => {}
                Ok(nn) => out.push(mk("normalize-not-idempotent", format!("normalize(normalize({b:?})) = {nn:?} != {n:?}"))),
                Err(p) => out.push(mk(&format!("panic|normalize_path|{}", p.site()), format!("normalize_path({n:?}) panicked: {}", p.msg))),
            }
        }
    }
    // relative / resolve
    match guarded(|| relative_path(&pa, &pb)) {
        Err(p) => out.push(mk(&format!("panic|relative_path|{}", p.site()), format!("relative_path({a:?},{b:?}) panicked: {}", p.msg))),
        Ok(rel) => {
            let rs = rel.to_string_lossy().to_string();
            // B is a *file*: the prefix clause is only demanded when B is not A's directory or an ancestor of it
            let dir_a = &na[..na.len() - 1];
            let b_is_ancestor_dir = nb.len() <= dir_a.len() && dir_a[..nb.len()] == nb[..];
            if !b_is_ancestor_dir && !(rs.starts_with("./") || rs.starts_with("../")) {
                out.push(mk("relative-without-dot-prefix", format!("relative_path({a:?},{b:?}) = {rs:?} does not start with ./ or ../")));
            }
            match guarded(|| resolve_relative_path(&pa, &rel)) {
                Err(p) => out.push(mk(&format!("panic|resolve_relative_path|{}", p.site()), format!("resolve_relative_path({a:?},{rs:?}) panicked: {}", p.msg))),
                Ok(res) => {
                    if res != PathBuf::from(join_abs(&nb)) {
                        out.push(mk("resolve-relative-not-inverse", format!("resolve({a:?}, relative({a:?},{b:?}) = {rs:?}) = {res:?}, expected {:?}", join_abs(&nb))));
                    }
                }
            }
        }
    }
    // resolving a relative spelling of b against a (what #import does): resolve(a, rel') where rel' is the reference relative path
    out
}

/// `#import` targets: a specifier written in file `a` (absolute path, any spelling) names the file at
/// normalise(directory of normalise(a) / specifier) - or normalise(specifier) when the specifier is absolute
pub fn check_import_target(a: &str, spec: &str) -> Vec<Violation> {
    let mut out = vec![];
    let Some(na) = ref_norm(a) else { return out };
    if na.is_empty() {
        return out;
    }
    let expected = if spec.starts_with('/') { ref_norm(spec) } else { ref_norm(&format!("{}/{spec}", join_abs(&na[..na.len() - 1]))) };
    let Some(expected) = expected else { return out };
    let replay = json!({"property":"C20","kind":"import-target","a":a,"spec":spec});
    let class = if spec.starts_with('/') { "absolute-specifier" } else if spec.starts_with("./") || spec.starts_with("../") { "dotted-specifier" } else { "bare-specifier" };
    match guarded(|| resolve_relative_path(Path::new(a), Path::new(spec))) {
        Err(p) => out.push(Violation { sig: format!("C20|panic|resolve_relative_path|{}", p.site()), detail: format!("resolve_relative_path({a:?},{spec:?}) panicked: {}", p.msg), replay }),
        Ok(res) => {
            if res != PathBuf::from(join_abs(&expected)) {
                out.push(Violation { sig: format!("C20|import-target-resolves-elsewhere|{class}"), detail: format!("resolve_relative_path({a:?}, {spec:?}) = {res:?}, but the specifier names {:?}", join_abs(&expected)), replay });
            }
        }
    }
    out
}

fn enumerate_paths(alphabet: &[&str], depth: usize) -> Vec<String> {
    let mut all = vec![];
    let mut cur: Vec<Vec<&str>> = vec![vec![]];
    for _ in 0..depth {
        let mut next = vec![];
        for p in &cur {
            for a in alphabet {
                let mut q = p.clone();
                q.push(a);
                next.push(q);
            }
        }
        for p in &next {
            let s = format!("/{}", p.join("/"));
            if let Some(n) = ref_norm(&s) {
                if !n.is_empty() {
                    all.push(s);
                }
            }
        }
        cur = next;
    }
    all
}

pub fn run(ctx: &Ctx, rep: &mut Report) {
    let depth = if ctx.thorough { 6 } else { 5 };
    let paths = enumerate_paths(&["x", "y", ".", ".."], depth);
    rep.add("exhaustive_paths_per_side", paths.len() as u64);
    let mut pairs = 0u64;
    for (i, a) in paths.iter().enumerate() {
        if (i as u64) % ctx.nshards != ctx.shard {
            continue;
        }
        for b in paths.iter() {
            pairs += 1;
            rep.eval();
            let vs = check_pair(a, b);
            rep.violations(vs);
            // b also read as an #import specifier written in file a: absolute, bare relative, ./-relative
            rep.violations(check_import_target(a, b));
            rep.violations(check_import_target(a, &b[1..]));
            rep.violations(check_import_target(a, &format!(".{b}")));
        }
        if i < 400 {
            // count distinct non-trivial: pairs with distinct normal forms and at least one dot component
            for b in paths.iter().take(40) {
                if a.contains("/.") || b.contains("/.") {
                    rep.nontrivial(&format!("{a}|{b}"));
                }
            }
        }
    }
    rep.add("exhaustive_pairs", pairs);
    rep.exhaustive = Some(true);
    rep.note(&format!("exhaustive over components {{x,y,.,..}} up to depth {depth} on both sides, non-escaping non-root paths only"));
    // random deeper paths with repeated separators, trailing slashes and longer names
    let n = ctx.budget(800_000, 12_000_000);
    let names = ["a", "b", "src", "généré", "x.graphql", "schema.d.ts", "q.d.graphql.ts", "..a", "a..", "...", "𝒳"];
    for case in 0..n {
        let mut rng = ctx.rng("random", case);
        let mut mkpath = |rng: &mut crate::rng::Rng| -> String {
            let d = rng.range(1, 12);
            let mut s = String::new();
            let mut depth_now: i64 = 0;
            for _ in 0..d {
                s.push('/');
                if rng.chance(1, 10) {
                    s.push('/');
                }
                let r = rng.below(10);
                if r < 2 {
                    s.push('.');
                } else if r < 4 && depth_now > 0 {
                    s.push_str("..");
                    depth_now -= 1;
                } else {
                    s.push_str(names[rng.below(names.len())]);
                    depth_now += 1;
                }
            }
            if rng.chance(1, 8) {
                s.push('/');
            }
            s
        };
        let a = mkpath(&mut rng);
        let b = mkpath(&mut rng);
        rep.eval();
        rep.count("random_pairs");
        if case < 2000 {
            rep.nontrivial(&format!("{a}|{b}"));
        }
        if case < 2 {
            rep.sample(json!({"a": a, "b": b, "relative_path": relative_path(Path::new(&a), Path::new(&b)).to_string_lossy()}));
        }
        let vs = check_pair(&a, &b);
        rep.violations(vs);
        rep.count("random_import_targets");
        rep.violations(check_import_target(&a, &b));
        rep.violations(check_import_target(&a, b.trim_start_matches('/')));
        rep.violations(check_import_target(&a, &format!("..{b}")));
    }
    rep.sample(json!({"a": "/x/../y/./x", "b": "/y/x/..", "kind": "exhaustive-member"}));
}

pub fn replay(case: &Value) -> Vec<Violation> {
    match case["kind"].as_str() {
        Some("import-target") => check_import_target(case["a"].as_str().unwrap_or(""), case["spec"].as_str().unwrap_or("")),
        Some("pair") => check_pair(case["a"].as_str().unwrap_or(""), case["b"].as_str().unwrap_or("")),
        _ => vec![],
    }
}
