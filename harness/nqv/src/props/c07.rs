//! C07 — parsing yields exactly the document the text denotes, with true positions.
//! Oracle: reference parser (refparse.rs) over the same text; generator model as a
//! cross-check of the harness itself.

use serde_json::{Value, json};

use crate::ctx::Ctx;
use crate::gen_syntax::{ExecOpts, gen_exec_doc, gen_ts_doc};
use crate::model::*;
use crate::real::{self, Fail};
use crate::refparse;
use crate::render::{Feat, render_exec, render_ts};
use crate::report::{Report, Violation, clip};

pub enum Outcome {
    /// the reference parser rejects the text: not a case of this property
    NotInLanguage(String),
    Checked(Vec<Violation>),
}

fn text_features(text: &str) -> Vec<&'static str> {
    let mut f = vec![];
    let last_line = text.rsplit('\n').next().unwrap_or("");
    // a comment on the last line without a newline
    let mut in_str = false;
    let mut is_comment_tail = false;
    for c in last_line.chars() {
        if c == '"' {
            in_str = !in_str;
        }
        if c == '#' && !in_str {
            is_comment_tail = true;
        }
    }
    if is_comment_tail && !text.ends_with('\n') {
        f.push("eof-comment");
    }
    f
}

pub fn check_text(grammar: &str, text: &str) -> Outcome {
    let replay = json!({"property":"C07","kind":"parse","grammar":grammar,"text":text});
    let mk = |sig: String, detail: String| Violation { sig, detail, replay: replay.clone() };
    let feats = text_features(text);
    let (want, got): (Node, Result<Node, Fail>) = if grammar == "op" {
        let w = match refparse::parse_exec(text) {
            Ok(w) => w,
            Err(e) => return Outcome::NotInLanguage(format!("{}:{}: {}", e.line, e.col, e.msg)),
        };
        (execdoc_node(&w), real::parse_exec(text).map(|d| execdoc_node(&d)))
    } else {
        let w = match refparse::parse_ts(text) {
            Ok(w) => w,
            Err(e) => return Outcome::NotInLanguage(format!("{}:{}: {}", e.line, e.col, e.msg)),
        };
        (tsdoc_node(&w), real::parse_ts(text).map(|d| tsdoc_node(&d)))
    };
    let mut out = vec![];
    match got {
        Err(f) => {
            let feat = if feats.contains(&"eof-comment") { "eof-comment" } else { "" };
            let fsig = match &f {
                Fail::Panic(_) => f.class(),
                Fail::Err(m, _) => {
                    // classify by what pest expected, names stripped
                    if feat == "eof-comment" { "rejects".to_string() } else { format!("rejects|{}", clip(&real::strip_names(m), 140)) }
                }
            };
            let gsig = if feat == "eof-comment" || matches!(f, Fail::Panic(_)) { "*" } else { grammar };
            out.push(mk(format!("C07|{gsig}|{fsig}|{feat}"), format!("text in the language is not parsed: {} — text {:?}", f.show(), clip(text, 300))));
        }
        Ok(got) => {
            for d in diff_nodes(&want, &got, true) {
                let sig = if d.tag == "block-raw-returned" { "C07|block-string-returned-raw".to_string() } else { format!("C07|{grammar}|{}|{}|{}", d.what, d.site(), d.tag) };
                out.push(mk(sig, format!("{} — text {:?}", d.detail, clip(text, 300))));
            }
        }
    }
    Outcome::Checked(out)
}

pub fn run(ctx: &Ctx, rep: &mut Report) {
    let n = ctx.budget(80_000, 1_200_000);
    let mut inconsistent = 0u64;
    for case in 0..n {
        let mut rng = ctx.rng("doc", case);
        let is_op = rng.coin();
        let hostile = rng.chance(2, 3);
        // features owned by this property, at moderate rates so that their known defects do not starve the rest
        let shorthand = rng.chance(1, 10);
        let eof_comment = rng.chance(1, 20);
        let surrogates = rng.chance(1, 10);
        let (model_node, texts): (Node, Vec<String>) = if is_op {
            let doc = gen_exec_doc(&mut rng, &ExecOpts { imports: true, shorthand, hostile });
            let mut texts = vec![];
            for k in 0..3 {
                let mut feat = if k == 0 { Feat::plain() } else { Feat::hostile() };
                feat.eof_comment = eof_comment && k == 2;
                feat.surrogate_escapes = surrogates;
                feat.escapes = k > 0;
                texts.push(render_exec(&doc, Some(&mut rng), feat));
            }
            (execdoc_node(&doc), texts)
        } else {
            let doc = gen_ts_doc(&mut rng, hostile);
            let mut texts = vec![];
            for k in 0..3 {
                let mut feat = if k == 0 { Feat::plain() } else { Feat::hostile() };
                feat.eof_comment = eof_comment && k == 2;
                feat.surrogate_escapes = surrogates;
                feat.escapes = k > 0;
                texts.push(render_ts(&doc, Some(&mut rng), feat));
            }
            (tsdoc_node(&doc), texts)
        };
        let grammar = if is_op { "op" } else { "ts" };
        let canon_text = canon(&model_node);
        let kinds = count_kinds(&model_node);
        if kinds >= 3 && canon_text.contains("StringValue") || canon_text.contains("Description") {
            rep.nontrivial(&canon_text);
        }
        for (k, text) in texts.iter().enumerate() {
            rep.eval();
            rep.count(&format!("renderings_{grammar}"));
            // harness self-check: the reference parser must read back the generated model
            let back = if is_op { refparse::parse_exec(text).map(|d| execdoc_node(&d)) } else { refparse::parse_ts(text).map(|d| tsdoc_node(&d)) };
            match back {
                Ok(b) if diff_nodes(&model_node, &b, false).is_empty() => {}
                Ok(b) => {
                    inconsistent += 1;
                    let d = diff_nodes(&model_node, &b, false);
                    rep.inconclusive(format!("harness self-check: reference parser disagrees with generator model: {} — text {:?}", d[0].detail, clip(text, 300)));
                    continue;
                }
                Err(e) => {
                    inconsistent += 1;
                    rep.inconclusive(format!("harness self-check: reference parser rejects rendered model ({}:{} {}) — text {:?}", e.line, e.col, e.msg, clip(text, 300)));
                    continue;
                }
            }
            if case == 0 && k == 1 {
                rep.sample(json!({"grammar": grammar, "text": clip(text, 600)}));
            }
            match check_text(grammar, text) {
                Outcome::NotInLanguage(_) => {}
                Outcome::Checked(vs) => rep.violations(vs),
            }
        }
    }
    rep.add("harness_inconsistencies", inconsistent);
    rep.note("positions are compared for every node that carries one in nitrogql's AST; a column may be counted in Unicode scalars or UTF-16 units");
}

fn count_kinds(n: &Node) -> usize {
    fn go(n: &Node, s: &mut std::collections::BTreeSet<&'static str>) {
        s.insert(n.kind);
        for k in &n.kids {
            go(k, s);
        }
    }
    let mut s = std::collections::BTreeSet::new();
    go(n, &mut s);
    s.len()
}

pub fn replay(case: &Value) -> Vec<Violation> {
    match check_text(case["grammar"].as_str().unwrap_or("op"), case["text"].as_str().unwrap_or("")) {
        Outcome::Checked(v) => v,
        Outcome::NotInLanguage(_) => vec![],
    }
}
