pub mod c06;
pub mod c20;
pub mod c07;
pub mod c11;
pub mod c13;
pub mod c19;
pub mod c08;
pub mod c16;
