//! C14 — value exports declared by the generated declaration file are exported, under the same name and for the same
//! operation / fragment, by the module the loader produces from the same file with the same configuration text.
//!
//! Observation points: the declaration file and its source map as written by the real CLI; the JavaScript returned
//! by `emit_js` of the real loader ABI (fresh loader instance per file, real required-files protocol).

use std::collections::BTreeMap;
use std::time::Duration;

use serde_json::{Value, json};

use crate::cli;
use crate::ctx::Ctx;
use crate::genproj::{ProjOpts, gen_project};
use crate::gqljson::{module_consts, module_named_exports};
use crate::model::*;
use crate::props::maps::ProjView;
use crate::refparse;
use crate::report::{Report, Violation, clip};
use crate::srcmap::{decode_mappings, utf16_len};

#[derive(Debug, Clone)]
pub struct Declared {
    pub exported_as: String,
    pub local: String,
}

/// value declarations (`const X`) with their position, and the value exports of a declaration file
pub fn declared_value_exports(text: &str) -> (BTreeMap<String, (usize, usize)>, Vec<Declared>) {
    let mut locals = BTreeMap::new();
    let mut exports = vec![];
    for (ln, line) in text.split('\n').enumerate() {
        let mut l = line;
        let mut col = 0usize;
        let mut exported = false;
        if let Some(r) = l.strip_prefix("export ") {
            exported = true;
            l = r;
            col += 7;
        }
        if let Some(r) = l.strip_prefix("declare ") {
            l = r;
            col += 8;
        }
        if let Some(r) = l.strip_prefix("const ") {
            col += 6;
            let ident: String = r.chars().take_while(|c| c.is_alphanumeric() || *c == '_' || *c == '$').collect();
            if !ident.is_empty() {
                locals.entry(ident.clone()).or_insert((ln, utf16_len(&line[..col])));
                if exported {
                    exports.push(Declared { exported_as: ident.clone(), local: ident });
                }
            }
            continue;
        }
        if exported {
            if let Some(body) = l.trim().strip_prefix('{') {
                if let Some(body) = body.split('}').next() {
                    for part in body.split(',') {
                        let p = part.trim();
                        if p.is_empty() || p.starts_with("type ") {
                            continue;
                        }
                        if p.starts_with("as ") {
                            continue; // anonymous operation with an empty suffix: there is no identifier to export (not a case of C14)
                        }
                        let mut it = p.split(" as ");
                        let local = it.next().unwrap_or("").trim().to_string();
                        let exp = it.next().map(|s| s.trim().to_string()).unwrap_or_else(|| local.clone());
                        exports.push(Declared { exported_as: exp, local });
                    }
                }
            } else if let Some(r) = l.strip_prefix("default ") {
                let ident: String = r.chars().take_while(|c| c.is_alphanumeric() || *c == '_' || *c == '$').collect();
                if !ident.is_empty() {
                    exports.push(Declared { exported_as: "default".into(), local: ident });
                }
            }
        }
    }
    (locals, exports)
}

/// (kind, name) of the definition of `doc` whose header (keyword .. name) contains the 0-based position
fn definition_at(doc: &ExecDoc, line: i64, col: i64) -> Option<(String, String)> {
    let mut best: Option<((u32, u32), (String, String))> = None;
    for d in &doc.defs {
        let (p, id) = match d {
            ExecDef::Op(o) => (o.p, (o.kind.as_str().to_string(), o.name.as_ref().map(|n| n.s.clone()).unwrap_or_default())),
            ExecDef::Frag(f) => (f.p, ("fragment".to_string(), f.name.s.clone())),
            _ => continue,
        };
        let at = (p.line, p.col16);
        if (at.0 as i64, at.1 as i64) <= (line, col) && best.as_ref().is_none_or(|b| b.0 < at) {
            best = Some((at, id));
        }
    }
    best.map(|b| b.1)
}

fn js_definition(json: &Value) -> Option<(String, String)> {
    let d = json["definitions"].as_array()?.first()?;
    let name = d["name"]["value"].as_str().unwrap_or("").to_string();
    match d["kind"].as_str()? {
        "OperationDefinition" => Some((d["operation"].as_str()?.to_string(), name)),
        "FragmentDefinition" => Some(("fragment".into(), name)),
        _ => None,
    }
}

/// the loader module of `path`, produced through the real ABI protocol in a fresh loader instance
pub fn loader_module(config_text: &str, path: &str, files: &BTreeMap<String, String>) -> Result<String, String> {
    let config_text = config_text.to_string();
    let path = path.to_string();
    let files = files.clone();
    let h = std::thread::spawn(move || -> Result<String, String> {
        use crate::props::c19::abi;
        abi::init();
        if !abi::config(&config_text) {
            return Err("load_config refused the configuration".into());
        }
        let src = files.get(&path).ok_or("no such file")?;
        let id = abi::initiate(&path, src);
        if id == 0 {
            return Err(format!("initiate_task failed: {}", abi::read_result()));
        }
        for _ in 0..64 {
            if !loader_shim::get_required_files(id) {
                let e = abi::read_result();
                loader_shim::free_task(id);
                return Err(format!("get_required_files failed: {e}"));
            }
            let req = abi::read_result();
            let req: Vec<&str> = req.split('\n').filter(|s| !s.is_empty()).collect();
            if req.is_empty() {
                break;
            }
            for r in req {
                let Some(t) = files.get(&crate::refimport::resolve_path("/", r)) else {
                    loader_shim::free_task(id);
                    return Err(format!("loader requires {r:?}, which is not a file of the project"));
                };
                abi::load(id, r, t);
            }
        }
        let ok = loader_shim::emit_js(id);
        let r = abi::read_result();
        loader_shim::free_task(id);
        if ok { Ok(r) } else { Err(format!("emit_js failed: {r}")) }
    });
    h.join().unwrap_or_else(|_| Err("loader thread panicked".into()))
}


/// The loader modules of several files produced by ONE loader instance, the way a bundler drives it: a first
/// configuration and a first emit precede the configuration under test (a process that serves two projects), and the
/// tasks of the files overlap (all initiated first, then completed one by one, a late file initiated while earlier ones
/// are still in flight). Each module must still be the one of its own file under the configuration loaded last.
pub fn loader_session(first_config: &str, config_text: &str, paths: &[String], files: &BTreeMap<String, String>) -> Vec<Result<String, String>> {
    let (first_config, config_text, paths, files) = (first_config.to_string(), config_text.to_string(), paths.to_vec(), files.clone());
    let n = paths.len();
    let h = std::thread::spawn(move || -> Vec<Result<String, String>> {
        use crate::props::c19::abi;
        abi::init();
        let complete = |id: usize| -> Result<String, String> {
            for _ in 0..64 {
                if !loader_shim::get_required_files(id) {
                    let e = abi::read_result();
                    loader_shim::free_task(id);
                    return Err(format!("get_required_files failed: {e}"));
                }
                let req = abi::read_result();
                let req: Vec<&str> = req.split('\n').filter(|s| !s.is_empty()).collect();
                if req.is_empty() {
                    break;
                }
                for r in req {
                    let Some(t) = files.get(&crate::refimport::resolve_path("/", r)) else {
                        loader_shim::free_task(id);
                        return Err(format!("loader requires {r:?}, which is not a file of the project"));
                    };
                    abi::load(id, r, t);
                }
            }
            let ok = loader_shim::emit_js(id);
            let r = abi::read_result();
            loader_shim::free_task(id);
            if ok { Ok(r) } else { Err(format!("emit_js failed: {r}")) }
        };
        // an earlier project in the same process
        if abi::config(&first_config) {
            if let Some(p0) = paths.first() {
                let id = abi::initiate(p0, &files[p0]);
                if id != 0 {
                    let _ = complete(id);
                } else {
                    let _ = abi::read_result();
                }
            }
        }
        if !abi::config(&config_text) {
            return (0..paths.len()).map(|_| Err("load_config refused the configuration".to_string())).collect();
        }
        // overlapping tasks: initiate all but the last, complete the first, initiate the last, complete the rest
        let mut ids: Vec<Option<usize>> = vec![None; paths.len()];
        let mut out: Vec<Result<String, String>> = (0..paths.len()).map(|_| Err("not run".to_string())).collect();
        let start = |i: usize, ids: &mut Vec<Option<usize>>, out: &mut Vec<Result<String, String>>| {
            let id = abi::initiate(&paths[i], &files[&paths[i]]);
            if id == 0 {
                out[i] = Err(format!("initiate_task failed: {}", abi::read_result()));
            } else {
                ids[i] = Some(id);
            }
        };
        let last = paths.len().saturating_sub(1);
        for i in 0..last {
            start(i, &mut ids, &mut out);
        }
        if let Some(id) = ids.first().copied().flatten() {
            out[0] = complete(id);
        }
        if last > 0 || paths.len() == 1 {
            start(last, &mut ids, &mut out);
        }
        for i in 1..paths.len() {
            if let Some(id) = ids[i] {
                out[i] = complete(id);
            }
        }
        if paths.len() == 1 {
            if let Some(id) = ids[0] {
                out[0] = complete(id);
            }
        }
        out
    });
    h.join().unwrap_or_else(|_| (0..n).map(|_| Err("loader thread panicked".to_string())).collect())
}

pub struct CaseStats {
    pub files: u64,
    pub declared: u64,
    pub defaults: u64,
    pub associated: u64,
}

pub fn check_case(ctx: &Ctx, n: u64, pv: &ProjView, config_text: &str, shared: bool, earlier_config: Option<&str>) -> Option<(Vec<Violation>, CaseStats)> {
    let replay = json!({"property":"C14","kind":"project","config":config_text,"shared":shared,"earlier_config":earlier_config,"view":crate::props::maps::view_json(pv)});
    let mut out: Vec<(String, String)> = vec![];
    let mut st = CaseStats { files: 0, declared: 0, defaults: 0, associated: 0 };
    let dir = cli::scratch_dir(&ctx.out, "c14", n);
    if cli::write_project(&dir, &pv.files).is_err() {
        cli::cleanup(&dir);
        return None;
    }
    let cwd = dir.join(&pv.root);
    // a working copy with a history: `generate` already ran here under other naming / export options; then only the
    // configuration file changed (the sources keep their time stamps). The declarations must be those of the
    // configuration in force, like the loader's modules.
    if let Some(earlier) = earlier_config {
        if let Some((cfg_path, _)) = pv.files.iter().find(|(p, _)| p.contains("graphql.config")) {
            let _ = std::fs::write(dir.join(cfg_path), earlier);
            let _ = cli::run_cli(&ctx.cli, &cwd, &["generate", "--output-format", "json"], Duration::from_secs(120));
            let _ = std::fs::write(dir.join(cfg_path), config_text);
        }
    }
    let r = cli::run_cli(&ctx.cli, &cwd, &["generate", "--output-format", "json"], Duration::from_secs(120));
    if r.status != Some(0) {
        cli::cleanup(&dir);
        return None;
    }
    let base = dir.to_string_lossy().to_string();
    let abs = |rel: &str| crate::refimport::resolve_path("/", &format!("{base}/{rel}"));
    let mut by_abs: BTreeMap<String, String> = BTreeMap::new();
    for (p, t) in &pv.files {
        by_abs.insert(abs(p), t.clone());
    }
    // every other case drives all files through one long-lived loader instance (an earlier project's configuration
    // first, overlapping tasks); the others use a fresh instance per file
    let session: Option<Vec<Result<String, String>>> = if shared {
        let paths: Vec<String> = pv.op_paths.iter().map(|p| abs(p)).collect();
        Some(loader_session("schema: ./schema.graphql\n", config_text, &paths, &by_abs))
    } else {
        None
    };
    let route = if session.is_some() { "shared-instance" } else { "fresh-instance" };
    for (op_i, op) in pv.op_paths.iter().enumerate() {
        let stem = op.strip_suffix(".graphql").unwrap_or(op);
        let decl_path = abs(&format!("{stem}.{}", pv.decl_ext));
        let Ok(decl) = std::fs::read_to_string(&decl_path) else {
            out.push(("C14|declaration-file-missing".into(), format!("{decl_path} was not written")));
            continue;
        };
        let src_text = &by_abs[&abs(op)];
        let Ok(src_doc) = refparse::parse_exec(src_text) else { continue };
        st.files += 1;
        let (locals, exports) = declared_value_exports(&decl);
        let js_res = match &session {
            Some(rs) => rs[op_i].clone(),
            None => loader_module(config_text, &abs(op), &by_abs),
        };
        let js = match js_res {
            Ok(js) => js,
            Err(e) => {
                out.push((format!("C14|loader-could-not-emit|{route}"), format!("{op}: {e}")));
                continue;
            }
        };
        let consts = match module_consts(&js) {
            Ok(c) => c,
            Err(e) => {
                out.push(("C14|loader-module-unreadable".into(), format!("{op}: {e}")));
                continue;
            }
        };
        let mut js_exports: BTreeMap<String, String> = BTreeMap::new();
        for c in &consts {
            if c.exported {
                js_exports.insert(c.name.clone(), c.name.clone());
            }
        }
        for (local, exp) in module_named_exports(&js) {
            js_exports.insert(exp, local);
        }
        // the declaration file's map, to associate an identifier with its GraphQL definition
        let segs = std::fs::read_to_string(format!("{decl_path}.map")).ok().and_then(|m| serde_json::from_str::<Value>(&m).ok()).and_then(|m| {
            let own = m["sources"].as_array()?.iter().position(|s| {
                let md = decl_path.rsplit_once('/').map(|x| x.0).unwrap_or("");
                crate::refimport::resolve_path("/", &format!("{md}/{}", s.as_str().unwrap_or(""))) == abs(op)
            })?;
            Some((own as i64, decode_mappings(m["mappings"].as_str()?).ok()?))
        });
        for d in &exports {
            st.declared += 1;
            let class = if d.exported_as == "default" { "default" } else { "named" };
            if d.exported_as == "default" {
                st.defaults += 1;
            }
            let Some(js_local) = js_exports.get(&d.exported_as) else {
                out.push((format!("C14|declared-export-missing-at-runtime|{class}"), format!("{op}: the declaration file exports {:?} (local {:?}); the loader module exports {:?}", d.exported_as, d.local, js_exports.keys().collect::<Vec<_>>())));
                continue;
            };
            // same operation / fragment on both sides
            let decl_def = locals.get(&d.local).and_then(|(ln, col)| {
                let (own, dec) = segs.as_ref()?;
                let s = dec.segs.iter().find(|s| s.gen_line == *ln as i64 && s.gen_col == *col as i64 && s.src.is_some())?;
                let (si, ol, oc) = s.src?;
                if si != *own {
                    return Some(("other-file".to_string(), String::new()));
                }
                definition_at(&src_doc, ol, oc)
            });
            let js_def = consts.iter().find(|c| c.name == *js_local).and_then(|c| js_definition(&c.json));
            match (&decl_def, &js_def) {
                (Some(a), Some(b)) => {
                    st.associated += 1;
                    if a != b {
                        out.push((format!("C14|export-carries-another-definition|{class}"), format!("{op}: export {:?} is declared for {} {:?} but the loader module's value is the document of {} {:?}", d.exported_as, a.0, a.1, b.0, b.1)));
                    }
                }
                (_, None) => out.push((format!("C14|runtime-export-is-not-a-document|{class}"), format!("{op}: export {:?} (local {js_local:?}) of the loader module is not a document constant", d.exported_as))),
                (None, _) => {}
            }
        }
    }
    cli::cleanup(&dir);
    out.sort();
    out.dedup_by(|a, b| a.0 == b.0);
    Some((out.into_iter().map(|(sig, detail)| Violation { sig, detail: format!("{detail} — config {}", clip(config_text, 500)), replay: replay.clone() }).collect(), st))
}

pub fn run(ctx: &Ctx, rep: &mut Report) {
    crate::gen_syntax::set_allow_block(false);
    rep.note("feature mask: no block strings (C07 owns their defect); association of a declared identifier with its definition goes through the emitted source map (C06 owns its validity)");
    let n = ctx.budget(2_400, 48_000);
    let mut tot = CaseStats { files: 0, declared: 0, defaults: 0, associated: 0 };
    for case in 0..n {
        let mut rng = ctx.rng("c14", case);
        let Some(proj) = gen_project(&mut rng, &ProjOpts { dense_options: true, ..ProjOpts::standard() }) else { continue };
        let pv = ProjView::of(&proj);
        let cfg_text = proj.files.iter().find(|(p, _)| p.contains("graphql.config")).map(|(_, t)| t.clone()).unwrap_or_default();
        rep.trace_case(|| json!({"property":"C14","kind":"project","config":cfg_text,"view":crate::props::maps::view_json(&pv)}));
        rep.eval();
        // every third project has a history under other options
        let earlier: Option<String> = if case % 3 == 2 {
            let mut e = proj.config.clone();
            e.default_export = Some(!e.default_export.unwrap_or(true));
            e.capitalize = Some(!e.capitalize.unwrap_or(true));
            e.query_suffix = Some(if e.query_suffix.as_deref() == Some("Earlier") { "Doc".into() } else { "Earlier".into() });
            e.mutation_suffix = e.query_suffix.clone();
            e.subscription_suffix = e.query_suffix.clone();
            e.fragment_suffix = Some("EarlierFragment".into());
            rep.count("projects_generated_before_under_other_options");
            Some(e.render(&["./schema/**/*.graphql".to_string(), "./schema/*.graphqls".to_string()], &proj.doc_globs))
        } else {
            None
        };
        let Some((vs, st)) = check_case(ctx, case, &pv, &cfg_text, case % 2 == 1, earlier.as_deref()) else {
            rep.count("projects_where_generate_did_not_succeed");
            continue;
        };
        let c = &proj.config;
        let opt = |o: &Option<bool>| match o {
            None => "-",
            Some(true) => "t",
            Some(false) => "f",
        };
        let key = format!("mode={} default={} capitalize={} q={:?} m={:?} s={:?} f={:?}", c.mode, opt(&c.default_export), opt(&c.capitalize), c.query_suffix, c.mutation_suffix, c.subscription_suffix, c.fragment_suffix);
        if st.declared > 0 {
            rep.nontrivial(&format!("{key} {:?}", pv.files));
        }
        rep.count(&format!("mode={}", c.mode));
        rep.count(&format!("defaultExportForOperation={}", opt(&c.default_export)));
        rep.count(&format!("capitalizeOperationNames={}", opt(&c.capitalize)));
        rep.count(&format!("fragmentVariableSuffix={}", c.fragment_suffix.as_deref().unwrap_or("-")));
        rep.count(&format!("queryVariableSuffix={}", c.query_suffix.as_deref().unwrap_or("-")));
        tot.files += st.files;
        tot.declared += st.declared;
        tot.defaults += st.defaults;
        tot.associated += st.associated;
        if rep.samples.len() < 3 && st.declared > 1 {
            rep.sample(json!({"config": clip(&cfg_text, 400), "operation_files": pv.op_paths, "first": clip(&pv.files.iter().find(|(p,_)| pv.op_paths.contains(p)).map(|x| x.1.clone()).unwrap_or_default(), 300)}));
        }
        rep.violations(vs);
    }
    rep.add("operation_files_compared", tot.files);
    rep.add("declared_value_exports_checked", tot.declared);
    rep.add("default_exports_checked", tot.defaults);
    rep.add("exports_associated_with_a_definition_on_both_sides", tot.associated);
}

pub fn replay(case: &Value, ctx: &Ctx) -> Vec<Violation> {
    match ProjView::from_json(&case["view"]) {
        Some(pv) => check_case(ctx, 0, &pv, case["config"].as_str().unwrap_or(""), case["shared"].as_bool().unwrap_or(false), case["earlier_config"].as_str()).map(|x| x.0).unwrap_or_default(),
        None => vec![],
    }
}
