//! C17 — generation is deterministic and independent of incidental ordering.
//!
//! A. the same project is run K times through the real CLI, each time a fresh process (std's RandomState draws fresh
//!    hash keys per process); status, stdout, stderr and every byte of every file in the project tree must be equal.
//!    Projects include 0-4 injected faults so that diagnostics lists have several entries.
//! B. the library entry points called in-process (harness pipeline.rs, which mirrors crates/cli/src/generate.rs) must
//!    give the bytes the CLI wrote (projects with `schemaModuleSpecifier`, where the import specifier is not path-derived).
//! C. definitions are permuted inside and across schema files; the verdict and the denotation of every alias of every
//!    generated declaration file must be unchanged.

use std::collections::BTreeMap;
use std::time::Duration;

use serde_json::{Value, json};

use crate::cli;
use crate::ctx::Ctx;
use crate::genproj::{ProjOpts, Project, gen_project};
use crate::model::*;
use crate::pipeline::{ProjectInput, run_project};
use crate::props::c15::compare_modules;
use crate::props::c18::make_case;
use crate::render::{Feat, render_ts};
use crate::report::{Report, Violation, clip};

fn files_json(files: &[(String, String)]) -> Value {
    Value::Array(files.iter().map(|(a, b)| json!([a, b])).collect())
}
fn files_from(v: &Value) -> Vec<(String, String)> {
    v.as_array().map(|a| a.iter().map(|x| (x[0].as_str().unwrap_or("").to_string(), x[1].as_str().unwrap_or("").to_string())).collect()).unwrap_or_default()
}
fn strs(v: &Value) -> Vec<String> {
    v.as_array().map(|a| a.iter().filter_map(|x| x.as_str().map(|s| s.to_string())).collect()).unwrap_or_default()
}

fn file_class(p: &str) -> &'static str {
    if p.ends_with(".map") {
        "source-map"
    } else if p.ends_with(".d.ts") || p.ends_with(".ts") {
        "declaration"
    } else if p.ends_with(".js") {
        "server-schema"
    } else {
        "other"
    }
}

// ------------------------------------------------------------------ A: repeated runs

pub struct RerunStats {
    pub runs: u64,
    pub multi_diag: u64,
    pub files_compared: u64,
}

pub fn check_rerun(ctx: &Ctx, n: u64, files: &[(String, String)], root: &str, args: &[String], k: usize, st: &mut RerunStats) -> Vec<Violation> {
    let replay = json!({"property":"C17","kind":"rerun","files":files_json(files),"root":root,"args":args,"k":k});
    let mut out: Vec<(String, String)> = vec![];
    let dir = cli::scratch_dir(&ctx.out, "c17a", n);
    if cli::write_project(&dir, files).is_err() {
        cli::cleanup(&dir);
        return vec![];
    }
    let cwd = dir.join(root);
    let a: Vec<&str> = args.iter().map(|s| s.as_str()).collect();
    let mut first: Option<(Option<i32>, String, String, BTreeMap<String, u64>)> = None;
    for run in 0..k {
        let r = cli::run_cli(&ctx.cli, &cwd, &a, Duration::from_secs(120));
        if r.timed_out || r.signal.is_some() || r.panicked().is_some() {
            break; // C08's business; not a determinism observation
        }
        st.runs += 1;
        let snap = cli::snapshot(&dir);
        match &first {
            None => {
                if r.stdout.matches("\"message\"").count() >= 2 || r.stderr.matches("error").count() >= 2 {
                    st.multi_diag += 1;
                }
                st.files_compared += snap.len() as u64;
                first = Some((r.status, r.stdout, r.stderr, snap));
            }
            Some((s0, o0, e0, f0)) => {
                if *s0 != r.status {
                    out.push(("C17|rerun|exit-status-differs".into(), format!("run 0: {s0:?}, run {run}: {:?}", r.status)));
                }
                if *o0 != r.stdout {
                    out.push(("C17|rerun|stdout-differs".into(), format!("run 0: {} — run {run}: {}", clip(o0, 600), clip(&r.stdout, 600))));
                }
                if *e0 != r.stderr {
                    out.push(("C17|rerun|stderr-differs".into(), format!("run 0: {} — run {run}: {}", clip(e0, 600), clip(&r.stderr, 600))));
                }
                for (p, h) in &snap {
                    match f0.get(p) {
                        Some(h0) if h0 == h => {}
                        Some(_) => out.push((format!("C17|rerun|file-bytes-differ|{}", file_class(p)), format!("{p} differs between run 0 and run {run}"))),
                        None => out.push((format!("C17|rerun|file-set-differs|{}", file_class(p)), format!("{p} exists after run {run} only"))),
                    }
                }
            }
        }
    }
    // history: the same project reached through an edit. A working copy that still holds the outputs of an earlier
    // state of the sources (every GraphQL file two lines longer at the top: same declarations, other positions) must
    // end up with the very bytes a clean run produces.
    if let Some((Some(0), _, _, f0)) = &first {
        if args.iter().any(|a| a == "generate") && n % 3 == 0 {
            let dir2 = cli::scratch_dir(&ctx.out, "c17h", n);
            // the earlier revision also had one more type in its first schema file: every output was longer then
            let first_schema = files.iter().map(|(p, _)| p.clone()).find(|p| p.contains("/schema/") && (p.ends_with(".graphql") || p.ends_with(".graphqls")));
            let earlier: Vec<(String, String)> = files
                .iter()
                .map(|(p, t)| {
                    if p.ends_with(".graphql") || p.ends_with(".graphqls") {
                        let extra = if Some(p) == first_schema.as_ref() { "\n\"only in the earlier revision\"\ntype ZzzEarlierRevisionOnly {\n  aRatherLongFieldNameThatMakesEveryOutputLonger: Int\n}\n" } else { "" };
                        (p.clone(), format!("# an earlier revision\n\n{t}{extra}"))
                    } else {
                        (p.clone(), t.clone())
                    }
                })
                .collect();
            if cli::write_project(&dir2, &earlier).is_ok() {
                let cwd2 = dir2.join(root);
                let r1 = cli::run_cli(&ctx.cli, &cwd2, &a, Duration::from_secs(120));
                if r1.status == Some(0) && cli::write_project(&dir2, files).is_ok() {
                    let r2 = cli::run_cli(&ctx.cli, &cwd2, &a, Duration::from_secs(120));
                    if r2.status == Some(0) && r2.panicked().is_none() {
                        st.runs += 2;
                        let snap = cli::snapshot(&dir2);
                        for (p, h) in &snap {
                            match f0.get(p) {
                                Some(h0) if h0 == h => {}
                                Some(_) => out.push((format!("C17|rerun|stale-output-after-source-edit|{}", file_class(p)), format!("{p}: a working copy that was generated before the sources were edited ends up with other bytes than a clean run of the same project"))),
                                None => out.push((format!("C17|rerun|leftover-output-after-source-edit|{}", file_class(p)), format!("{p} exists only in the working copy that was generated before the edit"))),
                            }
                        }
                    }
                }
            }
            cli::cleanup(&dir2);
        }
    }
    cli::cleanup(&dir);
    out.sort();
    out.dedup_by(|a, b| a.0 == b.0);
    out.into_iter().map(|(sig, detail)| Violation { sig, detail, replay: replay.clone() }).collect()
}

// ------------------------------------------------------------------ B: library bytes = CLI bytes

pub struct LibCase {
    pub files: Vec<(String, String)>,
    pub root: String,
    pub schema_paths: Vec<String>,
    pub op_paths: Vec<String>,
    pub config_text: String,
    pub schema_output: Option<String>,
    pub resolvers_output: Option<String>,
    pub decl_ext: String,
}

fn lib_json(c: &LibCase) -> Value {
    json!({"property":"C17","kind":"lib","files":files_json(&c.files),"root":c.root,"schema_paths":c.schema_paths,"op_paths":c.op_paths,"config":c.config_text,
        "schema_output":c.schema_output,"resolvers_output":c.resolvers_output,"decl_ext":c.decl_ext})
}

fn cmp_bytes(kind: &str, path: String, lib_text: String, out: &mut Vec<(String, String)>, compared: &mut u64) {
    match std::fs::read_to_string(&path) {
        Ok(cli_text) => {
            *compared += 1;
            if cli_text != lib_text {
                let at = cli_text.bytes().zip(lib_text.bytes()).position(|(a, b)| a != b).unwrap_or(cli_text.len().min(lib_text.len()));
                let from = at.saturating_sub(60);
                let show = |s: &str| clip(&String::from_utf8_lossy(&s.as_bytes()[from.min(s.len())..]), 160);
                out.push((format!("C17|lib-vs-cli|bytes-differ|{kind}"), format!("{path}: first difference at byte {at}: CLI …{:?} — library …{:?}", show(&cli_text), show(&lib_text))));
            }
        }
        Err(_) => out.push((format!("C17|lib-vs-cli|cli-file-missing|{kind}"), path)),
    }
}

pub fn check_lib(ctx: &Ctx, n: u64, c: &LibCase, compared: &mut u64) -> Vec<Violation> {
    let replay = lib_json(c);
    let mut out: Vec<(String, String)> = vec![];
    let dir = cli::scratch_dir(&ctx.out, "c17b", n);
    if cli::write_project(&dir, &c.files).is_err() {
        cli::cleanup(&dir);
        return vec![];
    }
    let r = cli::run_cli(&ctx.cli, &dir.join(&c.root), &["generate", "--output-format", "json"], Duration::from_secs(120));
    if r.status != Some(0) {
        cli::cleanup(&dir);
        return vec![];
    }
    let base = dir.to_string_lossy().to_string();
    let abs = |rel: &str| crate::refimport::resolve_path("/", &format!("{base}/{rel}"));
    let text = |rel: &str| c.files.iter().find(|(p, _)| p == rel).map(|(_, t)| t.clone()).unwrap_or_default();
    // the CLI loads files in directory-walk order; the `sources` of the schema map show the order it used
    let mut schema_order: Vec<String> = c.schema_paths.clone();
    if let Some(so) = &c.schema_output {
        let mp = abs(&format!("{}/{so}.map", c.root));
        let md = mp.rsplit_once('/').map(|x| x.0.to_string()).unwrap_or_default();
        if let Some(srcs) = std::fs::read_to_string(&mp).ok().and_then(|m| serde_json::from_str::<Value>(&m).ok()).and_then(|v| v["sources"].as_array().cloned()) {
            let order: Vec<String> = srcs.iter().filter_map(|s| s.as_str()).map(|s| crate::refimport::resolve_path("/", &format!("{md}/{s}"))).collect();
            let pos = |p: &String| order.iter().position(|o| *o == abs(p)).unwrap_or(usize::MAX);
            schema_order.sort_by_key(pos);
        }
    }
    let sf: Vec<(String, String)> = schema_order.iter().map(|p| (abs(p), text(p))).collect();
    // the CLI loads operation files in the order its glob walk returns them; the order in which it lists the
    // declaration files it wrote shows that order (fallback: sorted)
    let mut ops = c.op_paths.clone();
    ops.sort();
    if let Some(listed) = r.stdout.lines().rev().find(|l| l.trim_start().starts_with('{')).and_then(|l| serde_json::from_str::<Value>(l).ok()).and_then(|v| v["generate"]["files"].as_array().cloned()) {
        let order: Vec<String> = listed.iter().filter(|f| f["fileType"].as_str() == Some("operationTypeDefinition")).filter_map(|f| f["path"].as_str()).map(|p| crate::refimport::resolve_path("/", p)).collect();
        let decl_of = |p: &String| abs(&format!("{}.{}", p.strip_suffix(".graphql").unwrap_or(p), c.decl_ext));
        if ops.iter().all(|p| order.contains(&decl_of(p))) {
            ops.sort_by_key(|p| order.iter().position(|o| *o == decl_of(p)).unwrap_or(usize::MAX));
        }
    }
    let of: Vec<(String, String)> = ops.iter().map(|p| (abs(p), text(p))).collect();
    let lib = run_project(&ProjectInput { schema_files: &sf, op_files: &of, config: &c.config_text, generate: false, check_only: false });
    let Some(o) = &lib.outputs else {
        cli::cleanup(&dir);
        if lib.panics.is_empty() {
            out.push(("C17|lib-vs-cli|library-route-rejects-what-the-cli-accepts".into(), format!("schema diagnostics {:?}, operation diagnostics {:?}", lib.schema_diags.iter().map(|d| &d.message).collect::<Vec<_>>(), lib.op_diags.iter().map(|d| &d.message).collect::<Vec<_>>())));
        }
        return out.into_iter().map(|(sig, detail)| Violation { sig, detail, replay: replay.clone() }).collect();
    };
    let with_trailer = |buffer: &str, path: &str| format!("{buffer}\n//# sourceMappingURL={}.map\n", path.rsplit('/').next().unwrap_or(path));
    if let Some(so) = &c.schema_output {
        let p = abs(&format!("{}/{so}", c.root));
        cmp_bytes("schema-types", p.clone(), with_trailer(&o.schema_dts, &p), &mut out, compared);
        // the mappings string of the schema map
        if let Ok(m) = std::fs::read_to_string(format!("{p}.map")) {
            if let Ok(v) = serde_json::from_str::<Value>(&m) {
                *compared += 1;
                if v["mappings"].as_str() != Some(o.schema_map.as_str()) {
                    out.push(("C17|lib-vs-cli|mappings-differ|schema-types".into(), format!("{p}.map")));
                }
                if v["names"].as_array().map(|a| a.iter().filter_map(|x| x.as_str()).map(|s| s.to_string()).collect::<Vec<_>>()) != Some(o.schema_names.clone()) {
                    out.push(("C17|lib-vs-cli|names-differ|schema-types".into(), format!("{p}.map")));
                }
            }
        }
    }
    if let Some(ro) = &c.resolvers_output {
        let p = abs(&format!("{}/{ro}", c.root));
        cmp_bytes("resolver-types", p.clone(), with_trailer(&o.resolvers_dts, &p), &mut out, compared);
    }
    for oo in &o.ops {
        let stem = oo.path.strip_suffix(".graphql").unwrap_or(&oo.path);
        let p = format!("{stem}.{}", c.decl_ext);
        cmp_bytes("operation-types", p.clone(), with_trailer(&oo.dts, &p), &mut out, compared);
        if let Ok(m) = std::fs::read_to_string(format!("{p}.map")) {
            if let Ok(v) = serde_json::from_str::<Value>(&m) {
                *compared += 1;
                if v["mappings"].as_str() != Some(oo.dts_map.as_str()) {
                    out.push(("C17|lib-vs-cli|mappings-differ|operation-types".into(), format!("{p}.map")));
                }
            }
        }
    }
    cli::cleanup(&dir);
    out.sort();
    out.dedup_by(|a, b| a.0 == b.0);
    out.into_iter().map(|(sig, detail)| Violation { sig, detail, replay: replay.clone() }).collect()
}

// ------------------------------------------------------------------ C: permutations

pub struct PermCase {
    pub original: Vec<(String, String)>,
    pub permuted: Vec<(String, String)>,
    pub root: String,
    pub schema_output: Option<String>,
    pub outputs: Vec<(String, String)>,
}

pub fn check_perm(ctx: &Ctx, n: u64, c: &PermCase, st: &mut (u64, u64, u64)) -> Vec<Violation> {
    let replay = json!({"property":"C17","kind":"perm","original":files_json(&c.original),"permuted":files_json(&c.permuted),"root":c.root,"schema_output":c.schema_output,
        "outputs":c.outputs.iter().map(|(a,b)| json!([a,b])).collect::<Vec<_>>()});
    let mut out: Vec<(String, String)> = vec![];
    let mut runs: Vec<(cli::CliRun, std::path::PathBuf)> = vec![];
    for (tag, files) in [("o", &c.original), ("p", &c.permuted)] {
        let dir = cli::scratch_dir(&ctx.out, &format!("c17c{tag}"), n);
        if cli::write_project(&dir, files).is_err() {
            cli::cleanup(&dir);
            for (_, d) in &runs {
                cli::cleanup(d);
            }
            return vec![];
        }
        let r = cli::run_cli(&ctx.cli, &dir.join(&c.root), &["check", "generate", "--output-format", "json"], Duration::from_secs(120));
        runs.push((r, dir));
    }
    let ok = |r: &cli::CliRun| !r.timed_out && r.signal.is_none() && r.panicked().is_none() && matches!(r.status, Some(0) | Some(1));
    if ok(&runs[0].0) && ok(&runs[1].0) {
        st.0 += 1;
        if runs[0].0.status != runs[1].0.status {
            out.push((format!("C17|permutation|verdict-differs|original={:?}|permuted={:?}", runs[0].0.status, runs[1].0.status), format!("original: {} — permuted: {}", clip(&runs[0].0.stdout, 500), clip(&runs[1].0.stdout, 500))));
        } else if runs[0].0.status == Some(0) {
            let read = |i: usize, rel: &str| std::fs::read_to_string(runs[i].1.join(rel)).ok();
            if let Some(so) = &c.schema_output {
                if let (Some(sa), Some(sb)) = (read(0, so), read(1, so)) {
                    let mut s2 = (0, 0);
                    compare_modules("C17|permutation", ("original", "permuted"), "schema-types", (&sa, None), (&sb, None), &mut out, &mut s2);
                    // and the other way round (an alias only in the permuted output is reported by the first call)
                    st.1 += s2.0;
                    st.2 += s2.1;
                    for (label, rel) in &c.outputs {
                        if let (Some(oa), Some(ob)) = (read(0, rel), read(1, rel)) {
                            let mut s2 = (0, 0);
                            compare_modules("C17|permutation", ("original", "permuted"), label, (&sa, Some(&oa)), (&sb, Some(&ob)), &mut out, &mut s2);
                            st.1 += s2.0;
                            st.2 += s2.1;
                        }
                    }
                }
            }
        }
    }
    for (_, d) in &runs {
        cli::cleanup(d);
    }
    out.sort();
    out.dedup_by(|a, b| a.0 == b.0);
    out.into_iter().map(|(sig, detail)| Violation { sig, detail, replay: replay.clone() }).collect()
}

/// the project with the arrays of its introspection JSON in another order
fn permuted_introspection(jp: &Project, rng: &mut crate::rng::Rng) -> Option<Vec<(String, String)>> {
    let sp = jp.schema_paths.first()?;
    let text = &jp.files.iter().find(|(p, _)| p == sp)?.1;
    let mut v: Value = serde_json::from_str(text).ok()?;
    {
        let schema = if v.get("data").is_some() { v.get_mut("data")?.get_mut("__schema")? } else { v.get_mut("__schema")? };
        for key in ["types", "directives"] {
            if let Some(a) = schema.get_mut(key).and_then(|x| x.as_array_mut()) {
                rng.shuffle(a);
                if key == "types" {
                    for t in a.iter_mut() {
                        for k2 in ["interfaces", "possibleTypes"] {
                            if let Some(b) = t.get_mut(k2).and_then(|x| x.as_array_mut()) {
                                rng.shuffle(b);
                            }
                        }
                    }
                }
            }
        }
    }
    let mut files = jp.files.clone();
    files.iter_mut().find(|(p, _)| p == sp)?.1 = serde_json::to_string_pretty(&v).ok()?;
    Some(files)
}

fn permuted_schema_files(proj: &Project, rng: &mut crate::rng::Rng) -> Vec<(String, String)> {
    let mut defs = proj.schema_model.defs.clone();
    rng.shuffle(&mut defs);
    let names = ["schema/a.graphql", "schema/sub/b.graphql", "schema/c.graphqls"];
    let nfiles = rng.range(1, 3.min(defs.len()).max(1));
    let mut parts: Vec<TsDoc> = (0..nfiles).map(|_| TsDoc::default()).collect();
    for d in defs {
        let i = rng.below(nfiles);
        parts[i].defs.push(d);
    }
    // another order of the files themselves: rotate which part gets which name
    let rot = rng.below(nfiles);
    parts.rotate_left(rot);
    parts.iter().enumerate().filter(|(_, p)| !p.defs.is_empty()).map(|(i, p)| (format!("{}/{}", proj.root, names[i]), render_ts(p, None, Feat::plain()))).collect()
}


// ---------------------------------------------------------------- part D: verdicts under permutation, in-process

/// multiset of operation-diagnostic kinds and of schema-diagnostic kinds: the verdict, positions and order left out
fn verdict_of(r: &crate::pipeline::PipelineResult) -> (Vec<String>, Vec<String>, usize) {
    let mut a: Vec<String> = r.schema_diags.iter().map(|d| d.kind.clone()).collect();
    let mut b: Vec<String> = r.op_diags.iter().map(|d| d.kind.clone()).collect();
    a.sort();
    b.sort();
    (a, b, r.panics.len())
}

pub fn check_perm_lib(schemas: &[String], op: &str) -> Vec<Violation> {
    check_perm_lib_mode(schemas, op, false)
}

/// `verdict_only`: the schema itself carries a fault; which diagnostics an invalid schema gets may depend on the order,
/// whether it is accepted may not
pub fn check_perm_lib_mode(schemas: &[String], op: &str, verdict_only: bool) -> Vec<Violation> {
    let replay = json!({"property":"C17","kind":"perm-lib","schemas":schemas,"op":op,"verdict_only":verdict_only});
    let files = vec![("ops/main.graphql".to_string(), op.to_string())];
    let mut out = vec![];
    let base = verdict_of(&crate::props::c03::run_real_opt(&schemas[0], &files, true));
    for (i, s) in schemas.iter().enumerate().skip(1) {
        let v = verdict_of(&crate::props::c03::run_real_opt(s, &files, true));
        let differs = if verdict_only { v.0.is_empty() != base.0.is_empty() || (v.0.is_empty() && v.1.is_empty() != base.1.is_empty()) || v.2 != base.2 } else { v != base };
        if differs {
            let class = if base.1.is_empty() != v.1.is_empty() || base.0.is_empty() != v.0.is_empty() { "accept-vs-reject" } else { "different-diagnostics" };
            out.push(Violation { sig: format!("C17|permutation|library-verdict-differs|{class}"), detail: format!("check gives schema diagnostics {:?} / operation diagnostics {:?} for one order of the schema definitions and {:?} / {:?} for permutation #{i} — operation {:?}", base.0, base.1, v.0, v.1, clip(op, 500)), replay: replay.clone() });
            break;
        }
    }
    out
}

fn run_perm_lib(ctx: &Ctx, rep: &mut Report) {
    use crate::gen_ops::{OpOpts, gen_valid_doc};
    use crate::gen_schema::{SchemaOpts, gen_valid_schema, split_extensions};
    use crate::render::{Feat, render_exec, render_ts};
    let n = ctx.budget(16_000, 320_000);
    for case in 0..n {
        let mut rng = ctx.rng("c17d", case);
        let mut so = SchemaOpts::default_for(&mut rng);
        so.interface_chains = true;
        let (schema, _) = gen_valid_schema(&mut rng, &so);
        let ix = crate::schema_ix::SchemaIx::new(&schema);
        let mut oo = OpOpts::standard();
        oo.coercing_literals = rng.coin();
        oo.shared_names = true;
        let Some(doc) = gen_valid_doc(&mut rng, &ix, &oo) else { continue };
        // valid document or a single-fault mutant of it: the verdict must not depend on the order either way
        let (doc, faulty) = if rng.chance(1, 3) {
            match crate::inject_ops::inject(&mut rng, &ix, &doc) {
                Some(f) => (f.doc, true),
                None => (doc, false),
            }
        } else {
            (doc, false)
        };
        let op = render_exec(&doc, None, Feat::plain());
        // ... or a single-fault mutant of the schema: an invalid schema must be rejected in every order
        let schema_fault = if !faulty && rng.chance(1, 4) { crate::inject_ts::inject(&mut rng, &schema) } else { None };
        let schema = match &schema_fault {
            Some(f) if !crate::validate::validate_type_system(&f.doc).is_empty() => f.doc.clone(),
            _ => schema,
        };
        let verdict_only = schema_fault.is_some();
        let shaped = if !verdict_only && rng.chance(1, 3) { split_extensions(&schema, &mut rng) } else { schema.clone() };
        let mut schemas = vec![render_ts(&shaped, None, Feat::plain())];
        // reversed, rotated and two shuffled orders (extensions keep their relative order per type: only definitions
        // of *different* names change places, which never changes the merged schema)
        let mut rev = shaped.clone();
        rev.defs.reverse();
        let perms = [rev];
        for p in perms {
            if order_preserving(&shaped, &p) {
                schemas.push(render_ts(&p, None, Feat::plain()));
            }
        }
        for _ in 0..3 {
            let mut q = shaped.clone();
            rng.shuffle(&mut q.defs);
            if order_preserving(&shaped, &q) {
                schemas.push(render_ts(&q, None, Feat::plain()));
            }
        }
        if schemas.len() < 2 {
            continue;
        }
        rep.trace_case(|| json!({"property":"C17","kind":"perm-lib","schemas":schemas,"op":op}));
        rep.eval();
        rep.count(if verdict_only { "library_permutation_cases|single-fault-schema" } else if faulty { "library_permutation_cases|single-fault-document" } else { "library_permutation_cases|valid-document" });
        rep.add("library_permutations_checked", schemas.len() as u64 - 1);
        rep.nontrivial(&format!("permlib{}\u{1}{op}", schemas[0]));
        rep.violations(check_perm_lib_mode(&schemas, &op, verdict_only));
    }
}

/// same relative order of the items that share a (kind, name) key (a definition and its extensions)
fn order_preserving(a: &TsDoc, b: &TsDoc) -> bool {
    let key = |d: &TsDef| -> String {
        match d {
            TsDef::Type(t) => format!("t:{}", t.name.s),
            TsDef::Schema(_) => "schema".into(),
            TsDef::Directive(d) => format!("d:{}", d.name.s),
        }
    };
    let proj = |doc: &TsDoc| -> std::collections::BTreeMap<String, Vec<String>> {
        let mut m: std::collections::BTreeMap<String, Vec<String>> = Default::default();
        for d in &doc.defs {
            m.entry(key(d)).or_default().push(format!("{d:?}"));
        }
        m
    };
    proj(a) == proj(b)
}

pub fn run(ctx: &Ctx, rep: &mut Report) {
    crate::gen_syntax::set_allow_block(false);
    run_perm_lib(ctx, rep);
    rep.note("feature mask: no block strings (C07 owns their defect). Every CLI run is a fresh process: std::collections::hash_map::RandomState draws new keys per process, so hash-map iteration orders vary between the runs compared.");
    let k_runs = if ctx.thorough { 8 } else { 5 };
    // ---- A
    let n = ctx.budget(480, 9_600);
    let mut st = RerunStats { runs: 0, multi_diag: 0, files_compared: 0 };
    for case in 0..n {
        let mut rng = ctx.rng("c17a", case);
        let Some(proj) = gen_project(&mut rng, &ProjOpts::standard()) else { continue };
        let k = *rng.pick(&[0usize, 0, 0, 2, 3, 4]);
        let Some(c) = make_case(&mut rng, &proj, k) else { continue };
        let mut args = c.commands.clone();
        args.push("--output-format".into());
        args.push(c.format.clone());
        rep.trace_case(|| json!({"property":"C17","kind":"rerun","files":files_json(&c.files),"root":c.root,"args":args,"k":k_runs}));
        rep.eval();
        rep.count(&format!("rerun_projects|faults={}", c.faults.len()));
        rep.nontrivial(&format!("{:?}{:?}", c.files, args));
        let vs = check_rerun(ctx, case, &c.files, &c.root, &args, k_runs, &mut st);
        if case == 0 {
            rep.sample(json!({"kind":"rerun","args":args,"runs":k_runs,"files":c.files.iter().map(|(p,t)| json!({"path":p,"text":clip(t,120)})).collect::<Vec<_>>()}));
        }
        rep.violations(vs);
    }
    // ---- A2: several diagnostics anchored at one and the same position (a field missing all of its required
    // arguments, selected twice): their order in every output format must not vary between processes
    let n2 = ctx.budget(160, 3_200);
    for case in 0..n2 {
        let mut rng = ctx.rng("c17a2", case);
        let Some(proj) = gen_project(&mut rng, &ProjOpts::standard()) else { continue };
        if proj.schema_is_json {
            continue;
        }
        let ix = crate::schema_ix::SchemaIx::new(&crate::schema_ix::merge_extensions(&proj.schema_model));
        let Some(q) = ix.query.clone() else { continue };
        let mut files = proj.files.clone();
        files.push((format!("{}/schema/zz_same_position.graphql", proj.root), format!("extend type {q} {{\n  samePositionField(a: Int!, b: String!, c: ID!, d: Boolean!): Int\n}}\n")));
        files.push((format!("{}/ops/same_position.graphql", proj.root), "query SamePosition {\n  samePositionField\n  again: samePositionField\n}\n".to_string()));
        let fmt = rng.s(&["json", "human", "rdjson"]).to_string();
        let args: Vec<String> = vec!["check".into(), "--output-format".into(), fmt];
        rep.trace_case(|| json!({"property":"C17","kind":"rerun","files":files_json(&files),"root":proj.root,"args":args,"k":k_runs}));
        rep.eval();
        rep.count("rerun_projects|diagnostics-at-one-position");
        rep.nontrivial(&format!("samepos{:?}", files));
        rep.violations(check_rerun(ctx, 1_000_000 + case, &files, &proj.root, &args, k_runs + 3, &mut st));
    }
    rep.add("rerun_processes", st.runs);
    rep.add("rerun_projects_with_several_diagnostics", st.multi_diag);
    rep.add("rerun_files_in_tree_compared_per_run", st.files_compared);
    // ---- B
    let n = ctx.budget(480, 9_600);
    let mut compared = 0u64;
    for case in 0..n {
        let mut rng = ctx.rng("c17b", case);
        let Some(mut proj) = gen_project(&mut rng, &ProjOpts::standard()) else { continue };
        proj.config.schema_module_specifier = Some("@/generated/schema".into());
        let cfg = proj.config.render(&["./schema/**/*.graphql".to_string(), "./schema/*.graphqls".to_string()], &proj.doc_globs);
        for f in proj.files.iter_mut() {
            if f.0.contains("graphql.config") {
                f.1 = cfg.clone();
            }
        }
        let c = LibCase { files: proj.files.clone(), root: proj.root.clone(), schema_paths: proj.schema_paths.clone(), op_paths: proj.op_paths.clone(), config_text: cfg, schema_output: proj.config.schema_output.clone(), resolvers_output: proj.config.resolvers_output.clone(), decl_ext: proj.config.decl_extension().to_string() };
        rep.trace_case(|| lib_json(&c));
        rep.eval();
        rep.count("lib_vs_cli_projects");
        rep.nontrivial(&format!("lib{:?}", c.files));
        rep.violations(check_lib(ctx, case, &c, &mut compared));
    }
    rep.add("lib_vs_cli_files_compared", compared);
    // ---- C
    let n = ctx.budget(480, 9_600);
    let mut pst = (0u64, 0u64, 0u64);
    for case in 0..n {
        let mut rng = ctx.rng("c17c", case);
        let Some(proj) = gen_project(&mut rng, &ProjOpts::standard()) else { continue };
        let mut outputs = vec![];
        if let Some(r) = &proj.config.resolvers_output {
            outputs.push(("resolver-types".to_string(), format!("{}/{r}", proj.root)));
        }
        for p in &proj.op_paths {
            let stem = p.strip_suffix(".graphql").unwrap_or(p);
            outputs.push(("operation-types".to_string(), format!("{stem}.{}", proj.config.decl_extension())));
        }
        // every fourth project has its schema as an introspection result: there a permutation is another order of
        // `types` and `directives` (and of each type's interfaces / possibleTypes) in the JSON document
        if case % 4 == 3 {
            let jp = crate::genproj::introspection_variant(&proj, &mut rng);
            if let Some(permuted) = permuted_introspection(&jp, &mut rng) {
                let c = PermCase { original: jp.files.clone(), permuted, root: jp.root.clone(), schema_output: jp.config.schema_output.as_ref().map(|s| format!("{}/{s}", jp.root)), outputs: outputs.clone() };
                rep.eval();
                rep.count("permutations|introspection-json");
                rep.nontrivial(&format!("permj{:?}", c.permuted));
                rep.violations(check_perm(ctx, 1_000_000 + case, &c, &mut pst));
            }
            continue;
        }
        for k in 0..2u64 {
            let mut permuted: Vec<(String, String)> = proj.files.iter().filter(|(p, _)| !proj.schema_paths.contains(p)).cloned().collect();
            permuted.extend(permuted_schema_files(&proj, &mut rng));
            let c = PermCase { original: proj.files.clone(), permuted, root: proj.root.clone(), schema_output: proj.config.schema_output.as_ref().map(|s| format!("{}/{s}", proj.root)), outputs: outputs.clone() };
            rep.eval();
            rep.count("permutations");
            rep.nontrivial(&format!("perm{:?}", c.permuted));
            rep.violations(check_perm(ctx, case * 2 + k, &c, &mut pst));
        }
    }
    rep.add("permutation_pairs_with_verdict_compared", pst.0);
    rep.add("permutation_aliases_compared", pst.1);
    rep.add("permutation_aliases_equal", pst.2);
}

pub fn replay(case: &Value, ctx: &Ctx) -> Vec<Violation> {
    match case["kind"].as_str() {
        Some("rerun") => {
            let mut st = RerunStats { runs: 0, multi_diag: 0, files_compared: 0 };
            // a nondeterministic difference may need more runs than the original to show again
            check_rerun(ctx, 0, &files_from(&case["files"]), case["root"].as_str().unwrap_or("app"), &strs(&case["args"]), case["k"].as_u64().unwrap_or(5) as usize * 4, &mut st)
        }
        Some("lib") => {
            let c = LibCase { files: files_from(&case["files"]), root: case["root"].as_str().unwrap_or("app").into(), schema_paths: strs(&case["schema_paths"]), op_paths: strs(&case["op_paths"]), config_text: case["config"].as_str().unwrap_or("").into(), schema_output: case["schema_output"].as_str().map(|s| s.into()), resolvers_output: case["resolvers_output"].as_str().map(|s| s.into()), decl_ext: case["decl_ext"].as_str().unwrap_or("d.graphql.ts").into() };
            check_lib(ctx, 0, &c, &mut 0)
        }
        Some("perm-lib") => check_perm_lib_mode(&strs(&case["schemas"]), case["op"].as_str().unwrap_or(""), case["verdict_only"].as_bool().unwrap_or(false)),
        Some("perm") => {
            let c = PermCase { original: files_from(&case["original"]), permuted: files_from(&case["permuted"]), root: case["root"].as_str().unwrap_or("app").into(), schema_output: case["schema_output"].as_str().map(|s| s.into()), outputs: files_from(&case["outputs"]) };
            check_perm(ctx, 0, &c, &mut (0, 0, 0))
        }
        _ => vec![],
    }
}
