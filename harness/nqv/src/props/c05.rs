//! C05 — schema `check` verdict is exact on the implemented type-system rules.

use serde_json::{Value, json};

use crate::ctx::Ctx;
use crate::gen_schema::{SchemaOpts, gen_valid_schema, split_extensions};
use crate::inject_ts::inject;
use crate::model::*;
use crate::pipeline::{Diag, ProjectInput, run_project};
use crate::refparse;
use crate::render::{Feat, render_ts};
use crate::report::{Report, Violation, clip};
use crate::rng::Rng;
use crate::validate::validate_type_system;

pub struct SchemaVerdict {
    pub diags: Vec<Diag>,
    pub panics: Vec<(String, crate::panicguard::Panicked)>,
}

pub fn real_schema_check(files: &[String]) -> SchemaVerdict {
    let sf: Vec<(String, String)> = files.iter().enumerate().map(|(i, t)| (format!("/proj/schema/s{i}.graphql"), t.clone())).collect();
    let r = run_project(&ProjectInput { schema_files: &sf, op_files: &[], config: "schema: x\n", generate: false, check_only: false });
    SchemaVerdict { diags: r.schema_diags, panics: r.panics }
}

fn diag_site(files: &[String], d: &Diag) -> String {
    match d.pos {
        None => {
            if d.builtin_pos {
                "builtin-position".into()
            } else {
                "no-position".into()
            }
        }
        Some((f, l, c)) => match files.get(f).and_then(|t| refparse::parse_ts(t).ok()) {
            None => "unparsed-file".into(),
            Some(doc) => site_class(&tsdoc_node(&doc), l, c),
        },
    }
}

/// accept side: `files` are a valid schema (reference validator agrees): zero diagnostics expected
pub fn check_accept(files: &[String]) -> Option<Vec<Violation>> {
    let replay = json!({"property":"C05","kind":"accept","files":files});
    let mut all = TsDoc::default();
    for f in files {
        all.defs.extend(refparse::parse_ts(f).ok()?.defs);
    }
    if !validate_type_system(&all).is_empty() {
        return None;
    }
    let v = real_schema_check(files);
    let mut out = vec![];
    for (stage, p) in &v.panics {
        out.push(Violation { sig: format!("C05|panic|{}|{}", p.site(), p.msg_class()), detail: format!("{stage}: {}", p.msg), replay: replay.clone() });
    }
    for d in &v.diags {
        if d.kind == "ParseError" {
            return None; // C07's business
        }
        let mut site = diag_site(files, d);
        if d.kind == "TypeMismatch" {
            // name the cause: what was expected and what kind of literal was given
            let expected = d.message.split('\'').nth(1).unwrap_or("");
            let class = if expected.starts_with('[') { "list".to_string() } else { let b = expected.trim_end_matches('!'); if matches!(b, "Int" | "Float" | "String" | "Boolean" | "ID") { b.to_string() } else { "other-named".to_string() } };
            let value_kind = site.rsplit('>').next().unwrap_or("").to_string();
            site = format!("expected={class}|value={value_kind}");
        }
        out.push(Violation { sig: format!("C05|false-positive|{}|{}", d.kind, site), detail: format!("valid schema rejected: {} at {:?} ({site}) — {}", d.message, d.pos, clip(&files.join("\n---\n"), 700)), replay: replay.clone() });
    }
    out.sort_by(|a, b| a.sig.cmp(&b.sig));
    out.dedup_by(|a, b| a.sig == b.sig);
    Some(out)
}

/// reject side: `files` carry one labelled fault that the reference validator confirms
pub fn check_reject(files: &[String], rule: &str, label: &str) -> Option<Vec<Violation>> {
    let replay = json!({"property":"C05","kind":"reject","files":files,"rule":rule,"label":label});
    let mut all = TsDoc::default();
    for f in files {
        all.defs.extend(refparse::parse_ts(f).ok()?.defs);
    }
    let issues = validate_type_system(&all);
    if issues.is_empty() || !issues.iter().all(|i| i.rule.starts_with(rule)) {
        return None; // not a confirmed single-rule fault
    }
    let v = real_schema_check(files);
    let mut out = vec![];
    for (stage, p) in &v.panics {
        out.push(Violation { sig: format!("C05|panic|{}|{}", p.site(), p.msg_class()), detail: format!("{stage}: {}", p.msg), replay: replay.clone() });
    }
    if v.diags.iter().any(|d| d.kind == "ParseError") {
        return None;
    }
    if v.diags.is_empty() && v.panics.is_empty() {
        out.push(Violation { sig: format!("C05|accepted|{rule}|{label}"), detail: format!("schema breaking {rule} ({label}: {}) is accepted without a diagnostic — {}", issues[0].detail, clip(&files.join("\n---\n"), 700)), replay: replay.clone() });
    }
    Some(out)
}

fn render_files(doc: &TsDoc, rng: &mut Rng) -> Vec<String> {
    let nfiles = rng.range(1, 3).min(doc.defs.len().max(1));
    let mut files: Vec<TsDoc> = (0..nfiles).map(|_| TsDoc::default()).collect();
    for d in doc.defs.iter() {
        let i = rng.below(nfiles);
        files[i].defs.push(d.clone());
    }
    files.retain(|f| !f.defs.is_empty());
    files.iter().map(|f| if rng.chance(1, 4) { render_ts(f, Some(rng), Feat::hostile()) } else { render_ts(f, None, Feat::plain()) }).collect()
}

pub fn run(ctx: &Ctx, rep: &mut Report) {
    crate::gen_syntax::set_allow_block(false);
    rep.note("feature mask: no block strings (C07), literal coercions off in defaults and directive arguments on the accept side of the default run");
    let n = ctx.budget(25_000, 600_000);
    let mut rejected_drafts = 0u64;
    for case in 0..n {
        let mut rng = ctx.rng("case", case);
        let mut so = SchemaOpts::default_for(&mut rng);
        so.custom_directives = rng.chance(3, 4);
        so.coercing_literals = rng.chance(1, 5);
        let (schema, rej) = gen_valid_schema(&mut rng, &so);
        rejected_drafts += rej as u64;
        let shaped = if rng.coin() { split_extensions(&schema, &mut rng) } else { schema.clone() };
        // accept side
        let files = render_files(&shaped, &mut rng);
        rep.trace_case(|| json!({"property":"C05","kind":"accept","files":files}));
        rep.eval();
        match check_accept(&files) {
            None => rep.count("accept_skipped"),
            Some(vs) => {
                rep.count("accept_cases");
                rep.violations(vs);
            }
        }
        if case == 0 {
            rep.sample(json!({"kind":"accept","files":files.iter().map(|f| clip(f, 500)).collect::<Vec<_>>()}));
        }
        // reject side: a few single-fault mutants of the same schema
        for k in 0..3 {
            let Some(f) = inject(&mut rng, &shaped) else {
                rep.count("no_injector_applicable");
                continue;
            };
            let files = render_files(&f.doc, &mut rng);
            rep.trace_case(|| json!({"property":"C05","kind":"reject","files":files,"rule":f.rule,"label":f.label}));
            rep.eval();
            match check_reject(&files, f.rule, &f.label) {
                None => rep.count("mutant_not_confirmed_single_fault"),
                Some(vs) => {
                    rep.count(&format!("mutants|{}", f.label.split('|').next().unwrap_or("")));
                    rep.nontrivial(&files.join("\u{1}"));
                    rep.violations(vs);
                }
            }
            if case == 0 && k == 0 {
                rep.sample(json!({"kind":"reject","rule":f.rule,"label":f.label,"files":files.iter().map(|f| clip(f, 400)).collect::<Vec<_>>()}));
            }
        }
    }
    rep.add("generator_drafts_rejected_by_reference_validator", rejected_drafts);
}

pub fn replay(case: &Value) -> Vec<Violation> {
    let files: Vec<String> = case["files"].as_array().map(|a| a.iter().filter_map(|x| x.as_str().map(|s| s.to_string())).collect()).unwrap_or_default();
    match case["kind"].as_str() {
        Some("accept") => check_accept(&files).unwrap_or_default(),
        Some("reject") => check_reject(&files, case["rule"].as_str().unwrap_or(""), case["label"].as_str().unwrap_or("")).unwrap_or_default(),
        _ => vec![],
    }
}
