//! C12 — runtime documents are the source operation plus exactly the fragments it needs.

use std::collections::BTreeSet;

use serde_json::{Value, json};

use crate::ctx::Ctx;
use crate::gen_ops::{OpOpts, gen_valid_doc, split_into_files};
use crate::gen_schema::{SchemaOpts, gen_valid_schema};
use crate::gqljson::{document, module_consts};
use crate::model::*;
use crate::pipeline::{ProjectInput, run_project};
use crate::refimport::closure;
use crate::refparse;
use crate::render::{Feat, render_exec, render_ts};
use crate::report::{Report, Violation, clip};
use crate::schema_ix::SchemaIx;
use crate::validate::frags_reached;

const CONFIG_STANDALONE: &str = "schema: ./schema.graphql\nextensions:\n  nitrogql:\n    generate:\n      mode: standalone-ts-4.0\n      schemaModuleSpecifier: \"@/schema\"\n";

/// the resolved reference document of file `i`: own definitions + imported fragments
fn resolved_reference(files: &[(String, ExecDoc)], i: usize) -> ExecDoc {
    let cl = closure(files, i);
    let mut defs: Vec<ExecDef> = files[i].1.defs.iter().filter(|d| !matches!(d, ExecDef::Import(_))).cloned().collect();
    for (f, n) in &cl.imported {
        if let Some(fr) = files[*f].1.frag(n) {
            defs.push(ExecDef::Frag(fr.clone()));
        }
    }
    ExecDoc { defs }
}

fn strip_pos(d: &ExecDef) -> String {
    canon(&execdef_node(d))
}

/// check every document literal of an emitted module against the reference
fn check_module(route: &str, module: &str, reference: &ExecDoc, own: &ExecDoc, out: &mut Vec<(String, String)>) {
    let consts = match module_consts(module) {
        Ok(c) => c,
        Err(e) => {
            out.push((format!("C12|{route}|module-unreadable"), e));
            return;
        }
    };
    let mut seen_first: Vec<String> = vec![];
    for c in &consts {
        let doc = match document(&c.json) {
            Ok(d) => d,
            Err(e) => {
                out.push((format!("C12|{route}|json-shape|{}", e.split(' ').take(4).collect::<Vec<_>>().join("-")), format!("const {}: {e}", c.name)));
                continue;
            }
        };
        let Some(first) = doc.defs.first() else {
            out.push((format!("C12|{route}|empty-document"), format!("const {} has no definitions", c.name)));
            continue;
        };
        // which source definition is this the document of?
        let (src, key): (Option<&ExecDef>, String) = match first {
            ExecDef::Op(o) => (
                reference.defs.iter().find(|d| matches!(d, ExecDef::Op(x) if x.kind == o.kind && x.name.as_ref().map(|n| &n.s) == o.name.as_ref().map(|n| &n.s))),
                format!("op:{}", o.name.as_ref().map(|n| n.s.as_str()).unwrap_or("")),
            ),
            ExecDef::Frag(f) => (reference.defs.iter().find(|d| matches!(d, ExecDef::Frag(x) if x.name.s == f.name.s)), format!("frag:{}", f.name.s)),
            ExecDef::Import(_) => (None, String::new()),
        };
        seen_first.push(key.clone());
        let Some(src) = src else {
            out.push((format!("C12|{route}|document-of-unknown-definition"), format!("const {} starts with {key}, which is not in the source", c.name)));
            continue;
        };
        // first definition identical to the source
        let dn = diff_nodes(&execdef_node(src), &execdef_node(first), false);
        for d in dn {
            out.push((format!("C12|{route}|definition-differs|{}|{}", d.what, d.site()), format!("const {}: {}", c.name, d.detail)));
        }
        // followed by exactly the transitively spread fragments, once each
        let mut reach = BTreeSet::new();
        let ss = match src {
            ExecDef::Op(o) => &o.sels,
            ExecDef::Frag(f) => &f.sels,
            _ => continue,
        };
        frags_reached(reference, ss, &mut reach);
        if let ExecDef::Frag(f) = src {
            reach.remove(&f.name.s);
        }
        let mut got_names: Vec<String> = vec![];
        for d in doc.defs.iter().skip(1) {
            match d {
                ExecDef::Frag(f) => {
                    got_names.push(f.name.s.clone());
                    match reference.frag(&f.name.s) {
                        None => out.push((format!("C12|{route}|fragment-not-in-source"), format!("const {} includes fragment {} which is not in scope", c.name, f.name.s))),
                        Some(sf) => {
                            for df in diff_nodes(&execdef_node(&ExecDef::Frag(sf.clone())), &execdef_node(d), false) {
                                out.push((format!("C12|{route}|definition-differs|{}|{}", df.what, df.site()), format!("const {} / fragment {}: {}", c.name, f.name.s, df.detail)));
                            }
                        }
                    }
                }
                _ => out.push((format!("C12|{route}|extra-operation-in-document"), format!("const {} contains a second operation", c.name))),
            }
        }
        let got_set: BTreeSet<String> = got_names.iter().cloned().collect();
        if got_set.len() != got_names.len() {
            out.push((format!("C12|{route}|fragment-duplicated"), format!("const {}: fragments {:?}", c.name, got_names)));
        }
        // fragments that exist in scope and are needed
        let needed: BTreeSet<String> = reach.iter().filter(|n| reference.frag(n).is_some()).cloned().collect();
        for n in needed.difference(&got_set) {
            out.push((format!("C12|{route}|needed-fragment-missing"), format!("const {} ({key}) lacks fragment {n} that it transitively spreads", c.name)));
        }
        for n in got_set.difference(&needed) {
            out.push((format!("C12|{route}|unneeded-fragment-included"), format!("const {} ({key}) includes fragment {n} that it does not spread", c.name)));
        }
    }
    // completeness: every operation and every own fragment of the file has a document
    for d in &own.defs {
        let key = match d {
            ExecDef::Op(o) => format!("op:{}", o.name.as_ref().map(|n| n.s.as_str()).unwrap_or("")),
            ExecDef::Frag(f) => format!("frag:{}", f.name.s),
            _ => continue,
        };
        if !seen_first.contains(&key) {
            out.push((format!("C12|{route}|definition-without-document"), format!("{key} has no runtime document in the module")));
        }
    }
    let _ = strip_pos;
}

pub fn check_project(schema: &str, files: &[(String, String)], use_loader: bool) -> Option<Vec<Violation>> {
    let replay = json!({"property":"C12","kind":"project","schema":schema,"files":files.iter().map(|(p,t)| json!([p,t])).collect::<Vec<_>>(),"loader":use_loader});
    let mut parsed = vec![];
    for (p, t) in files {
        parsed.push((format!("/proj/{p}"), refparse::parse_exec(t).ok()?));
    }
    // only projects that are valid by the reference validator are cases of this property
    {
        let (ix, _, resolved) = crate::props::c03::reference_project(schema, files)?;
        for d in &resolved {
            if !crate::validate::validate_operations(&ix, d).is_empty() {
                return None;
            }
        }
    }
    let sf = vec![("/proj/schema.graphql".to_string(), schema.to_string())];
    let of: Vec<(String, String)> = files.iter().map(|(p, t)| (format!("/proj/{p}"), t.clone())).collect();
    let r = run_project(&ProjectInput { schema_files: &sf, op_files: &of, config: CONFIG_STANDALONE, generate: false, check_only: false });
    let mut out: Vec<(String, String)> = vec![];
    for (stage, p) in &r.panics {
        out.push((format!("C12|panic|{}|{}", p.site(), p.msg_class()), format!("{stage}: {}", p.msg)));
    }
    if r.outputs.is_none() && r.panics.is_empty() && !use_loader {
        return None; // check did not accept (C04's business) and the loader route, which needs no check, is not taken
    }
    if r.outputs.is_none() && !r.panics.is_empty() {
        return Some(out.into_iter().map(|(sig, detail)| Violation { sig, detail, replay: replay.clone() }).collect());
    }
    let no_ops = vec![];
    for (i, oo) in r.outputs.as_ref().map(|o| &o.ops).unwrap_or(&no_ops).iter().enumerate() {
        let idx = parsed.iter().position(|(p, _)| *p == oo.path).unwrap_or(i);
        let reference = resolved_reference(&parsed, idx);
        let own = ExecDoc { defs: parsed[idx].1.defs.iter().filter(|d| !matches!(d, ExecDef::Import(_))).cloned().collect() };
        check_module("standalone-ts", &oo.dts, &reference, &own, &mut out);
        check_module("loader-js", &oo.js, &reference, &own, &mut out);
    }
    if use_loader {
        // the real loader ABI on the main file, in a fresh loader instance
        let files2 = of.clone();
        let h = std::thread::spawn(move || {
            use crate::props::c19::abi;
            abi::init();
            abi::config(CONFIG_STANDALONE);
            let id = abi::initiate(&files2[0].0, &files2[0].1);
            if id == 0 {
                return Err(abi::read_result());
            }
            for (p, t) in files2.iter().skip(1) {
                abi::load(id, p, t);
            }
            let ok = loader_shim::emit_js(id);
            let r = abi::read_result();
            loader_shim::free_task(id);
            if ok { Ok(r) } else { Err(r) }
        });
        match h.join() {
            Ok(Ok(js)) => {
                let reference = resolved_reference(&parsed, 0);
                let own = ExecDoc { defs: parsed[0].1.defs.iter().filter(|d| !matches!(d, ExecDef::Import(_))).cloned().collect() };
                check_module("loader-abi", &js, &reference, &own, &mut out);
            }
            Ok(Err(e)) => out.push(("C12|loader-abi|emit-failed".into(), format!("loader could not emit a checked document: {e}"))),
            Err(_) => {}
        }
    }
    out.sort();
    out.dedup_by(|a, b| a.0 == b.0);
    Some(out.into_iter().map(|(sig, detail)| Violation { sig, detail: format!("{detail} — files {:?}", clip(&files.iter().map(|(p, t)| format!("== {p}\n{t}")).collect::<Vec<_>>().join("\n"), 700)), replay: replay.clone() }).collect())
}

pub fn run(ctx: &Ctx, rep: &mut Report) {
    crate::gen_syntax::set_allow_block(false);
    rep.note("feature mask: no block strings, no coercing literals (owned by C07 / C04)");
    let n = ctx.budget(32_000, 600_000);
    for case in 0..n {
        let mut rng = ctx.rng("case", case);
        let so = SchemaOpts::default_for(&mut rng);
        let (schema, _) = gen_valid_schema(&mut rng, &so);
        let ix = SchemaIx::new(&schema);
        let mut oo = OpOpts::standard();
        oo.max_ops = 3;
        oo.shared_names = true;
        let Some(doc) = gen_valid_doc(&mut rng, &ix, &oo) else {
            rep.count("generator_gave_up");
            continue;
        };
        let files = split_into_files(&doc, &mut rng);
        let schema_text = render_ts(&schema, None, Feat::plain());
        let texts: Vec<(String, String)> = files.iter().map(|(p, d)| (p.clone(), render_exec(d, None, Feat::plain()))).collect();
        rep.trace_case(|| json!({"property":"C12","kind":"project","schema":schema_text,"files":texts.iter().map(|(p,t)| json!([p,t])).collect::<Vec<_>>(),"loader":true}));
        rep.eval();
        let nfr = doc.frags().count();
        if nfr > 0 || doc.ops().any(|o| !o.vars.is_empty()) {
            rep.nontrivial(&texts.iter().map(|(_, t)| t.as_str()).collect::<Vec<_>>().join("\u{1}"));
        }
        rep.add("fragments", nfr as u64);
        rep.add("files", files.len() as u64);
        if case == 0 {
            rep.sample(json!({"files": texts.iter().map(|(p,t)| json!({"path":p,"text":clip(t, 500)})).collect::<Vec<_>>()}));
        }
        match check_project(&schema_text, &texts, case % 3 == 0) {
            None => rep.count("check_did_not_accept"),
            Some(vs) => {
                rep.count("projects_checked");
                rep.violations(vs);
            }
        }
    }
}

pub fn replay(case: &Value) -> Vec<Violation> {
    let files: Vec<(String, String)> = case["files"].as_array().map(|a| a.iter().map(|x| (x[0].as_str().unwrap_or("").to_string(), x[1].as_str().unwrap_or("").to_string())).collect()).unwrap_or_default();
    check_project(case["schema"].as_str().unwrap_or(""), &files, case["loader"].as_bool().unwrap_or(false)).unwrap_or_default()
}
