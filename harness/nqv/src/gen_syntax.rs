//! Random *syntactic* documents: every production of the grammar, no schema validity.
//! Used by C07 (parse fidelity), C08 (robustness seeds), C16 (print/re-parse) and C11.

use crate::model::*;
use crate::refparse::block_string_value;
use crate::rng::Rng;

const NAMES: &[&str] = &["a", "b", "user", "id", "posts", "Query", "User", "Node", "x1", "_", "__typename", "_9", "camelCase", "SHOUT", "f", "edges", "node", "Float", "Int"];
const KEYWORD_NAMES: &[&str] = &[
    "type", "query", "mutation", "subscription", "fragment", "input", "extend", "schema", "implements", "repeatable", "from", "import", "scalar", "union", "enum", "interface", "directive", "onward", "trueish", "nullable", "on",
    // names that merely begin with a keyword (of the grammar or of the #import extension)
    "fromCart", "from_", "from9", "importer", "typeName", "queryRoot", "fragments", "extended", "inputs", "enumerate", "unions", "interfaces", "directives", "scalars", "implementsX", "repeatableX", "falsey", "nullish", "on_", "onX", "schemaless", "mutations", "subscriptions",
];
const HOSTILE_CHARS: &[&str] = &["\"", "\\", "`", "${", "*/", "\"\"\"", "\n", "  ", "\t", "é", "日本語", "𝒳", "😀", "/", "#", "'", "{", "}", "$", "\u{7f}", "\u{0}", "\u{1}", "\u{feff}", "\\n", "\\u0041", "\u{8}", "\u{c}", "\r", "\u{b}", "\u{2028}"];
const WORDS: &[&str] = &["The", "quick", "brown", "fox", "id", "of", "user", "deprecated", "use", "instead", "x", ""];

pub fn gen_name(rng: &mut Rng) -> String {
    if rng.chance(1, 12) { rng.s(KEYWORD_NAMES).to_string() } else { rng.s(NAMES).to_string() }
}

/// a name that may not be `on` (fragment names) nor true/false/null (enum values)
pub fn gen_safe_name(rng: &mut Rng) -> String {
    loop {
        let n = gen_name(rng);
        if n != "on" {
            return n;
        }
    }
}

thread_local! {
    static ALLOW_QUOTES: std::cell::Cell<bool> = const { std::cell::Cell::new(true) };
}

/// feature mask: double quotes and backslashes inside generated string values
pub fn set_allow_quotes(b: bool) {
    ALLOW_QUOTES.with(|c| c.set(b));
}
pub fn allow_quotes() -> bool {
    ALLOW_QUOTES.with(|c| c.get())
}

pub fn gen_text(rng: &mut Rng, hostile: bool) -> String {
    let n = rng.range(0, 6);
    let mut s = String::new();
    let quotes = allow_quotes();
    for i in 0..n {
        if i > 0 && rng.chance(2, 3) {
            s.push(' ');
        }
        if hostile && rng.chance(1, 3) {
            let h = rng.s(HOSTILE_CHARS);
            if !quotes && (h.contains('"') || h.contains('\\')) {
                s.push_str("'");
            } else {
                s.push_str(h);
            }
        } else {
            s.push_str(rng.s(WORDS));
        }
    }
    s
}

/// a block string token with random raw content; the model value is what the spec says it denotes
pub fn gen_block_lit(rng: &mut Rng, hostile: bool) -> StrLit {
    let nlines = rng.range(1, 4);
    let mut raw = String::new();
    if rng.coin() {
        raw.push('\n');
    }
    let base_indent = rng.below(3) * 2;
    for i in 0..nlines {
        if i > 0 {
            raw.push_str(if rng.chance(1, 10) { "\r\n" } else { "\n" });
        }
        if rng.chance(1, 8) {
            // blank line
            if rng.coin() {
                raw.push_str("   ");
            }
            continue;
        }
        raw.push_str(&" ".repeat(base_indent + rng.below(2) * 2));
        let mut t = gen_text(rng, hostile).replace('\r', " ");
        // inside block strings `"""` must be written escaped; backslashes are literal
        t = t.replace("\"\"\"", "\\\"\"\"");
        raw.push_str(&t);
    }
    if rng.coin() {
        raw.push('\n');
        raw.push_str(&" ".repeat(base_indent));
    }
    // the raw text must not end with a quote (would merge with the delimiter) or a backslash
    while raw.ends_with('"') || raw.ends_with('\\') {
        raw.push(' ');
    }
    // and must not contain an unescaped triple quote
    let check = raw.replace("\\\"\"\"", "");
    if check.contains("\"\"\"") {
        raw = raw.replace('"', "'");
    }
    let value = block_string_value(&raw.replace("\\\"\"\"", "\"\"\""));
    StrLit { value, p: P::none(), block: true, raw: Some(format!("\"\"\"{raw}\"\"\"")) }
}

thread_local! {
    static ALLOW_BLOCK: std::cell::Cell<bool> = const { std::cell::Cell::new(true) };
}

/// feature mask: block strings are generated only by the properties that own the parser's
/// string semantics (C07/C08/C16); elsewhere the known raw-block-string defect would starve later stages
pub fn set_allow_block(b: bool) {
    ALLOW_BLOCK.with(|c| c.set(b));
}

pub fn gen_strlit(rng: &mut Rng, hostile: bool, allow_block: bool) -> StrLit {
    if allow_block && ALLOW_BLOCK.with(|c| c.get()) && rng.chance(1, 4) {
        gen_block_lit(rng, hostile)
    } else {
        StrLit { value: gen_text(rng, hostile), p: P::none(), block: false, raw: None }
    }
}

const INTS: &[&str] = &["0", "-0", "1", "-1", "42", "123456789012345678901234567890", "-2147483648", "7"];
const FLOATS: &[&str] = &["1.5", "-0.0", "1e10", "1E-3", "6.02e+23", "0.1E5", "-12.50", "0.0"];

pub fn gen_value(rng: &mut Rng, depth: usize, is_const: bool, hostile: bool) -> Val {
    let r = rng.below(if depth == 0 { 8 } else { 11 });
    match r {
        0 if !is_const => Val::var(&gen_safe_name(rng)),
        0 | 1 => Val::int(rng.s(INTS)),
        2 => Val::float(rng.s(FLOATS)),
        3 => Val::Str(gen_strlit(rng, hostile, true)),
        4 => Val::boolean(rng.coin()),
        5 => Val::null(),
        6 | 7 => {
            let mut n = gen_name(rng);
            if matches!(n.as_str(), "true" | "false" | "null") {
                n.push('x');
            }
            Val::enumv(&n)
        }
        8 | 9 => {
            let n = rng.below(4);
            Val::list((0..n).map(|_| gen_value(rng, depth - 1, is_const, hostile)).collect())
        }
        _ => {
            let n = rng.below(4);
            Val::Obj((0..n).map(|_| (nm(&gen_name(rng)), gen_value(rng, depth - 1, is_const, hostile))).collect(), P::none())
        }
    }
}

pub fn gen_ty(rng: &mut Rng, depth: usize) -> Ty {
    let base = if depth > 0 && rng.chance(1, 3) { Ty::list(gen_ty(rng, depth - 1)) } else { Ty::named(&gen_name(rng)) };
    if rng.chance(2, 5) { Ty::non_null(base) } else { base }
}

pub fn gen_args(rng: &mut Rng, is_const: bool, hostile: bool) -> Vec<(Name, Val)> {
    if rng.chance(3, 5) {
        return vec![];
    }
    let n = rng.range(1, 3);
    (0..n).map(|_| (nm(&gen_name(rng)), gen_value(rng, 2, is_const, hostile))).collect()
}

pub fn gen_dirs(rng: &mut Rng, is_const: bool, hostile: bool) -> Vec<Dir> {
    if rng.chance(3, 4) {
        return vec![];
    }
    let n = rng.range(1, 2);
    (0..n).map(|_| Dir { name: nm(&gen_name(rng)), p: P::none(), args: gen_args(rng, is_const, hostile), args_p: P::none() }).collect()
}

pub fn gen_selset(rng: &mut Rng, depth: usize, hostile: bool) -> SelSet {
    let n = rng.range(1, 4);
    let mut items = vec![];
    for _ in 0..n {
        let r = rng.below(10);
        if r < 7 || depth == 0 {
            let alias = if rng.chance(1, 4) { Some(nm(&gen_name(rng))) } else { None };
            let sels = if depth > 0 && rng.chance(1, 3) { Some(gen_selset(rng, depth - 1, hostile)) } else { None };
            items.push(Sel::Field(Field { alias, name: nm(&gen_name(rng)), args: gen_args(rng, false, hostile), args_p: P::none(), dirs: gen_dirs(rng, false, hostile), sels }));
        } else if r < 8 {
            items.push(Sel::Spread { p: P::none(), name: nm(&gen_safe_name(rng)), dirs: gen_dirs(rng, false, hostile) });
        } else {
            let cond = if rng.chance(2, 3) { Some(nm(&gen_name(rng))) } else { None };
            items.push(Sel::Inline { p: P::none(), cond, dirs: gen_dirs(rng, false, hostile), sels: gen_selset(rng, depth - 1, hostile) });
        }
    }
    SelSet { p: P::none(), items }
}

pub struct ExecOpts {
    pub imports: bool,
    pub shorthand: bool,
    pub hostile: bool,
}

pub fn gen_exec_doc(rng: &mut Rng, opts: &ExecOpts) -> ExecDoc {
    let n = rng.range(1, 4);
    let mut defs = vec![];
    if opts.imports && rng.chance(1, 3) {
        for _ in 0..rng.range(1, 2) {
            let targets = if rng.chance(1, 3) { vec![None] } else { (0..rng.range(1, 3)).map(|_| Some(nm(&gen_safe_name(rng)).clone())).filter(|n| n.as_ref().is_some_and(|n| n.s != "from")).collect::<Vec<_>>() };
            if targets.is_empty() {
                continue;
            }
            let path = StrLit::plain(rng.s(&["./frag.graphql", "../x/y.graphql", "a.graphql", "./sub dir/é.graphql"]));
            defs.push(ExecDef::Import(Import { p: P::none(), targets, path }));
        }
    }
    for _ in 0..n {
        if rng.chance(1, 3) {
            defs.push(ExecDef::Frag(FragDef { p: P::none(), name: nm(&gen_safe_name(rng)), cond: nm(&gen_name(rng)), dirs: gen_dirs(rng, false, opts.hostile), sels: gen_selset(rng, 2, opts.hostile) }));
        } else {
            let kind = *rng.pick(&[OpKind::Query, OpKind::Query, OpKind::Mutation, OpKind::Subscription]);
            let shorthand = opts.shorthand && kind == OpKind::Query && rng.chance(1, 4);
            let name = if shorthand || rng.chance(1, 4) { None } else { Some(nm(&gen_name(rng))) };
            let vars = if shorthand || rng.coin() {
                vec![]
            } else {
                (0..rng.range(1, 3))
                    .map(|_| VarDef { p: P::none(), name: nm(&gen_name(rng)), ty: gen_ty(rng, 2), default: if rng.chance(1, 3) { Some(gen_value(rng, 2, true, opts.hostile)) } else { None }, dirs: gen_dirs(rng, true, opts.hostile) })
                    .collect()
            };
            let dirs = if shorthand { vec![] } else { gen_dirs(rng, false, opts.hostile) };
            defs.push(ExecDef::Op(OpDef { p: P::none(), kind, name, vars, vars_p: P::none(), dirs, sels: gen_selset(rng, 2, opts.hostile), shorthand }));
        }
    }
    ExecDoc { defs }
}

fn gen_desc(rng: &mut Rng, hostile: bool) -> Option<StrLit> {
    if rng.chance(1, 3) { Some(gen_strlit(rng, hostile, true)) } else { None }
}

pub fn gen_ivd(rng: &mut Rng, hostile: bool) -> InputValueDef {
    InputValueDef { desc: gen_desc(rng, hostile), name: nm(&gen_name(rng)), ty: gen_ty(rng, 2), default: if rng.chance(1, 3) { Some(gen_value(rng, 2, true, hostile)) } else { None }, dirs: gen_dirs(rng, true, hostile) }
}

pub fn gen_fielddef(rng: &mut Rng, hostile: bool) -> FieldDef {
    let args = if rng.chance(1, 3) { (0..rng.range(1, 3)).map(|_| gen_ivd(rng, hostile)).collect() } else { vec![] };
    FieldDef { desc: gen_desc(rng, hostile), name: nm(&gen_name(rng)), args, ty: gen_ty(rng, 2), dirs: gen_dirs(rng, true, hostile) }
}

const LOCATIONS: &[&str] = &[
    "QUERY", "MUTATION", "SUBSCRIPTION", "FIELD", "FRAGMENT_DEFINITION", "FRAGMENT_SPREAD", "INLINE_FRAGMENT", "VARIABLE_DEFINITION", "SCHEMA", "SCALAR", "OBJECT", "FIELD_DEFINITION", "ARGUMENT_DEFINITION",
    "INTERFACE", "UNION", "ENUM", "ENUM_VALUE", "INPUT_OBJECT", "INPUT_FIELD_DEFINITION",
];

pub fn gen_type_def(rng: &mut Rng, kind: TKind, ext: bool, hostile: bool, type_name: Option<&str>) -> TypeDef {
    let name = type_name.map(|s| s.to_string()).unwrap_or_else(|| gen_name(rng));
    let mut t = TypeDef::new(kind, &name);
    t.ext = ext;
    if !ext {
        t.desc = gen_desc(rng, hostile);
    }
    t.dirs = gen_dirs(rng, true, hostile);
    match kind {
        TKind::Scalar => {}
        TKind::Object | TKind::Interface => {
            if rng.chance(1, 3) {
                t.implements = (0..rng.range(1, 3)).map(|_| nm(&gen_name(rng))).collect();
            }
            if !rng.chance(1, 6) {
                t.fields = (0..rng.range(1, 4)).map(|_| gen_fielddef(rng, hostile)).collect();
            }
        }
        TKind::Union => {
            t.members = (0..rng.range(1, 3)).map(|_| nm(&gen_name(rng))).collect();
        }
        TKind::Enum => {
            if !rng.chance(1, 8) {
                t.values = (0..rng.range(1, 4))
                    .map(|_| {
                        let mut n = gen_name(rng);
                        if matches!(n.as_str(), "true" | "false" | "null") {
                            n.push('_');
                        }
                        EnumValDef { desc: gen_desc(rng, hostile), name: nm(&n), dirs: gen_dirs(rng, true, hostile) }
                    })
                    .collect();
            }
        }
        TKind::Input => {
            if !rng.chance(1, 8) {
                t.input_fields = (0..rng.range(1, 4)).map(|_| gen_ivd(rng, hostile)).collect();
            }
        }
    }
    if ext && t.implements.is_empty() && t.dirs.is_empty() && t.fields.is_empty() && t.members.is_empty() && t.values.is_empty() && t.input_fields.is_empty() {
        t.dirs = vec![Dir::new("d", vec![])];
    }
    t
}

pub fn gen_ts_def(rng: &mut Rng, hostile: bool) -> TsDef {
    let r = rng.below(14);
    match r {
        0 => {
            let ext = rng.coin();
            let dirs = gen_dirs(rng, true, hostile);
            let mut roots: Vec<(OpKind, Name)> = vec![];
            if !(ext && !dirs.is_empty() && rng.coin()) {
                for k in [OpKind::Query, OpKind::Mutation, OpKind::Subscription] {
                    if roots.is_empty() || rng.coin() {
                        roots.push((k, nm(&gen_name(rng))));
                    }
                }
            }
            TsDef::Schema(SchemaDef { ext, desc: if ext { None } else { gen_desc(rng, hostile) }, p: P::none(), dirs, roots })
        }
        1 => {
            let args = if rng.coin() { (0..rng.range(1, 3)).map(|_| gen_ivd(rng, hostile)).collect() } else { vec![] };
            let nloc = rng.range(1, 3);
            TsDef::Directive(DirectiveDef { desc: gen_desc(rng, hostile), p: P::none(), name: nm(&gen_name(rng)), args, repeatable: rng.chance(1, 3), repeatable_p: P::none(), locations: (0..nloc).map(|_| nm(rng.s(LOCATIONS))).collect() })
        }
        _ => {
            let kind = *rng.pick(&TKind::all());
            let ext = rng.chance(1, 4);
            TsDef::Type(gen_type_def(rng, kind, ext, hostile, None))
        }
    }
}

pub fn gen_ts_doc(rng: &mut Rng, hostile: bool) -> TsDoc {
    let n = rng.range(1, 6);
    TsDoc { defs: (0..n).map(|_| gen_ts_def(rng, hostile)).collect() }
}
