use crate::rng::Rng;

#[derive(Clone, Debug)]
pub struct Ctx {
    pub property: String,
    pub thorough: bool,
    pub seed: u64,
    pub shard: u64,
    pub nshards: u64,
    /// directory for scratch files and outputs of this shard
    pub out: String,
    /// path of the CLI binary built from /repo (for E2 engines)
    pub cli: String,
}

impl Ctx {
    pub fn rng(&self, label: &str, case: u64) -> Rng {
        Rng::from_parts(self.seed, &format!("{}/{}", self.property, label), self.shard, case)
    }
    /// choose budget by tier; the number is the *total* over all shards, this returns the share of this shard
    pub fn budget(&self, quick: u64, thorough: u64) -> u64 {
        let total = if self.thorough { thorough } else { quick };
        let base = total / self.nshards;
        let extra = if self.shard < total % self.nshards { 1 } else { 0 };
        base + extra
    }
    pub fn tier(&self) -> &'static str {
        if self.thorough { "thorough" } else { "quick" }
    }
}
