//! catch_unwind wrapper that records where the panic happened.

use std::cell::RefCell;
use std::panic::{self, AssertUnwindSafe};

#[derive(Clone, Debug)]
pub struct Panicked {
    pub file: String,
    pub line: u32,
    pub msg: String,
}

impl Panicked {
    /// repository-relative file of the panic site (or the raw file)
    pub fn site(&self) -> String {
        match self.file.find("crates/") {
            Some(i) if self.file.starts_with("/repo/") || self.file.starts_with("crates/") => self.file[i..].to_string(),
            _ => {
                // dependency: keep crate dir name only
                match self.file.find("registry/src/") {
                    Some(i) => {
                        let rest = &self.file[i + "registry/src/".len()..];
                        let mut parts = rest.splitn(3, '/');
                        let _ = parts.next();
                        let krate = parts.next().unwrap_or("");
                        let file = parts.next().unwrap_or("");
                        format!("dep:{krate}/{file}")
                    }
                    None => self.file.clone(),
                }
            }
        }
    }
    /// message with digits / quoted names removed so it is stable across inputs
    pub fn msg_class(&self) -> String {
        let mut out = String::new();
        let mut in_quote: Option<char> = None;
        // first line only: the rest is payload (Debug dumps of the values involved)
        for c in self.msg.lines().next().unwrap_or("").chars() {
            if let Some(q) = in_quote {
                if c == q {
                    in_quote = None;
                    out.push('_');
                }
                continue;
            }
            if c == '\'' || c == '"' || c == '`' {
                in_quote = Some(c);
                continue;
            }
            if c.is_ascii_digit() {
                if !out.ends_with('#') {
                    out.push('#');
                }
                continue;
            }
            out.push(c);
        }
        out.chars().take(60).collect()
    }
}

static PRINT: std::sync::atomic::AtomicBool = std::sync::atomic::AtomicBool::new(false);

/// print a compact line for every panic (used by engines where a panic aborts the process)
pub fn set_print(b: bool) {
    PRINT.store(b, std::sync::atomic::Ordering::Relaxed);
}

thread_local! {
    static LAST: RefCell<Option<Panicked>> = const { RefCell::new(None) };
}

pub fn install_hook() {
    panic::set_hook(Box::new(|info| {
        let (file, line) = match info.location() {
            Some(l) => (l.file().to_string(), l.line()),
            None => ("?".to_string(), 0),
        };
        let msg = if let Some(s) = info.payload().downcast_ref::<&str>() {
            s.to_string()
        } else if let Some(s) = info.payload().downcast_ref::<String>() {
            s.clone()
        } else {
            "?".to_string()
        };
        let p = Panicked { file, line, msg };
        if PRINT.load(std::sync::atomic::Ordering::Relaxed) {
            // one compact line so that a process that aborts (panic inside `extern "C"`) still tells where
            eprintln!("NQV-PANIC-CLASS {}|{}", p.site(), p.msg_class());
            eprintln!("NQV-PANIC {}:{} {}", p.file, p.line, p.msg.replace('\n', " "));
        }
        LAST.with(|l| *l.borrow_mut() = Some(p));
    }));
}

pub fn guarded<T>(f: impl FnOnce() -> T) -> Result<T, Panicked> {
    LAST.with(|l| *l.borrow_mut() = None);
    match panic::catch_unwind(AssertUnwindSafe(f)) {
        Ok(v) => Ok(v),
        Err(_) => Err(LAST.with(|l| l.borrow_mut().take()).unwrap_or(Panicked {
            file: "?".into(),
            line: 0,
            msg: "?".into(),
        })),
    }
}
