//! Extractors: walk nitrogql's public AST into the harness model (with positions).

use nitrogql_ast::base::{Ident, Pos};
use nitrogql_ast::directive::Directive;
use nitrogql_ast::operation::{ExecutableDefinition, FragmentDefinition, OperationDefinition, OperationType};
use nitrogql_ast::operation_ext::{ExecutableDefinitionExt, ImportTarget};
use nitrogql_ast::selection_set::{Selection, SelectionSet};
use nitrogql_ast::r#type::Type;
use nitrogql_ast::type_system::*;
use nitrogql_ast::value::{StringValue, Value};
use nitrogql_ast::{OperationDocument, OperationDocumentExt, TypeSystemDocument, TypeSystemOrExtensionDocument};

use crate::model::*;

fn p(pos: &Pos) -> P {
    if pos.builtin {
        P::none()
    } else {
        // nitrogql has one column number; keep it in both fields (comparison accepts either unit)
        P { line: pos.line as u32, col: pos.column as u32, col16: pos.column as u32, set: true }
    }
}

fn name(i: &Ident) -> Name {
    Name { s: i.name.to_string(), p: p(&i.position) }
}

pub fn ty(t: &Type) -> Ty {
    match t {
        Type::Named(n) => Ty::Named(name(&n.name)),
        Type::List(l) => Ty::List(Box::new(ty(&l.r#type)), p(&l.position)),
        Type::NonNull(n) => Ty::NonNull(Box::new(ty(&n.r#type))),
    }
}

fn strlit(s: &StringValue) -> StrLit {
    StrLit { value: s.value.clone(), p: p(&s.position), block: false, raw: None }
}

pub fn val(v: &Value) -> Val {
    match v {
        Value::Variable(v) => Val::Var(Name { s: v.name.to_string(), p: p(&v.position) }),
        Value::IntValue(v) => Val::Int(v.value.to_string(), p(&v.position)),
        Value::FloatValue(v) => Val::Float(v.value.to_string(), p(&v.position)),
        Value::StringValue(s) => Val::Str(strlit(s)),
        Value::BooleanValue(b) => Val::Bool(b.value, p(&b.position)),
        Value::NullValue(n) => Val::Null(p(&n.position)),
        Value::EnumValue(e) => Val::Enum(e.value.to_string(), p(&e.position)),
        Value::ListValue(l) => Val::List(l.values.iter().map(val).collect(), p(&l.position)),
        Value::ObjectValue(o) => Val::Obj(o.fields.iter().map(|(k, v)| (name(k), val(v))).collect(), p(&o.position)),
    }
}

fn args(a: &Option<nitrogql_ast::value::Arguments>) -> (Vec<(Name, Val)>, P) {
    match a {
        None => (vec![], P::none()),
        Some(a) => (a.arguments.iter().map(|(k, v)| (name(k), val(v))).collect(), p(&a.position)),
    }
}

pub fn dir(d: &Directive) -> Dir {
    let (a, ap) = args(&d.arguments);
    Dir { name: name(&d.name), p: p(&d.position), args: a, args_p: ap }
}

fn dirs(ds: &[Directive]) -> Vec<Dir> {
    ds.iter().map(dir).collect()
}

pub fn selset(s: &SelectionSet) -> SelSet {
    SelSet {
        p: p(&s.position),
        items: s
            .selections
            .iter()
            .map(|s| match s {
                Selection::Field(f) => {
                    let (a, ap) = args(&f.arguments);
                    Sel::Field(Field { alias: f.alias.as_ref().map(name), name: name(&f.name), args: a, args_p: ap, dirs: dirs(&f.directives), sels: f.selection_set.as_ref().map(selset) })
                }
                Selection::FragmentSpread(s) => Sel::Spread { p: p(&s.position), name: name(&s.fragment_name), dirs: dirs(&s.directives) },
                Selection::InlineFragment(i) => Sel::Inline { p: p(&i.position), cond: i.type_condition.as_ref().map(name), dirs: dirs(&i.directives), sels: selset(&i.selection_set) },
            })
            .collect(),
    }
}

fn opkind(k: OperationType) -> OpKind {
    match k {
        OperationType::Query => OpKind::Query,
        OperationType::Mutation => OpKind::Mutation,
        OperationType::Subscription => OpKind::Subscription,
    }
}

pub fn opdef(o: &OperationDefinition) -> OpDef {
    let (vars, vars_p) = match &o.variables_definition {
        None => (vec![], P::none()),
        Some(v) => (
            v.definitions
                .iter()
                .map(|d| VarDef {
                    p: p(&d.pos),
                    name: Name { s: d.name.name.to_string(), p: p(&d.name.position) },
                    ty: ty(&d.r#type),
                    default: d.default_value.as_ref().map(val),
                    dirs: dirs(&d.directives),
                })
                .collect(),
            p(&v.position),
        ),
    };
    OpDef { p: p(&o.position), kind: opkind(o.operation_type), name: o.name.as_ref().map(name), vars, vars_p, dirs: dirs(&o.directives), sels: selset(&o.selection_set), shorthand: false }
}

pub fn fragdef(f: &FragmentDefinition) -> FragDef {
    FragDef { p: p(&f.position), name: name(&f.name), cond: name(&f.type_condition), dirs: dirs(&f.directives), sels: selset(&f.selection_set) }
}

pub fn exec_doc_ext(d: &OperationDocumentExt) -> ExecDoc {
    ExecDoc {
        defs: d
            .definitions
            .iter()
            .map(|d| match d {
                ExecutableDefinitionExt::OperationDefinition(o) => ExecDef::Op(opdef(o)),
                ExecutableDefinitionExt::FragmentDefinition(f) => ExecDef::Frag(fragdef(f)),
                ExecutableDefinitionExt::Import(i) => ExecDef::Import(Import {
                    p: p(&i.position),
                    targets: i
                        .targets
                        .iter()
                        .map(|t| match t {
                            ImportTarget::Wildcard => None,
                            ImportTarget::Name(n) => Some(name(n)),
                        })
                        .collect(),
                    path: strlit(&i.path),
                }),
            })
            .collect(),
    }
}

pub fn exec_doc(d: &OperationDocument) -> ExecDoc {
    ExecDoc {
        defs: d
            .definitions
            .iter()
            .map(|d| match d {
                ExecutableDefinition::OperationDefinition(o) => ExecDef::Op(opdef(o)),
                ExecutableDefinition::FragmentDefinition(f) => ExecDef::Frag(fragdef(f)),
            })
            .collect(),
    }
}

fn ivd(v: &InputValueDefinition) -> InputValueDef {
    InputValueDef { desc: v.description.as_ref().map(strlit), name: name(&v.name), ty: ty(&v.r#type), default: v.default_value.as_ref().map(val), dirs: dirs(&v.directives) }
}

fn argdefs(a: &Option<ArgumentsDefinition>) -> Vec<InputValueDef> {
    a.as_ref().map(|a| a.input_values.iter().map(ivd).collect()).unwrap_or_default()
}

fn fielddef(f: &FieldDefinition) -> FieldDef {
    FieldDef { desc: f.description.as_ref().map(strlit), name: name(&f.name), args: argdefs(&f.arguments), ty: ty(&f.r#type), dirs: dirs(&f.directives) }
}

fn enumval(v: &EnumValueDefinition) -> EnumValDef {
    EnumValDef { desc: v.description.as_ref().map(strlit), name: name(&v.name), dirs: dirs(&v.directives) }
}

pub fn type_def(t: &TypeDefinition) -> TypeDef {
    match t {
        TypeDefinition::Scalar(d) => TypeDef { desc: d.description.as_ref().map(strlit), p: p(&d.position), name: name(&d.name), dirs: dirs(&d.directives), ..TypeDef::new(TKind::Scalar, "") },
        TypeDefinition::Object(d) => TypeDef {
            desc: d.description.as_ref().map(strlit),
            p: p(&d.position),
            name: name(&d.name),
            implements: d.implements.iter().map(name).collect(),
            dirs: dirs(&d.directives),
            fields: d.fields.iter().map(fielddef).collect(),
            ..TypeDef::new(TKind::Object, "")
        },
        TypeDefinition::Interface(d) => TypeDef {
            desc: d.description.as_ref().map(strlit),
            p: p(&d.position),
            name: name(&d.name),
            implements: d.implements.iter().map(name).collect(),
            dirs: dirs(&d.directives),
            fields: d.fields.iter().map(fielddef).collect(),
            ..TypeDef::new(TKind::Interface, "")
        },
        TypeDefinition::Union(d) => TypeDef { desc: d.description.as_ref().map(strlit), p: p(&d.position), name: name(&d.name), dirs: dirs(&d.directives), members: d.members.iter().map(name).collect(), ..TypeDef::new(TKind::Union, "") },
        TypeDefinition::Enum(d) => TypeDef { desc: d.description.as_ref().map(strlit), p: p(&d.position), name: name(&d.name), dirs: dirs(&d.directives), values: d.values.iter().map(enumval).collect(), ..TypeDef::new(TKind::Enum, "") },
        TypeDefinition::InputObject(d) => TypeDef { desc: d.description.as_ref().map(strlit), p: p(&d.position), name: name(&d.name), dirs: dirs(&d.directives), input_fields: d.fields.iter().map(ivd).collect(), ..TypeDef::new(TKind::Input, "") },
    }
}

pub fn type_ext(t: &TypeExtension) -> TypeDef {
    let mut td = match t {
        TypeExtension::Scalar(d) => TypeDef { p: p(&d.position), name: name(&d.name), dirs: dirs(&d.directives), ..TypeDef::new(TKind::Scalar, "") },
        TypeExtension::Object(d) => TypeDef { p: p(&d.position), name: name(&d.name), implements: d.implements.iter().map(name).collect(), dirs: dirs(&d.directives), fields: d.fields.iter().map(fielddef).collect(), ..TypeDef::new(TKind::Object, "") },
        TypeExtension::Interface(d) => TypeDef { p: p(&d.position), name: name(&d.name), implements: d.implements.iter().map(name).collect(), dirs: dirs(&d.directives), fields: d.fields.iter().map(fielddef).collect(), ..TypeDef::new(TKind::Interface, "") },
        TypeExtension::Union(d) => TypeDef { p: p(&d.position), name: name(&d.name), dirs: dirs(&d.directives), members: d.members.iter().map(name).collect(), ..TypeDef::new(TKind::Union, "") },
        TypeExtension::Enum(d) => TypeDef { p: p(&d.position), name: name(&d.name), dirs: dirs(&d.directives), values: d.values.iter().map(enumval).collect(), ..TypeDef::new(TKind::Enum, "") },
        TypeExtension::InputObject(d) => TypeDef { p: p(&d.position), name: name(&d.name), dirs: dirs(&d.directives), input_fields: d.fields.iter().map(ivd).collect(), ..TypeDef::new(TKind::Input, "") },
    };
    td.ext = true;
    td
}

fn schema_def(s: &SchemaDefinition) -> SchemaDef {
    SchemaDef { ext: false, desc: s.description.as_ref().map(strlit), p: p(&s.position), dirs: dirs(&s.directives), roots: s.definitions.iter().map(|(k, n)| (opkind(*k), name(n))).collect() }
}

fn directive_def(d: &DirectiveDefinition) -> DirectiveDef {
    DirectiveDef {
        desc: d.description.as_ref().map(strlit),
        p: p(&d.position),
        name: name(&d.name),
        args: argdefs(&d.arguments),
        repeatable: d.repeatable.is_some(),
        repeatable_p: d.repeatable.as_ref().map(|r| p(&r.position)).unwrap_or_default(),
        locations: d.locations.iter().map(name).collect(),
    }
}

pub fn ts_doc_ext(d: &TypeSystemOrExtensionDocument) -> TsDoc {
    TsDoc {
        defs: d
            .definitions
            .iter()
            .map(|d| match d {
                TypeSystemDefinitionOrExtension::SchemaDefinition(s) => TsDef::Schema(schema_def(s)),
                TypeSystemDefinitionOrExtension::TypeDefinition(t) => TsDef::Type(type_def(t)),
                TypeSystemDefinitionOrExtension::DirectiveDefinition(d) => TsDef::Directive(directive_def(d)),
                TypeSystemDefinitionOrExtension::SchemaExtension(s) => TsDef::Schema(SchemaDef { ext: true, desc: None, p: p(&s.position), dirs: dirs(&s.directives), roots: s.definitions.iter().map(|(k, n)| (opkind(*k), name(n))).collect() }),
                TypeSystemDefinitionOrExtension::TypeExtension(t) => TsDef::Type(type_ext(t)),
            })
            .collect(),
    }
}

pub fn ts_doc(d: &TypeSystemDocument) -> TsDoc {
    TsDoc {
        defs: d
            .definitions
            .iter()
            .map(|d| match d {
                TypeSystemDefinition::SchemaDefinition(s) => TsDef::Schema(schema_def(s)),
                TypeSystemDefinition::TypeDefinition(t) => TsDef::Type(type_def(t)),
                TypeSystemDefinition::DirectiveDefinition(d) => TsDef::Directive(directive_def(d)),
            })
            .collect(),
    }
}
