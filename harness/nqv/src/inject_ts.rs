//! Labelled single-fault injectors for type-system documents (C05, C18).

use crate::model::*;
use crate::rng::Rng;
use crate::schema_ix::SchemaIx;

pub struct Fault {
    pub doc: TsDoc,
    /// rule prefix the reference validator must report (e.g. "TS7")
    pub rule: &'static str,
    /// finer label: which variant of the rule and at which kind of site
    pub label: String,
}

fn types_mut(doc: &mut TsDoc) -> Vec<&mut TypeDef> {
    doc.defs.iter_mut().filter_map(|d| if let TsDef::Type(t) = d { Some(t) } else { None }).collect()
}

fn pick_type<'a>(doc: &'a mut TsDoc, rng: &mut Rng, pred: impl Fn(&TypeDef) -> bool) -> Option<&'a mut TypeDef> {
    let mut c: Vec<&mut TypeDef> = types_mut(doc).into_iter().filter(|t| !t.ext && pred(t)).collect();
    if c.is_empty() {
        return None;
    }
    let i = rng.below(c.len());
    Some(c.swap_remove(i))
}

fn kind_label(k: TKind) -> &'static str {
    match k {
        TKind::Scalar => "scalar",
        TKind::Object => "object",
        TKind::Interface => "interface",
        TKind::Union => "union",
        TKind::Enum => "enum",
        TKind::Input => "input-object",
    }
}

/// a constant that is not a value of `ty`, the fault as deep inside list literals as the type allows
fn ill_typed(rng: &mut Rng, ix: &SchemaIx, ty: &Ty) -> Val {
    match ty {
        Ty::NonNull(inner) => if rng.chance(1, 3) { Val::null() } else { ill_typed(rng, ix, inner) },
        Ty::List(inner, _) => {
            if rng.chance(1, 3) {
                // one level deeper than the type: a list where an item (or a single value) is expected
                Val::list(vec![crate::gen_schema::gen_const(rng, ix, &Ty::non_null(ty.clone()), 1, false)])
            } else {
                let mut items = vec![];
                if rng.coin() {
                    items.push(crate::gen_schema::gen_const(rng, ix, &Ty::non_null((**inner).clone()), 1, false));
                }
                items.push(ill_typed(rng, ix, inner));
                Val::list(items)
            }
        }
        Ty::Named(n) => match n.s.as_str() {
            "Boolean" => Val::str("yes"),
            "Int" => Val::str("one"),
            _ => Val::boolean(true),
        },
    }
}

const N_INJECTORS: usize = 36;

pub fn inject(rng: &mut Rng, base: &TsDoc) -> Option<Fault> {
    for _ in 0..40 {
        let which = rng.below(N_INJECTORS);
        if let Some(f) = inject_one(rng, base, which) {
            return Some(f);
        }
    }
    None
}

pub fn inject_one(rng: &mut Rng, base: &TsDoc, which: usize) -> Option<Fault> {
    let mut doc = base.clone();
    let ix = SchemaIx::new(&crate::schema_ix::merge_extensions(base));
    let names_of = |k: TKind| -> Vec<String> { ix.order.iter().filter(|n| ix.kind(n) == Some(k) && !crate::schema_ix::BUILTIN_SCALARS.contains(&n.as_str())).cloned().collect() };
    let objects = names_of(TKind::Object);
    let interfaces = names_of(TKind::Interface);
    let inputs = names_of(TKind::Input);
    let enums = names_of(TKind::Enum);
    let unions = names_of(TKind::Union);
    macro_rules! done {
        ($rule:expr, $label:expr) => {
            return Some(Fault { doc, rule: $rule, label: $label.to_string() })
        };
    }
    match which {
        // ---------------- TS1 reserved names
        0 => {
            let t = pick_type(&mut doc, rng, |t| t.kind != TKind::Scalar || true)?;
            let k = t.kind;
            let old = t.name.s.clone();
            // renaming a referenced type would create unknown-type faults too: only rename unreferenced ones
            let referenced = base.defs.iter().any(|d| match d {
                TsDef::Type(x) => {
                    x.name.s != old && (x.fields.iter().any(|f| f.ty.base() == old || f.args.iter().any(|a| a.ty.base() == old)) || x.input_fields.iter().any(|f| f.ty.base() == old) || x.members.iter().any(|m| m.s == old) || x.implements.iter().any(|m| m.s == old))
                        || (x.name.s == old && x.ext)
                        || x.fields.iter().any(|f| f.ty.base() == old)
                        || x.input_fields.iter().any(|f| f.ty.base() == old)
                }
                TsDef::Schema(s) => s.roots.iter().any(|(_, n)| n.s == old),
                TsDef::Directive(d) => d.args.iter().any(|a| a.ty.base() == old),
            }) || matches!(old.as_str(), "Query" | "Mutation" | "Subscription");
            if referenced {
                return None;
            }
            t.name.s = format!("__{old}");
            done!("TS1", format!("reserved-type-name|{}", kind_label(k)));
        }
        1 => {
            let t = pick_type(&mut doc, rng, |t| !t.fields.is_empty() && t.kind == TKind::Object && t.implements.is_empty())?;
            let i = rng.below(t.fields.len());
            t.fields[i].name.s = format!("__{}", t.fields[i].name.s);
            done!("TS1", "reserved-field-name|object");
        }
        2 => {
            let t = pick_type(&mut doc, rng, |t| t.kind == TKind::Object && t.implements.is_empty() && t.fields.iter().any(|f| !f.args.is_empty()))?;
            let fs: Vec<usize> = (0..t.fields.len()).filter(|i| !t.fields[*i].args.is_empty()).collect();
            let f = &mut t.fields[fs[rng.below(fs.len())]];
            let j = rng.below(f.args.len());
            f.args[j].name.s = format!("__{}", f.args[j].name.s);
            done!("TS1", "reserved-argument-name|field");
        }
        3 => {
            let t = pick_type(&mut doc, rng, |t| t.kind == TKind::Input && !t.input_fields.is_empty())?;
            let j = rng.below(t.input_fields.len());
            // the field may be referenced by default values elsewhere; pick only if nobody names it
            let n = t.input_fields[j].name.s.clone();
            t.input_fields[j].name.s = format!("__{n}");
            done!("TS1", "reserved-input-field-name");
        }
        4 => {
            let d = doc.defs.iter_mut().find_map(|d| if let TsDef::Directive(x) = d { Some(x) } else { None })?;
            let old = d.name.s.clone();
            if format!("{:?}", base).matches(&format!("s: \"{old}\"")).count() > 1 {
                return None; // applied somewhere
            }
            d.name.s = format!("__{old}");
            done!("TS1", "reserved-directive-name");
        }
        // ---------------- TS2 duplicates
        5 => {
            let t = pick_type(&mut doc, rng, |t| matches!(t.kind, TKind::Object | TKind::Interface) && !t.fields.is_empty())?;
            let k = t.kind;
            let f = t.fields[rng.below(t.fields.len())].clone();
            t.fields.push(f);
            done!("TS2", format!("duplicate-field|{}", kind_label(k)));
        }
        6 => {
            let t = pick_type(&mut doc, rng, |t| matches!(t.kind, TKind::Object | TKind::Interface) && t.fields.iter().any(|f| !f.args.is_empty()))?;
            let fs: Vec<usize> = (0..t.fields.len()).filter(|i| !t.fields[*i].args.is_empty()).collect();
            let f = &mut t.fields[fs[rng.below(fs.len())]];
            let a = f.args[rng.below(f.args.len())].clone();
            f.args.push(a);
            done!("TS2", "duplicate-argument|field");
        }
        7 => {
            let t = pick_type(&mut doc, rng, |t| t.kind == TKind::Enum && !t.values.is_empty())?;
            let v = t.values[rng.below(t.values.len())].clone();
            t.values.push(v);
            done!("TS2", "duplicate-enum-value");
        }
        8 => {
            let t = pick_type(&mut doc, rng, |t| t.kind == TKind::Union && !t.members.is_empty())?;
            let v = t.members[rng.below(t.members.len())].clone();
            t.members.push(v);
            done!("TS2", "duplicate-union-member");
        }
        9 => {
            let t = pick_type(&mut doc, rng, |_| true)?.clone();
            let k = t.kind;
            doc.defs.push(TsDef::Type(t));
            done!("TS2", format!("duplicate-type-definition|{}", kind_label(k)));
        }
        10 => {
            let t = pick_type(&mut doc, rng, |t| t.kind == TKind::Input && !t.input_fields.is_empty())?;
            let v = t.input_fields[rng.below(t.input_fields.len())].clone();
            t.input_fields.push(v);
            done!("TS2", "duplicate-input-field");
        }
        // ---------------- TS3 unknown types
        11 => {
            let t = pick_type(&mut doc, rng, |t| matches!(t.kind, TKind::Object | TKind::Interface) && t.implements.is_empty() && !t.fields.is_empty())?;
            let k = t.kind;
            // interface fields are mirrored by implementers: only touch interfaces nobody implements
            if k == TKind::Interface && !ix.possible(&t.name.s).is_empty() {
                return None;
            }
            if k == TKind::Interface && base.types().any(|x| x.implements.iter().any(|i| i.s == t.name.s)) {
                return None;
            }
            let i = rng.below(t.fields.len());
            t.fields[i].ty = t.fields[i].ty.with_base("Nope");
            done!("TS3", format!("unknown-field-type|{}", kind_label(k)));
        }
        12 => {
            let t = pick_type(&mut doc, rng, |t| t.kind == TKind::Object && t.implements.is_empty() && t.fields.iter().any(|f| !f.args.is_empty()))?;
            let fs: Vec<usize> = (0..t.fields.len()).filter(|i| !t.fields[*i].args.is_empty()).collect();
            let f = &mut t.fields[fs[rng.below(fs.len())]];
            let j = rng.below(f.args.len());
            f.args[j].ty = f.args[j].ty.with_base("Nope");
            f.args[j].default = None;
            done!("TS3", "unknown-argument-type|object-field");
        }
        13 => {
            let t = pick_type(&mut doc, rng, |t| t.kind == TKind::Input && !t.input_fields.is_empty())?;
            let j = rng.below(t.input_fields.len());
            t.input_fields[j].ty = t.input_fields[j].ty.with_base("Nope");
            t.input_fields[j].default = None;
            done!("TS3", "unknown-input-field-type");
        }
        14 => {
            let t = pick_type(&mut doc, rng, |t| t.kind == TKind::Union)?;
            t.members.push(nm("Nope"));
            done!("TS3", "unknown-union-member");
        }
        15 => {
            let t = pick_type(&mut doc, rng, |t| matches!(t.kind, TKind::Object | TKind::Interface))?;
            let k = t.kind;
            t.implements.push(nm("Nope"));
            done!("TS3", format!("unknown-interface-in-implements|{}", kind_label(k)));
        }
        // ---------------- TS4 input/output misuse
        16 => {
            let input = rng.pick_opt(&inputs)?.clone();
            let t = pick_type(&mut doc, rng, |t| t.kind == TKind::Object && t.implements.is_empty() && !t.fields.is_empty())?;
            let i = rng.below(t.fields.len());
            t.fields[i].ty = t.fields[i].ty.with_base(&input);
            done!("TS4", "input-type-in-output-position|object-field");
        }
        17 => {
            let out_ty = rng.pick_opt(&objects)?.clone();
            let t = pick_type(&mut doc, rng, |t| t.kind == TKind::Object && t.implements.is_empty() && t.fields.iter().any(|f| !f.args.is_empty()))?;
            let fs: Vec<usize> = (0..t.fields.len()).filter(|i| !t.fields[*i].args.is_empty()).collect();
            let f = &mut t.fields[fs[rng.below(fs.len())]];
            let j = rng.below(f.args.len());
            f.args[j].ty = f.args[j].ty.with_base(&out_ty);
            f.args[j].default = None;
            done!("TS4", "output-type-in-input-position|argument");
        }
        18 => {
            let mut pool = objects.clone();
            pool.extend(interfaces.clone());
            pool.extend(unions.clone());
            let out_ty = rng.pick_opt(&pool)?.clone();
            let t = pick_type(&mut doc, rng, |t| t.kind == TKind::Input && !t.input_fields.is_empty())?;
            let j = rng.below(t.input_fields.len());
            t.input_fields[j].ty = t.input_fields[j].ty.with_base(&out_ty);
            t.input_fields[j].default = None;
            done!("TS4", "output-type-in-input-position|input-field");
        }
        // ---------------- TS5 implements
        19 => {
            let mut pool = objects.clone();
            pool.extend(enums.clone());
            pool.extend(unions.clone());
            let bad = rng.pick_opt(&pool)?.clone();
            let t = pick_type(&mut doc, rng, |t| t.kind == TKind::Object && t.name.s != bad)?;
            t.implements.push(nm(&bad));
            done!("TS5", "implements-non-interface|object");
        }
        20 => {
            let t = pick_type(&mut doc, rng, |t| t.kind == TKind::Interface)?;
            let n = t.name.s.clone();
            t.implements.push(nm(&n));
            done!("TS5", "interface-implements-itself");
        }
        // ---------------- TS6 missing transitive interface
        21 => {
            // an implementer of interface I where I implements J: drop J
            let cands: Vec<(String, String)> = base
                .types()
                .filter(|t| !t.ext && matches!(t.kind, TKind::Object | TKind::Interface))
                .flat_map(|t| {
                    let mut v = vec![];
                    for i in &t.implements {
                        if let Some(idef) = ix.ty(&i.s) {
                            for j in &idef.implements {
                                if t.implements.iter().any(|x| x.s == j.s) {
                                    v.push((t.name.s.clone(), j.s.clone()));
                                }
                            }
                        }
                    }
                    v
                })
                .collect();
            let (tn, j) = rng.pick_opt(&cands)?.clone();
            for t in types_mut(&mut doc) {
                if t.name.s == tn {
                    t.implements.retain(|x| x.s != j);
                }
            }
            done!("TS6", "transitive-interface-missing");
        }
        // ---------------- TS7 interface fields
        22 | 23 | 24 | 25 | 26 => {
            // (implementer, interface, field) triples
            let mut triples: Vec<(String, String, String)> = vec![];
            for t in base.types().filter(|t| !t.ext && matches!(t.kind, TKind::Object | TKind::Interface)) {
                for i in &t.implements {
                    if let Some(idef) = ix.ty(&i.s) {
                        for f in &idef.fields {
                            triples.push((t.name.s.clone(), i.s.clone(), f.name.s.clone()));
                        }
                    }
                }
            }
            let (tn, iname, fname) = rng.pick_opt(&triples)?.clone();
            let ifield = ix.field(&iname, &fname)?;
            // the implementer may hold the field in an extension: work on the definition or extension that has it
            let holder = types_mut(&mut doc).into_iter().find(|t| t.name.s == tn && t.fields.iter().any(|f| f.name.s == fname))?;
            let kind = holder.kind;
            // other interfaces implemented by the same type may demand the same field: the fault is still single-rule (TS7)
            let fi = holder.fields.iter().position(|f| f.name.s == fname)?;
            match which {
                22 => {
                    holder.fields.remove(fi);
                    if holder.fields.is_empty() && (!holder.ext || (holder.dirs.is_empty() && holder.implements.is_empty())) {
                        // (an extension left without any content would be a syntax error, not this fault)
                        holder.fields.push(FieldDef { desc: None, name: nm("filler"), args: vec![], ty: Ty::named("Int"), dirs: vec![] });
                    }
                    done!("TS7", format!("interface-field-missing|{}", kind_label(kind)));
                }
                23 => {
                    // non-covariant: a different leaf type / nullable where the interface says non-null
                    let f = &mut holder.fields[fi];
                    if ifield.ty.is_non_null() && rng.coin() {
                        f.ty = ifield.ty.nullable().clone();
                        done!("TS7", format!("interface-field-type|nullable-for-non-null|{}", kind_label(kind)));
                    }
                    match rng.below(4) {
                        0 => {
                            // list shape: one wrapper more / one less
                            if let Ty::List(inner, _) = ifield.ty.nullable() {
                                f.ty = inner.nullable().clone();
                                done!("TS7", format!("interface-field-type|named-for-list|{}", kind_label(kind)));
                            }
                            f.ty = Ty::list(ifield.ty.clone());
                            done!("TS7", format!("interface-field-type|list-for-named|{}", kind_label(kind)));
                        }
                        _ => {
                            // an output type of a chosen kind that is not a subtype of what the interface promises
                            let want = ifield.ty.base().to_string();
                            let kinds = [TKind::Scalar, TKind::Enum, TKind::Object, TKind::Interface, TKind::Union];
                            let k = kinds[rng.below(kinds.len())];
                            let cands: Vec<String> = ix.order.iter().filter(|t| ix.kind(t) == Some(k) && **t != want && !ix.is_subtype(&Ty::named(t), &Ty::named(&want))).cloned().collect();
                            let other = rng.pick_opt(&cands)?.clone();
                            f.ty = ifield.ty.with_base(&other);
                            let kl = |k: Option<TKind>| match k { Some(TKind::Scalar) => "scalar", Some(TKind::Enum) => "enum", Some(TKind::Object) => "object", Some(TKind::Interface) => "interface", Some(TKind::Union) => "union", _ => "other" };
                            done!("TS7", format!("interface-field-type|unrelated-type|implementer-has={}|interface-has={}|{}", kl(Some(k)), kl(ix.kind(&want)), kind_label(kind)));
                        }
                    }
                }
                24 => {
                    if ifield.args.is_empty() {
                        return None;
                    }
                    let f = &mut holder.fields[fi];
                    let an = ifield.args[rng.below(ifield.args.len())].name.s.clone();
                    f.args.retain(|a| a.name.s != an);
                    done!("TS7", format!("interface-argument-missing|{}", kind_label(kind)));
                }
                25 => {
                    if ifield.args.is_empty() {
                        return None;
                    }
                    let f = &mut holder.fields[fi];
                    let an = ifield.args[rng.below(ifield.args.len())].name.s.clone();
                    let a = f.args.iter_mut().find(|a| a.name.s == an)?;
                    // argument types are invariant: another named type, another nullability, the same wrappers in another
                    // arrangement (`[T!]` / `[T]!`, `[T]` / `T!`), a list for a named type
                    let old = a.ty.clone();
                    let how = match rng.below(4) {
                        0 => {
                            let other = if a.ty.base() == "Int" { "String" } else { "Int" };
                            a.ty = a.ty.with_base(other);
                            "named-type"
                        }
                        1 => {
                            a.ty = match &old {
                                Ty::NonNull(inner) => (**inner).clone(),
                                t => Ty::non_null(t.clone()),
                            };
                            "nullability"
                        }
                        2 => {
                            a.ty = match &old {
                                Ty::List(inner, _) => match &**inner {
                                    Ty::NonNull(x) => Ty::non_null(Ty::list((**x).clone())),
                                    x => Ty::non_null(x.clone()),
                                },
                                Ty::NonNull(inner) => match &**inner {
                                    Ty::List(x, _) => Ty::list(Ty::non_null((**x).clone())),
                                    x => Ty::list(x.clone()),
                                },
                                t => Ty::list(t.clone()),
                            };
                            "wrappers-rearranged"
                        }
                        _ => {
                            a.ty = Ty::list(old.clone());
                            "list-for-item"
                        }
                    };
                    if a.ty == old {
                        return None;
                    }
                    a.default = None;
                    done!("TS7", format!("interface-argument-type|{how}|{}", kind_label(kind)));
                }
                _ => {
                    let f = &mut holder.fields[fi];
                    if f.args.iter().any(|a| a.name.s == "must") {
                        return None;
                    }
                    f.args.push(InputValueDef { desc: None, name: nm("must"), ty: Ty::non_null(Ty::named("Int")), default: None, dirs: vec![] });
                    done!("TS7", format!("interface-extra-required-argument|{}", kind_label(kind)));
                }
            }
        }
        // ---------------- TS8 union member not an object
        27 => {
            let mut pool = interfaces.clone();
            pool.extend(enums.clone());
            pool.extend(inputs.clone());
            pool.push("Int".into());
            let bad = rng.pick_opt(&pool)?.clone();
            let t = pick_type(&mut doc, rng, |t| t.kind == TKind::Union)?;
            let cls = match ix.kind(&bad) {
                Some(k) => kind_label(k),
                None => "?",
            };
            t.members.push(nm(&bad));
            done!("TS8", format!("union-member-not-object|{cls}"));
        }
        // ---------------- TS9 directive applications
        28 | 29 | 30 | 31 | 32 => {
            // choose an application site
            #[derive(Clone, Copy, PartialEq)]
            enum Site {
                Type,
                Field,
                Arg,
                EnumValue,
                InputField,
            }
            let site = *rng.pick(&[Site::Type, Site::Field, Site::Arg, Site::EnumValue, Site::InputField]);
            let t = pick_type(&mut doc, rng, |t| match site {
                Site::Type => true,
                Site::Field => matches!(t.kind, TKind::Object | TKind::Interface) && !t.fields.is_empty(),
                Site::Arg => matches!(t.kind, TKind::Object) && t.implements.is_empty() && t.fields.iter().any(|f| !f.args.is_empty()),
                Site::EnumValue => t.kind == TKind::Enum && !t.values.is_empty(),
                Site::InputField => t.kind == TKind::Input && !t.input_fields.is_empty(),
            })?;
            let (loc, site_label): (&str, String) = match site {
                Site::Type => (
                    match t.kind {
                        TKind::Scalar => "SCALAR",
                        TKind::Object => "OBJECT",
                        TKind::Interface => "INTERFACE",
                        TKind::Union => "UNION",
                        TKind::Enum => "ENUM",
                        TKind::Input => "INPUT_OBJECT",
                    },
                    kind_label(t.kind).to_string(),
                ),
                Site::Field => ("FIELD_DEFINITION", format!("{}-field", kind_label(t.kind))),
                Site::Arg => ("ARGUMENT_DEFINITION", "argument".into()),
                Site::EnumValue => ("ENUM_VALUE", "enum-value".into()),
                Site::InputField => ("INPUT_FIELD_DEFINITION", "input-field".into()),
            };
            let dirs: &mut Vec<Dir> = match site {
                Site::Type => &mut t.dirs,
                Site::Field => {
                    let i = rng.below(t.fields.len());
                    &mut t.fields[i].dirs
                }
                Site::Arg => {
                    let fs: Vec<usize> = (0..t.fields.len()).filter(|i| !t.fields[*i].args.is_empty()).collect();
                    let f = &mut t.fields[fs[rng.below(fs.len())]];
                    let j = rng.below(f.args.len());
                    &mut f.args[j].dirs
                }
                Site::EnumValue => {
                    let i = rng.below(t.values.len());
                    &mut t.values[i].dirs
                }
                Site::InputField => {
                    let i = rng.below(t.input_fields.len());
                    &mut t.input_fields[i].dirs
                }
            };
            match which {
                28 => {
                    dirs.push(Dir::new("nope", vec![]));
                    done!("TS9", format!("directive-unknown|{site_label}"));
                }
                29 => {
                    // a defined directive that does not list this location
                    let cands: Vec<&DirectiveDef> = ix.directives.values().filter(|d| !d.locations.iter().any(|l| l.s == loc) && !d.args.iter().any(|a| a.ty.is_non_null() && a.default.is_none())).collect();
                    let d = rng.pick_opt(&cands)?;
                    dirs.push(Dir::new(&d.name.s, vec![]));
                    done!("TS9", format!("directive-misplaced|{site_label}"));
                }
                30 => {
                    // repeat a non-repeatable directive that is legal here
                    let cands: Vec<&DirectiveDef> = ix.directives.values().filter(|d| !d.repeatable && d.locations.iter().any(|l| l.s == loc) && !d.args.iter().any(|a| a.ty.is_non_null() && a.default.is_none())).collect();
                    let d = rng.pick_opt(&cands)?;
                    if loc == "ARGUMENT_DEFINITION" || loc == "INPUT_FIELD_DEFINITION" {
                        // @deprecated on required inputs is itself invalid: avoid a second fault
                        return None;
                    }
                    dirs.retain(|x| x.name.s != d.name.s);
                    dirs.push(Dir::new(&d.name.s, vec![]));
                    dirs.push(Dir::new(&d.name.s, vec![]));
                    done!("TS9", format!("directive-repeated|{site_label}"));
                }
                31 => {
                    let cands: Vec<&DirectiveDef> = ix.directives.values().filter(|d| d.locations.iter().any(|l| l.s == loc) && !d.args.iter().any(|a| a.ty.is_non_null() && a.default.is_none())).collect();
                    let d = rng.pick_opt(&cands)?;
                    if (loc == "ARGUMENT_DEFINITION" || loc == "INPUT_FIELD_DEFINITION") && d.name.s == "deprecated" {
                        return None;
                    }
                    if dirs.iter().any(|x| x.name.s == d.name.s) && !d.repeatable {
                        return None;
                    }
                    dirs.push(Dir::new(&d.name.s, vec![("bogusArgument", Val::int("1"))]));
                    done!("TS9", format!("directive-unknown-argument|{site_label}"));
                }
                _ => {
                    // ill-typed argument value: @deprecated(reason: 1) where legal, else a custom directive with a typed arg
                    let cands: Vec<&DirectiveDef> = ix.directives.values().filter(|d| d.locations.iter().any(|l| l.s == loc) && d.args.iter().any(|a| matches!(a.ty.base(), "Int" | "String" | "Boolean"))).collect();
                    let d = rng.pick_opt(&cands)?;
                    if (loc == "ARGUMENT_DEFINITION" || loc == "INPUT_FIELD_DEFINITION") && d.name.s == "deprecated" {
                        return None;
                    }
                    if dirs.iter().any(|x| x.name.s == d.name.s) && !d.repeatable {
                        return None;
                    }
                    // (an argument of a list type when there is one: the fault then sits inside a list literal - a null item of
                    // a non-null item type, a literal nested one level deeper than the type, a wrong kind of item)
                    let list_args: Vec<&InputValueDef> = d.args.iter().filter(|a| matches!(a.ty.base(), "Int" | "String" | "Boolean") && a.ty.list_depth() > 0).collect();
                    let a = match rng.pick_opt(&list_args) {
                        Some(a) if rng.chance(2, 3) => *a,
                        _ => d.args.iter().find(|a| matches!(a.ty.base(), "Int" | "String" | "Boolean") && a.ty.list_depth() == 0)?,
                    };
                    let bad = ill_typed(rng, &ix, &a.ty);
                    let mut args = vec![(a.name.s.as_str(), bad)];
                    // supply the other required arguments correctly
                    let ix2 = &ix;
                    let mut extra: Vec<(String, Val)> = vec![];
                    for o in &d.args {
                        if o.name.s != a.name.s && o.ty.is_non_null() && o.default.is_none() {
                            extra.push((o.name.s.clone(), crate::gen_schema::gen_const(rng, ix2, &o.ty, 1, false)));
                        }
                    }
                    let mut dir = Dir::new(&d.name.s, std::mem::take(&mut args));
                    for (k, v) in extra {
                        dir.args.push((nm(&k), v));
                    }
                    dirs.push(dir);
                    done!("TS9", format!("directive-argument-type|{site_label}"));
                }
            }
        }
        // ---------------- TS9 on an extension of a built-in scalar (merged into a definition nitrogql generates itself)
        34 => {
            let b = rng.s(crate::schema_ix::BUILTIN_SCALARS).to_string();
            let (dir, label) = match rng.below(3) {
                0 => (Dir::new("deprecated", vec![]), "directive-misplaced"),
                1 => (Dir::new("noSuchDirectiveAtAll", vec![]), "directive-unknown"),
                _ => (Dir::new("specifiedBy", vec![("url", Val::str("https://example.com/x")), ("bogusArgument", Val::int("1"))]), "directive-unknown-argument"),
            };
            let mut e = TypeDef::new(TKind::Scalar, &b);
            e.ext = true;
            e.dirs.push(dir);
            let at = rng.below(doc.defs.len() + 1);
            doc.defs.insert(at, TsDef::Type(e));
            done!("TS9", format!("{label}|extension-of-built-in-scalar"));
        }
        // ---------------- TS2: a built-in scalar declared again (nitrogql declares the five itself, after the user's
        // documents: the user's declaration is the first of two)
        35 => {
            let b = rng.s(crate::schema_ix::BUILTIN_SCALARS).to_string();
            let mut e = TypeDef::new(TKind::Scalar, &b);
            if rng.coin() {
                e.dirs.push(Dir::new("specifiedBy", vec![("url", Val::str("https://example.com/spec"))]));
            }
            let at = rng.below(doc.defs.len() + 1);
            doc.defs.insert(at, TsDef::Type(e));
            done!("TS2", format!("duplicate-type|built-in-scalar-declared-again|{b}"));
        }
        // ---------------- TS10 recursive directive definitions
        _ => {
            // a cycle of k directive definitions; each hop from one directive to the next goes through one of seven routes
            let k = 1 + rng.below(3);
            let all_locs = ["ARGUMENT_DEFINITION", "INPUT_FIELD_DEFINITION", "INPUT_OBJECT", "ENUM_VALUE", "ENUM", "SCALAR"];
            let mut hops = vec![];
            for i in 0..k {
                let next = format!("cyc{}", (i + 1) % k);
                let hop = rng.below(7);
                let apply = || vec![Dir::new(&next, vec![])];
                let arg_ty;
                let mut arg_dirs = vec![];
                match hop {
                    0 => {
                        arg_ty = Ty::named("Int");
                        arg_dirs = apply();
                    }
                    1 => {
                        let mut t = TypeDef::new(TKind::Input, &format!("CycIn{i}"));
                        t.input_fields.push(InputValueDef { desc: None, name: nm("f"), ty: Ty::named("Int"), default: None, dirs: apply() });
                        doc.defs.push(TsDef::Type(t));
                        arg_ty = Ty::named(&format!("CycIn{i}"));
                    }
                    2 => {
                        let mut t = TypeDef::new(TKind::Input, &format!("CycIn{i}"));
                        t.dirs = apply();
                        t.input_fields.push(InputValueDef { desc: None, name: nm("f"), ty: Ty::named("Int"), default: None, dirs: vec![] });
                        doc.defs.push(TsDef::Type(t));
                        arg_ty = Ty::list(Ty::non_null(Ty::named(&format!("CycIn{i}"))));
                    }
                    3 => {
                        let mut t = TypeDef::new(TKind::Enum, &format!("CycEn{i}"));
                        t.values.push(EnumValDef { desc: None, name: nm("PLAIN"), dirs: vec![] });
                        t.values.push(EnumValDef { desc: None, name: nm("MARKED"), dirs: apply() });
                        doc.defs.push(TsDef::Type(t));
                        arg_ty = Ty::named(&format!("CycEn{i}"));
                    }
                    4 => {
                        let mut t = TypeDef::new(TKind::Enum, &format!("CycEn{i}"));
                        t.dirs = apply();
                        t.values.push(EnumValDef { desc: None, name: nm("PLAIN"), dirs: vec![] });
                        doc.defs.push(TsDef::Type(t));
                        arg_ty = Ty::non_null(Ty::named(&format!("CycEn{i}")));
                    }
                    5 => {
                        let mut t = TypeDef::new(TKind::Scalar, &format!("CycSc{i}"));
                        t.dirs = apply();
                        doc.defs.push(TsDef::Type(t));
                        arg_ty = Ty::named(&format!("CycSc{i}"));
                    }
                    _ => {
                        // through an input type nested inside the argument's input type
                        let mut inner = TypeDef::new(TKind::Input, &format!("CycInner{i}"));
                        inner.input_fields.push(InputValueDef { desc: None, name: nm("g"), ty: Ty::named("Int"), default: None, dirs: apply() });
                        doc.defs.push(TsDef::Type(inner));
                        let mut t = TypeDef::new(TKind::Input, &format!("CycIn{i}"));
                        t.input_fields.push(InputValueDef { desc: None, name: nm("f"), ty: Ty::named(&format!("CycInner{i}")), default: None, dirs: vec![] });
                        doc.defs.push(TsDef::Type(t));
                        arg_ty = Ty::named(&format!("CycIn{i}"));
                    }
                }
                hops.push(["arg", "input-field", "input-object", "enum-value", "enum", "scalar", "nested-input-type"][hop]);
                let mut args = vec![InputValueDef { desc: None, name: nm("x"), ty: arg_ty, default: None, dirs: arg_dirs }];
                if rng.coin() {
                    // an innocent sibling argument, before or after
                    let sib = InputValueDef { desc: None, name: nm("other"), ty: Ty::named("String"), default: None, dirs: vec![] };
                    if rng.coin() { args.insert(0, sib) } else { args.push(sib) }
                }
                doc.defs.push(TsDef::Directive(DirectiveDef {
                    desc: None,
                    p: P::none(),
                    name: nm(&format!("cyc{i}")),
                    args,
                    repeatable: false,
                    repeatable_p: P::none(),
                    locations: all_locs.iter().map(|l| nm(l)).collect(),
                }));
            }
            // bystanders: directives that are not recursive themselves but use the same types as the cycle (before or
            // after the recursive ones, wherever the shuffle puts them)
            let cyc_types: Vec<String> = doc.defs.iter().filter_map(|d| match d { TsDef::Type(t) if t.name.s.starts_with("Cyc") && matches!(t.kind, TKind::Input | TKind::Enum | TKind::Scalar) => Some(t.name.s.clone()), _ => None }).collect();
            for b in 0..rng.below(3) {
                if let Some(t) = rng.pick_opt(&cyc_types) {
                    doc.defs.push(TsDef::Directive(DirectiveDef { desc: None, p: P::none(), name: nm(&format!("bystander{b}")), args: vec![InputValueDef { desc: None, name: nm("y"), ty: Ty::named(t), default: None, dirs: vec![] }], repeatable: false, repeatable_p: P::none(), locations: vec![nm("FIELD_DEFINITION")] }));
                }
            }
            rng.shuffle(&mut doc.defs);
            let mut hs = hops.clone();
            hs.sort();
            hs.dedup();
            done!("TS10", format!("directive-recursive|cycle-of-{k}|via={}", hs.join("+")));
        }
    }
}
