#!/usr/bin/env python3
"""Regenerates MANIFEST.json from the table below (kept next to the driver so they cannot drift)."""
import json, os
ROOT = os.path.dirname(os.path.abspath(__file__))
BASE = ("cd /repo && cargo nextest run --workspace --no-fail-fast --test-threads 8 --offline "
        "|| cargo test --workspace --no-fail-fast --offline")

CHECKS = {
 "C06": dict(cat="exploration", tech="runtime monitor: independent VLQ/source-map decoder over real encoder output (exhaustive range) + SourceWriter call histories vs chunk-position model + every .map written by the real CLI on generated projects decoded and checked against reference token tables (validity, token starts, names, completeness incl. imported fragments)",
   text="Every integer in [-2^22,2^22] plus boundary values is encoded by the real base64_vlq and decoded by an independent decoder (exhaustive for that range). Random write/write_for/indent/dedent histories are run on the real SourceWriter and every decoded segment is compared with where the chunk really is in the produced text. Generated multi-file projects (all three modes, five output layouts, fragment imports, hostile trivia) are run through the real CLI; each emitted map is decoded and every segment checked (order, inside generated text, source index, sources resolve to input files, original position at a reference-lexer token start or just past the mapped name, name = token or definition name), then completeness per type, object/input field, operation and fragment including imported ones. Holds only on the histories and projects observed.",
   note="trusts harness/nqv/src/srcmap.rs (decoder written from the Source Map v3 text); nameless segments may sit in the indentation before their chunk", ref="DESIGN.md §5 C06"),
 "C20": dict(cat="exploration", tech="runtime monitor: real relative_path/resolve_relative_path/normalize_path vs reference path algebra, bounded-exhaustive + random; end-to-end: schema import specifier and map `sources` of real CLI outputs resolved against the files on disk",
   text="All pairs of absolute non-escaping paths over {x,y,.,..} up to depth 5 (quick) / 6 (thorough) are pushed through the real functions and compared with a component-list reference (exhaustive for that sub-space), then random deeper paths with repeated separators and trailing slashes. End-to-end: generated projects with schemaOutput above/below/beside the inputs are run through the real CLI and the `import type * as Schema` specifier of each declaration file and every `sources` entry must resolve (TypeScript .js -> .d.ts/.ts rule) to the real file.",
   note="trusts the 10-line reference normaliser; B being A's own directory/ancestor is outside the './' prefix clause (B is a file)", ref="DESIGN.md §5 C20"),
}
CHECKS.update({
 "C07": dict(cat="exploration", tech="runtime monitor: real parser output vs reference parser (structure + positions) on generated documents rendered with hostile trivia",
   text="Random documents covering every production (all definition/extension kinds, every value kind, escapes, block strings, #import, shorthand, keyword-like names) are rendered three times with independent trivia policies; the real parse_* result is extracted and compared node by node, positions included, with what an independent reference parser says the same text denotes. The generator model cross-checks the reference parser on every case.",
   note="trusts harness refparse.rs (written from the GraphQL spec draft) as the meaning of a text; lone \\r outside strings not generated", ref="DESIGN.md §5 C07"),
 "C11": dict(cat="exploration", tech="runtime monitor: real resolve_schema_extensions vs reference merge, with fault layer and order-preserving permutations / file splits",
   text="Documents with 0-3 extensions per definition over all seven kinds, duplicates, orphans and cross-kind name clashes are split over files, parsed with per-file indices and resolved by the real code; the result multiset, the failure verdict and the error position are compared with a reference merge, and each case is re-run under three order-preserving permutations with other file splits.",
   note="block strings masked (C07 owns their defect); comparison is up to definition order as the property says", ref="DESIGN.md §5 C11"),
 "C13": dict(cat="exploration", tech="runtime monitor: real resolve_operation_imports vs reference import closure; bounded-exhaustive small graphs + random graphs with fault layer",
   text="All import graphs over <=2 files (quick) / <=3 files (thorough) x 2 fragments with an edge label in {none,*,A,B,A+B} per ordered pair incl. self are resolved by the real code through an in-memory OperationResolver and compared (multiset keyed by originating file and name, verdict, error position) with a reference closure; random graphs up to 8 files add differently spelled paths, dangling files, missing and repeated names, and import-line permutations.",
   note="termination is observed as 'returned' under the shard watchdog (a hang or stack overflow makes the run inconclusive and is then re-run in trace mode)", ref="DESIGN.md §5 C13"),
})
CHECKS.update({
 "C19": dict(cat="exploration", tech="runtime monitoring + sanitizers: sequential reference model and clean-room differential over ABI call histories; shadow-heap allocator; AddressSanitizer; valgrind memcheck; Miri (tree borrows)",
   text="Every history of length <=4 (quick) / <=5 (thorough) over an 18-symbol alphabet (initiate valid/invalid/missing-fragment roots, required/load/emit/free on live, freed, never-issued and zero ids) plus random histories of 8-60 calls with up to 6 tasks and config reloads are driven through the real extern \"C\" functions exactly as loader-core does (alloc_string/copy/call/free_string). Each response is compared with a sequential model; each emit with a fresh loader instance given the same files. The same driver runs with a shadow heap that checks every dealloc against the recorded layout, under ASan, under valgrind and (short purposeful histories) under Miri.",
   note="a clean sanitizer run is absence of reports on the histories driven, not memory safety; Miri uses tree borrows and ignores leaks (see evidence assumptions); panics inside the ABI abort the process and are diagnosed by re-running the dead shard in trace mode", ref="DESIGN.md §5 C19"),
})
CHECKS.update({
 "C08": dict(cat="exploration", tech="runtime monitor: panic/abort/exit detector (catch_unwind + panic hook at every public stage, CLI stderr/status, loader process death) over hostile generated inputs",
   text="Token-level mutations of a valid project, random syntactic documents, token soup, arbitrary Unicode (BOM, NUL, invalid escapes), config mutations, nesting to depth 40 and spliced documents are pushed through both parsers, parse_config, extension and import resolution, both checkers and (after an accepted check) every printer and print_positioned_error, each call inside catch_unwind with the panic site recorded; a sample goes through the real CLI (crash = 'panicked at' on stderr, signal, or exit status outside {0,1}) and the loader ABI is driven in separate engine processes whose death is diagnosed by trace replay.",
   note="non-termination is observed through the shard watchdog (inconclusive unless it reproduces in isolation); release profile as shipped", ref="DESIGN.md §5 C08"),
})
CHECKS.update({
 "C14": dict(cat="exploration", tech="runtime monitor: differential of the real CLI's declaration file against the module returned by the real loader ABI for the same file and configuration text, over generated projects with randomised naming/export options",
   text="Generated valid projects (several operations per file, fragments, imports, lower-case operation names) get a configuration in which mode, defaultExportForOperation, capitalizeOperationNames and every variable suffix are set with probability 2/3 each; the real CLI writes the declaration files and a fresh loader instance per operation file is driven through load_config/initiate_task/get_required_files/load_file/emit_js with the same configuration text. Every value export declared (export const, export { X as default }) must be exported by the loader module under the same name, and the definition the declared identifier maps to (through the emitted source map) must be the definition carried by the loader module's document (kind and name of definitions[0]).",
   note="anonymous operations whose variable name comes out empty are not cases; association relies on the source map (C06)", ref="DESIGN.md §5 C14"),
 "C16": dict(cat="exploration", tech="runtime monitor: real printer output evaluated (JS template literal) and re-parsed by the reference parser, compared with the reference merge of the schema / the parsed document",
   text="(a) random parseable documents of both grammars are parsed and printed by the real code (plain writer and JS template writer) and the printed text, read back by an independent parser with spec string semantics, must denote the same document; the template literal is evaluated (cooked value, unescaped ${ is an error) and must equal the plain printing. (b) valid schemas with hostile descriptions and default strings, split over files and extensions, go through the library route and (sampled) the real CLI's serverGraphqlOutput module; every definition of strip_nitrogql(merge(M)) must be present with identical content and only built-ins may be added.",
   note="trusts refparse.rs and the template evaluator in jsread.rs; string findings are keyed by the class of the source string (block / quoted multi-line / quoted single-line)", ref="DESIGN.md §5 C16"),
})
CHECKS.update({
 "C03": dict(cat="fault_enumeration", tech="runtime monitor: labelled single-fault mutants of valid documents (confirmed by a reference validator) pushed through the real check; every mutant must be diagnosed with a kind of its rule",
   text="Valid-by-construction documents over generated valid schemas receive one fault out of 33 injectors covering the 20 implemented rules (plus faults inside fragments that nothing spreads), placed at a random site class (operation top level, nested, named fragment, inline fragment, directive argument, variable default, fragment/variable definition). A reference validator written from the spec confirms the mutant breaks exactly the labelled rule; the real resolve+check must then report at least one diagnostic, and one whose kind belongs to the rule.",
   note="trusts harness validate.rs as the labelling oracle; mutants the reference validator does not confirm as single-rule are skipped and counted; the monitor stops after check (what generate does with a wrongly accepted document is C08's)", ref="DESIGN.md §5 C03"),
 "C04": dict(cat="exploration", tech="runtime monitor: valid-by-construction documents (confirmed valid by the reference validator, incl. field merging) must get zero diagnostics from the real check",
   text="Generated valid schemas and documents with rarely combined features (interface-of-interface and union/interface spreads, literals relying on input coercion, nullable variables with defaults in non-null positions, repeatable custom directives, imports across files, shorthand queries) go through the real parse/resolve/check; any diagnostic is a violation whose signature names the diagnostic kind and the construct at its position.",
   note="valid means: accepted by harness validate.rs (implemented rules + FieldsInSetCanMerge, all variables/fragments used)", ref="DESIGN.md §5 C04"),
 "C05": dict(cat="fault_enumeration", tech="runtime monitor: valid schemas (any extension/file split) must get zero diagnostics; labelled single-fault mutants confirmed by a reference validator must get at least one",
   text="Accept side: generated valid schemas with directives on every legal location, extension splits and 1-3 files go through the real parse/merge/builtins/resolve/check. Reject side: 34 injectors covering every rule family named in the property (reserved names, duplicates, unknown types, input/output misuse, implements faults, transitive interfaces, interface field/argument compatibility, union members, directive applications, recursive directives), each confirmed by the reference validator as a single-rule fault, must produce a diagnostic.",
   note="trusts harness validate.rs; default-value typing and cross-kind duplicate names are not among the enumerated faults", ref="DESIGN.md §5 C05"),
 "C12": dict(cat="exploration", tech="runtime monitor: emitted DocumentNode JSON read by an independent graphql-js-AST reader and compared with the source operation plus the reference fragment closure",
   text="For generated valid multi-file projects, every `const X = {...}` literal of the standalone .graphql.ts text, of the loader JS printer and (every third case) of the real loader ABI output is parsed as JSON, read into the harness model and compared: first definition = the source definition (type, name, variable definitions with defaults and directives, directives, selection tree verbatim), followed by exactly the transitively spread fragments once each; every operation and own fragment has a document.",
   note="only documents that the real check accepts are cases; block strings and coercing literals masked", ref="DESIGN.md §5 C12"),
})
CHECKS.update({
 "C18": dict(cat="fault_enumeration", tech="runtime monitor: the real nitrogql-cli binary over generated projects with 0-3 labelled faults; exit status, stdout/stderr and a before/after snapshot of the directory are checked against the fault list",
   text="Valid generated projects (1-3 schema files, 1-5 operation files with imports, random output layout and options) receive 0-3 faults: syntax faults in schema or operation files, a type-system rule fault, an operation rule fault (both confirmed by the reference validators) or an import of a missing file. The real binary runs check / generate / check generate in human, json and rdjson format. Checked: exit 0 iff no fault; stdout is one JSON document; at least one fault is located by file/line/column; every located diagnostic names an input file of the right kind, inside the file and (check stage) at a token start; every offending operation file of the reported stage is named; check and failed generate change nothing in the directory; successful generate writes exactly the files it lists, one declaration file per operation file.",
   note="positions of parse-stage diagnostics are only required to be inside the file; only the first unparsable schema file is demanded (the property speaks of check-stage diagnostics)", ref="DESIGN.md §5 C18"),
})
CHECKS.update({
 "C10": dict(cat="exploration", tech="runtime monitor: emitted schema/resolver declaration files parsed and evaluated by an independent TypeScript-subset evaluator, canonical forms compared with reference denotations per target",
   text="Valid schemas (hostile descriptions, interface chains, extension splits, scalar mappings in all config forms, schema types renamed to collide with identifiers of scalar mappings, allowUndefinedAsOptionalInput on/off) go through the real SchemaTypePrinter and ResolverTypePrinter. Both texts must parse; for every type x 4 targets the exported alias must denote the reference type (objects: __typename + wrapper-exact fields; abstract types: union of possible objects; enums: literals; inputs: readonly, optional iff nullable per option; scalars: configured type evaluated outside the namespace); the Resolvers map must have a resolver per field with the reference parent/args/context/result and a type resolver per abstract type over exactly its possible types.",
   note="trusts harness ts.rs (a self-test of hand-checked TypeScript facts runs first; failure = inconclusive) and refts.rs; array readonly-ness is not compared", ref="DESIGN.md §5 C10"),
})
CHECKS.update({
 "C01": dict(cat="exploration", tech="runtime monitor: responses produced by a reference CollectFields/CompleteValue executor must be members of the emitted Result/fragment type (independent TypeScript-subset evaluator, observational membership)",
   text="For generated valid schemas and documents (abstract parents, fragments through several levels, duplicate response keys, @skip/@include on literals and shared variables, list/non-null nests, scalar mappings) the real operation and schema declaration texts are parsed and the type of every TypedDocumentNode constant is evaluated. Every assignment of up to 4 boolean variables x every possible root object x 6 data choices (null bias 0..2, runtime types, list lengths 0..2) yields a response from the reference executor that must be a member of the emitted type.",
   note="trusts harness exec.rs (appendix A.1 of DESIGN.md) and ts.rs (self-tested); documents with a duplicate response key and a variable conditional are attributed to one known finding", ref="DESIGN.md §5 C01"),
 "C02": dict(cat="exploration", tech="runtime monitor: type-directed inhabitants of the emitted Result/fragment type and perturbed real responses must be producible per selection set (Ref_local) by the reference executor",
   text="Same cases as C01. Inhabitants of the evaluated emitted type (each union arm, optional keys present/absent, null where admitted, each literal and a foreign one, lists of length 0/1) and perturbations of real responses (dropped key, wrong __typename or enum literal, object replaced by scalar, nested/un-nested list, extra key) that the emitted type admits must be accepted by Ref_local: some possible object type and some assignment of the boolean variables used in that selection set, recursively.",
   note="as C01", ref="DESIGN.md §5 C02"),
 "C09": dict(cat="exploration", tech="runtime monitor: both inclusions between the emitted Variables type (evaluated) and a reference CoerceVariableValues on an abstract input domain, per configuration",
   text="For generated operations with variables (wrappers to depth 3, enums, recursive input objects, defaults) x allowUndefinedAsOptionalInput on/off x scalar mappings (single, send/receive, separate, ID remapped), candidate assignments are built per variable (explicit coercible value, null, absent, wrong atoms, wrong enum literal, single value for a list, input objects with one deviating / missing / unknown field) and checked: admitted => coercible; explicit coercible => admitted; omission of nullable variables admitted iff the option is on.",
   note="whether a non-null variable with a default may be omitted is not constrained (as in the property); trusts exec.rs::input_candidates and ts.rs", ref="DESIGN.md §5 C09"),
})
NOT_YET = {}

CHECKS.update({
 "C15": dict(cat="exploration", tech="runtime monitor: differential of two real CLI runs per project (SDL schema files vs. reference introspection JSON of the same model): check verdicts on valid documents and single-fault mutants, generated declaration files compared alias by alias through a TypeScript-subset evaluator",
   text="For each generated valid project the merged schema model is rendered as the result of the standard introspection query (8 styles: every key present/optional keys absent x with/without introspection meta types x shuffled/definition order; pretty/compact JSON) and a second project is written that differs only in the schema file and the schema glob. Both go through the real CLI: `check generate` on the valid project and `check` on three single-fault mutants of the operation document. Exit verdicts must agree; schema, resolver and operation declaration files of both routes are parsed and every non-generic alias (per namespace, by exported name) must have the same canonical denotation, and the same value exports.",
   note="aliases of the introspection meta types (__Schema, __Type, ...) present only in the JSON route are not compared; comments (JSDoc descriptions, @deprecated) are outside the comparison as the property says; interfaces-of-interfaces are carried but have no observable effect on check/generate (implementers list every ancestor)", ref="DESIGN.md §5 C15"),
 "C17": dict(cat="exploration", tech="runtime monitor: byte comparison of repeated fresh-process CLI runs (fresh hash keys per process), of in-process library output against CLI files, and verdict/alias-denotation comparison under permutations of schema definitions inside and across files",
   text="A: generated projects with 0-4 injected faults are run 5 (quick) / 8 (thorough) times through the real CLI, each a fresh process; exit status, stdout, stderr and the hash of every file of the project tree must be identical. B: for projects with schemaModuleSpecifier the in-process library route (mirror of crates/cli/src/generate.rs) must produce exactly the bytes the CLI wrote for schema, resolver and operation declaration files and their mappings. C: schema definitions (extensions included) are shuffled and redistributed over 1-3 files twice per project; `check generate` must give the same verdict and every alias of every declaration file the same canonical denotation.",
   note="hash keys are not observed directly: each process draws its own (std RandomState); a difference that needs a specific key pair may need more runs than budgeted; the CLI's file load order (directory walk) is taken from the schema map's sources for part B", ref="DESIGN.md §5 C17"),
})

# additions made after the seeded-change rounds (DESIGN.md section 14); appended to the level text of each check
ADDENDA = {
 "C01": "Scalars are typed through the configuration or through @nitrogql_ts_type (definition or extend scalar); a third of the schemas are written with extensions; fragments may carry the name of an operation.",
 "C02": "Same additions as C01 (directive-typed scalars, schemas with extensions, shared names).",
 "C03": "A position-precise variable injector adds a fresh variable that is too weak for exactly one position (required argument, item of a list literal with/without a default on the location, item type inside a list variable, required input field, list literal inside an input field).",
 "C04": "Variables may be stricter than their position *inside* list wrappers ([T!]! into [T]); fragments may carry the name of an operation. One case in 24 also goes through the real CLI with the schema given as an introspection result.",
 "C05": "The directive-recursion injector builds cycles of 1-3 directive definitions whose hops go through an argument, an input field, the input object, an enum, an enum value, a scalar or a nested input type, plus non-recursive bystander directives that share the cycle's types; the covariance injector substitutes implementer field types of every kind (scalar, enum, object, interface, union) and list shape. ",
 "C07": "The hostile alphabet includes backspace, form feed, CR, VT and U+2028; braced escapes are written with leading zeros.",
 "C08": "Further input classes: escape soup (surrogate range ends, 10FFFF/110000, leading zeros, pairs, truncated forms, in seven syntactic positions), valid generated projects (every printer runs after an accepted check), fragment cycles of length 1-3 reached from every operation kind, nesting with nullable / mixed / unclosed list types. A parser step budget (pest's running total of rule calls: 5000 per input byte + 500000) observes super-linear parsing as a logical bound in the library and loader parts; a per-case watchdog in the engine nominates inputs that do not return (exit status 5), which are then replayed alone twice with a 400 s limit before anything is reported. Thorough tier: a libFuzzer front end (cargo-fuzz, 16 forked workers, 7 min, seeded with 3000 generated inputs) drives the same pipeline; its findings are the monitor's own signatures and its crash/timeout artifacts are replayed through the engine. Also: conflicting response keys (unmergeable fields under one key), hostile scalar type texts (non-ASCII string-literal types), and scaling families (the same construct at sizes 14 and 18; a thread-CPU-time ratio of 8x or more for 1.3x the input, with at least 100 ms, is reported as super-linear). The CLI part uses explicit document file names so that generate is reached (counted in the evidence).",
 "C09": "Scalars are also typed through @nitrogql_ts_type; configuration entries for built-in scalars (ID) are part of the matrix.",
 "C10": "Scalars are typed through the configuration, through @nitrogql_ts_type, or both (the configuration wins); type names include leading underscores and lower-case initials.",
 "C13": "Import path spellings include absolute paths, absolute paths with `..` and `/./` segments. Fragment names may begin like keywords of the import syntax (from, import, on_); files share base names across directories; a loader route drives the real ABI on a sample of fault-free graphs (3 runs each).",
 "C14": "Every other project drives all its files through ONE long-lived loader instance: a different configuration and an emit first (a process serving two projects), then overlapping tasks (several initiated before the first completes, a late one initiated while others are in flight); each module must still be that of its own file under the configuration loaded last.",
 "C15": "Root-shape documents: an operation of a kind the schema declares no root for while an ordinary object type carries the default root name (Mutation / Subscription), on both routes.",
 "C16": "A quarter of the server schemas go through the real CLI with a scalar configuration (so that generate runs); schemas apply @nitrogql_ts_type on custom and built-in scalars, and (CLI route, model plugin configured) @model on objects and fields at any position among other, order-sensitive directive applications. Multi-line string values are split into those for which printing between triple quotes is exact (must survive) and the rest (listed finding). Every third CLI project is generated twice in one directory (an earlier, longer revision of the schema first).",
 "C17": "Part D: the check verdict of valid documents, single-fault documents and single-fault schemas under reversed and shuffled schema definitions, in-process (about 48000 permutations in the quick tier). History variant: a working copy that still holds the outputs of an earlier revision of the sources (same declarations, other positions) must end up with the bytes of a clean run. Part A2: several diagnostics anchored at one position (a field missing all of its required arguments, selected twice), K+3 runs per output format. The history variant's earlier revision has one more type, so every earlier output was longer.",
 "C18": "Copy-paste twins (the same faulty file under a second name: identical message, line and column in two files), projects whose schema is an introspection result, a layout with a documents glob through `..`, and three invocation styles (project directory, parent directory with --config-file, sub-directory with --config-file ../).",
 "C19": "The source pool has files in other directories with their own relative imports and a root in a nested directory; the alphabet includes the id the loader would hand out next (never given to the caller). Further: read-the-last-result before and after every free_task, root names that are not in normal form, a scripted two-directories project (identical import strings for different targets) in all 24 load orders. In the thorough tier histories of length 5 range over a 12-symbol core alphabet; lengths up to 4 over the full alphabet.",
 "C20": "End-to-end projects use dotted output names (schema.generated.d.ts, api.v2.d.mts, gen.d/schema.cts), a fragment file outside the project directory and three CLI invocation styles; 1600 CLI projects in the quick tier.",
 "C06": "End-to-end part: 1600 CLI projects in the quick tier, dotted output names, a fragment file outside the project directory, three CLI invocation styles.",
 "C12": "Fragments may carry the name of an operation. The file splitter has a minimal import mode (a file imports only what its own definitions spread: diamonds over the imported files' own imports); the loader-ABI route does not wait for the CLI-side check verdict.",
}
for _k, _v in ADDENDA.items():
    CHECKS[_k]["text"] = CHECKS[_k]["text"].rstrip() + " " + _v

def main():
    props = [json.loads(l) for l in open(os.path.join(ROOT, "properties.jsonl"))]
    checks = []
    na = []
    for p in props:
        pid = p["id"]
        if pid in CHECKS:
            c = CHECKS[pid]
            checks.append({
                "property_id": pid,
                "quick_cmd": f"./check {pid} --tier quick",
                "thorough_cmd": f"./check {pid} --tier thorough",
                "evidence_file": f"/verif/evidence/{pid}.json",
                "replay_cmd_template": f"./check {pid} --replay {{path}}",
                "engine": "nqv",
                "level_claimed": {"category": c["cat"], "text": c["text"], "design_ref": c["ref"]},
                "level_note": c["note"],
                "technique": c["tech"],
            })
        else:
            na.append({"property_id": pid, "reason": NOT_YET.get(pid, "monitor not built yet in this revision (planned in DESIGN.md §5); not claimed")})
    m = {
        "version": 1,
        "setup_cmd": "./check --setup",
        "hooks": {
            "guard": "nitrogql_verif (reserved cfg; no source hook exists: all instrumentation lives in /verif/harness shims and monitors)",
            "enable": "none needed: the harness compiles /repo/crates/* as path dependencies and the loader / VLQ sources through shim crates",
            "baseline_off_cmd": BASE,
            "source_commits": [],
            "add_only": True,
        },
        "engines": [
            {"name": "nqv", "path": "/verif/harness/nqv", "serves_properties": sorted(CHECKS), "kind_free_text": "Rust monitor binary linking the repository crates in-process (catch_unwind boundary), driving the real nitrogql-cli binary as a subprocess and the loader ABI through a shim crate; sharded by ./check"},
        ],
        "checks": checks,
        "not_applicable": na,
        "notes": "Technique family: runtime monitoring and sanitizers. Verdicts are three-valued (exit 0 held / 1 violated / 2 inconclusive). known_findings.json lists genuine defects that are recorded rather than repaired.",
    }
    json.dump(m, open(os.path.join(ROOT, "MANIFEST.json"), "w"), indent=1)

if __name__ == "__main__":
    main()
