#!/usr/bin/env python3
"""Confirms a seeded change delivered by a sub-agent before it is kept under /verif/seeded/<PID>-<v>/.

usage: tools/confirm_seeded.py <PID> <variant> [--worktree /tmp/wt-<PID>] [--out /tmp/wt-<PID>-out] [--no-demo]

In the scratch worktree (never /repo): verifies it is clean at /repo's HEAD, that the patch applies and touches no
test / snapshot file, runs the unedited suite (cargo test --workspace) with the patch, builds the release CLI with and
without the patch, runs demo/run.sh <cli> on both (expected: unpatched exit 0, patched exit != 0) when there is one,
reverts the worktree, and copies patch.diff, demo/ and meta.json (+ what was confirmed) to /verif/seeded/<PID>-<v>/.
Demos that are not a run.sh are run by hand and recorded with --demo-note.
"""
import json, os, re, shutil, subprocess, sys

ROOT = os.path.dirname(os.path.dirname(os.path.abspath(__file__)))


def sh(cmd, cwd=None, env=None, timeout=3600):
    e = dict(os.environ, CARGO_NET_OFFLINE="true")
    if env:
        e.update(env)
    r = subprocess.run(cmd, cwd=cwd, env=e, stdout=subprocess.PIPE, stderr=subprocess.STDOUT, text=True, shell=isinstance(cmd, str), timeout=timeout)
    return r.returncode, r.stdout


def main():
    a = sys.argv[1:]
    pid, var = a[0], a[1]
    wt = "/tmp/wt-" + pid
    out = "/tmp/wt-" + pid + "-out"
    demo_note = None
    no_demo = "--no-demo" in a
    for i, x in enumerate(a):
        if x == "--worktree":
            wt = a[i + 1]
        if x == "--out":
            out = a[i + 1]
        if x == "--demo-note":
            demo_note = a[i + 1]
    src = os.path.join(out, var)
    patch = os.path.join(src, "patch.diff")
    conf = []
    rc, o = sh(["git", "-C", wt, "status", "--porcelain", "--untracked-files=no"])
    if o.strip():
        print("worktree not clean:\n" + o)
        sys.exit(2)
    rc, head = sh(["git", "-C", wt, "rev-parse", "HEAD"])
    rc, rhead = sh(["git", "-C", "/repo", "rev-parse", "HEAD"])
    if head != rhead:
        print("worktree HEAD differs from /repo HEAD")
        sys.exit(2)
    # base CLI
    bindir = os.path.join(out, "confirm-bin")
    os.makedirs(bindir, exist_ok=True)
    base = os.path.join(bindir, "cli.base")
    if not os.path.exists(base):
        rc, o = sh("cargo build --release -p nitrogql-cli --offline -j8", cwd=wt)
        if rc != 0:
            print(o[-2000:])
            sys.exit(2)
        shutil.copy(os.path.join(wt, "target/release/nitrogql-cli"), base)
    rc, o = sh(["git", "-C", wt, "apply", "--check", patch])
    if rc != 0:
        print("patch does not apply:", o)
        sys.exit(1)
    sh(["git", "-C", wt, "apply", patch])
    ok = True
    try:
        rc, stat = sh(["git", "-C", wt, "diff", "--stat"])
        rc, names = sh(["git", "-C", wt, "diff", "--name-only"])
        files = names.split()
        conf.append("changed: " + stat.strip().splitlines()[-1].strip())
        bad = [f for f in files if "/tests/" in f or "snapshots" in f or f.endswith(".snap") or not f.startswith("crates/")]
        rc, difftext = sh(["git", "-C", wt, "diff", "-U0"])
        conf.append("touches tests/snapshots: %d" % len(bad))
        if bad:
            print("touches test files:", bad)
            ok = False
        # cfg(test) modules: crude check that no hunk is inside a `mod tests`
        rc, o = sh("cargo test --workspace --no-fail-fast --offline -j8 2>&1 | grep -E '^test result|FAILED|failed|error(\\[|:)' ", cwd=wt)
        passed = sum(int(m) for m in re.findall(r"(\d+) passed", o))
        failed = sum(int(m) for m in re.findall(r"(\d+) failed", o))
        conf.append("tests: %d passed %d failed" % (passed, failed))
        if failed or passed < 215:
            print("suite:", o[-1500:])
            ok = False
        rc, o = sh("cargo build --release -p nitrogql-cli --offline -j8", cwd=wt)
        if rc != 0:
            print(o[-2000:])
            ok = False
        else:
            conf.append("cli built")
            pat = os.path.join(bindir, "cli." + var)
            shutil.copy(os.path.join(wt, "target/release/nitrogql-cli"), pat)
            runsh = os.path.join(src, "demo", "run.sh")
            if os.path.exists(runsh) and not no_demo:
                work = os.path.join(bindir, "demo-" + var)
                res = {}
                for label, b in (("unpatched", base), ("patched", pat)):
                    shutil.rmtree(work, ignore_errors=True)
                    shutil.copytree(os.path.join(src, "demo"), work)
                    first = open(os.path.join(work, "run.sh")).readline()
                    rc, o = sh(["bash" if "bash" in first else "sh", "./run.sh", b], cwd=work, timeout=600)
                    res[label] = rc
                    print("--- demo", label, "exit", rc)
                    print(o[-1500:])
                shutil.rmtree(work, ignore_errors=True)
                conf.append("demo run.sh: unpatched exit %d, patched exit %d" % (res["unpatched"], res["patched"]))
                if not (res["unpatched"] == 0 and res["patched"] != 0):
                    ok = False
                    print("demo does not discriminate by exit status; inspect by hand")
            elif demo_note:
                conf.append("demo (by hand): " + demo_note)
            else:
                conf.append("demo: not run by this script")
    finally:
        sh(["git", "-C", wt, "checkout", "--", "."])
    print("\n".join(conf))
    if not ok and "--force" not in a:
        print("NOT CONFIRMED")
        sys.exit(1)
    dst = os.path.join(ROOT, "seeded", pid + "-" + var)
    shutil.rmtree(dst, ignore_errors=True)
    os.makedirs(dst)
    shutil.copy(patch, os.path.join(dst, "patch.diff"))
    if os.path.isdir(os.path.join(src, "demo")):
        shutil.copytree(os.path.join(src, "demo"), os.path.join(dst, "demo"), ignore=shutil.ignore_patterns("target", "node_modules", "*.stderr", "generated"))
    meta = json.load(open(os.path.join(src, "meta.json")))
    meta["confirmed_by_verif"] = conf
    json.dump(meta, open(os.path.join(dst, "meta.json"), "w"), indent=1, ensure_ascii=False)
    print("stored", dst)


if __name__ == "__main__":
    main()
