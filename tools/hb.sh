#!/bin/sh
# builds the harness into the directory ./check uses, showing only errors
cd /verif/harness && cargo build --release --offline --target-dir /verif/target/harness 2>&1 | grep -E "^error" -A14 | head -${1:-60}
