#!/usr/bin/env python3
"""Runs the registered checks against every seeded change under /verif/seeded/<name>/patch.diff.

For each change: apply it to /repo's working tree (which must be clean), run the quick check of the property it was
written against (then the thorough one if quick stayed silent, unless --quick-only), record what happened, and undo it
(`git -C /repo checkout -- .`). Evidence and replay files of these runs go to a scratch directory, never to
/verif/evidence. Results are written to /verif/seeded/RESULTS.json and RESULTS.md.

usage: tools/run_seeded.py [name ...] [--quick-only] [--also PID,PID]   (default: every directory under seeded/)
"""
import json, os, subprocess, sys, time, tempfile, shutil

ROOT = os.path.dirname(os.path.dirname(os.path.abspath(__file__)))
SEEDED = os.path.join(ROOT, "seeded")
REPO = "/repo"


def sh(cmd, **kw):
    return subprocess.run(cmd, stdout=subprocess.PIPE, stderr=subprocess.STDOUT, text=True, **kw)


def clean():
    return sh(["git", "-C", REPO, "status", "--porcelain", "--untracked-files=no"]).stdout.strip() == ""


def run_check(pid, tier, scratch):
    env = dict(os.environ, VERIF_EVIDENCE_DIR=os.path.join(scratch, "evidence"), VERIF_REPLAY_DIR=os.path.join(scratch, "replays"))
    t0 = time.time()
    r = sh([os.path.join(ROOT, "check"), pid, "--tier", tier], env=env)
    sigs = []
    for line in r.stdout.splitlines():
        s = line.strip()
        if s.startswith(pid + "|"):
            sigs.append(s.split(": ")[0][:160])
    return dict(tier=tier, exit=r.returncode, wall_s=round(time.time() - t0, 1), signatures=sigs[:8],
                violation_lines=sum(1 for l in r.stdout.splitlines() if l.startswith("VIOLATION ")), tail=r.stdout[-600:] if r.returncode == 2 else "")


def main():
    args = [a for a in sys.argv[1:] if not a.startswith("--")]
    quick_only = "--quick-only" in sys.argv
    also = []
    for i, a in enumerate(sys.argv):
        if a == "--also" and i + 1 < len(sys.argv):
            also = sys.argv[i + 1].split(",")
            if sys.argv[i + 1] in args:
                args.remove(sys.argv[i + 1])
    names = args or sorted(d for d in os.listdir(SEEDED) if os.path.isfile(os.path.join(SEEDED, d, "patch.diff")))
    if not clean():
        print("refusing: /repo has uncommitted changes to tracked files", file=sys.stderr)
        sys.exit(2)
    res_path = os.path.join(SEEDED, "RESULTS.json")
    results = json.load(open(res_path)) if os.path.exists(res_path) else {}
    scratch = tempfile.mkdtemp(prefix="verif-seeded-")
    try:
        for name in names:
            d = os.path.join(SEEDED, name)
            meta = json.load(open(os.path.join(d, "meta.json")))
            pid = meta["property"]
            a = sh(["git", "-C", REPO, "apply", os.path.join(d, "patch.diff")])
            if a.returncode != 0:
                results[name] = dict(property=pid, error="patch does not apply: " + a.stdout[-300:])
                print(name, "patch does not apply")
                continue
            try:
                runs = [run_check(pid, "quick", scratch)]
                if runs[-1]["exit"] != 1 and not quick_only:
                    runs.append(run_check(pid, "thorough", scratch))
                others = {}
                for o in also:
                    if o != pid:
                        others[o] = run_check(o, "quick", scratch)
                caught = next((r["tier"] for r in runs if r["exit"] == 1), None)
                results[name] = dict(property=pid, summary=meta.get("summary", ""), caught_by=caught, runs=runs, other_checks=others)
                print(f"{name}: property={pid} caught_by={caught} " + " ".join(f"[{r['tier']} exit={r['exit']} {r['wall_s']}s]" for r in runs), flush=True)
            finally:
                sh(["git", "-C", REPO, "checkout", "--", "."])
            json.dump(results, open(res_path, "w"), indent=1, ensure_ascii=False)
    finally:
        shutil.rmtree(scratch, ignore_errors=True)
        sh(["git", "-C", REPO, "checkout", "--", "."])
    lines = ["# Seeded changes and the checks that catch them", "",
             "Produced by `tools/run_seeded.py` (apply patch to /repo, run the property's check, undo).", "",
             "| change | property | caught by | first signatures | summary |", "|---|---|---|---|---|"]
    for name in sorted(results):
        r = results[name]
        if "error" in r:
            lines.append(f"| {name} | {r['property']} | ERROR | {r['error'][:80]} | |")
            continue
        sigs = next((x["signatures"] for x in r["runs"] if x["exit"] == 1), [])
        lines.append(f"| {name} | {r['property']} | {r['caught_by'] or '**missed**'} | {'<br>'.join(s.replace('|', '¦') for s in sigs[:3])} | {r['summary'][:160].replace('|', '¦')} |")
    open(os.path.join(SEEDED, "RESULTS.md"), "w").write("\n".join(lines) + "\n")


if __name__ == "__main__":
    main()
